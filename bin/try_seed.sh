#!/bin/bash
# try_seed.sh <patch.diff> <ID> [<ID>...] : apply a seeded change to /repo, run the quick checks, undo it, rebuild.
set -u
P=$(readlink -f "$1"); shift
cd /repo && git apply "$P" || { echo "patch does not apply"; exit 2; }
cd /verif
for id in "$@"; do
  out=$(./bin/check $id --tier quick 2>&1 | grep -E "^(OK|VIOLATION|KNOWN|FAIL|ERROR|TOOL)" | head -5)
  echo "[$id] ${out:-<no verdict line>}"
done
git -C /repo checkout -- .
(cd /verif/harness && CARGO_NET_OFFLINE=true cargo build --offline 2>&1 | tail -1)
