#!/bin/bash
# confirm_seed.sh <seed dir containing patch.diff + demo.rs> : confirms in a scratch worktree that the seeded change
# compiles, passes the existing suite, and that its demonstration fails with the change and passes without it.
# Writes <seed dir>/confirm.json. Uses one persistent scratch worktree (/tmp/confirm_wt) so builds are incremental.
set -u
D=$(readlink -f "$1"); WT=/tmp/confirm_wt
if [ ! -d "$WT" ]; then git -C /repo worktree add --detach "$WT" HEAD >/dev/null 2>&1; fi
cd "$WT" && git checkout -q --detach "$(git -C /repo rev-parse HEAD)" && git checkout -q -- . && git clean -fdq rs-matter/tests
NAME=$(basename "$D" | tr 'A-Z-' 'a-z_')
DEMO="rs-matter/tests/seed_${NAME}.rs"
cp "$D/demo.rs" "$DEMO"
# without the change
cargo test --workspace --offline --test "seed_${NAME}" > "$D/demo_without.log" 2>&1; W=$?
git apply "$D/patch.diff" || { echo '{"error":"patch does not apply"}' > "$D/confirm.json"; exit 1; }
cargo test --workspace --offline --test "seed_${NAME}" > "$D/demo_with.log" 2>&1; C=$?
rm -f "$DEMO"
cargo test --workspace --no-fail-fast --offline 2>&1 | grep -E "^test result|FAILED|panicked|^error" > "$D/suite_with.log"; 
NOK=$(grep -c "test result: ok" "$D/suite_with.log"); NBAD=$(grep -v "test result: ok" "$D/suite_with.log" | grep -c .)
git checkout -q -- . 
printf '{"demo_exit_without_change": %d, "demo_exit_with_change": %d, "suite_ok_lines_with_change": %d, "suite_bad_lines_with_change": %d, "repo_head": "%s"}\n' $W $C $NOK $NBAD "$(git -C /repo rev-parse --short HEAD)" > "$D/confirm.json"
cat "$D/confirm.json"
