#!/usr/bin/env python3
"""mkmeta.py : writes seeded/<id>/meta.json for every seeded change from its README.md (what it is, what it needs to
manifest), confirm.json (my own re-run in a scratch worktree: demonstration without / with the change, existing suite
with the change) and check.json (bin/seed_matrix.sh: verdicts of the /verif quick checks with the change applied)."""
import json, os, re, sys
ROOT = os.path.dirname(os.path.dirname(os.path.abspath(__file__)))
SD = os.path.join(ROOT, "seeded")
props = {json.loads(l)["id"]: json.loads(l)["title"] for l in open(os.path.join(ROOT, "properties.jsonl"))}
rows = []
for d in sorted(os.listdir(SD)):
    p = os.path.join(SD, d)
    if not os.path.isfile(os.path.join(p, "patch.diff")):
        continue
    prop = d.split("-")[0].rstrip("r")
    readme = open(os.path.join(p, "README.md")).read()
    title = readme.splitlines()[0].lstrip("# ").strip()
    m = re.search(r"^## What is needed for it to manifest[^\n]*\n(.*?)(?=^## )", readme, re.S | re.M)
    needs = re.sub(r"\s+", " ", m.group(1)).strip()[:1500] if m else ""
    files = sorted(set(re.findall(r"^\+\+\+ b/(\S+)", open(os.path.join(p, "patch.diff")).read(), re.M)))
    meta = {"property": prop, "property_title": props.get(prop, ""), "change": title, "files_touched": files,
            "needs_to_manifest": needs, "origin": "fresh sub-agent given only the property text and a scratch worktree of /repo"}
    cj = os.path.join(p, "confirm.json")
    if os.path.exists(cj):
        c = json.load(open(cj))
        meta["confirmed_by_me"] = {"how": "bin/confirm_seed.sh in the scratch worktree /tmp/confirm_wt at /repo HEAD: demonstration test without the change, with the change, then the whole existing suite (cargo test --workspace --no-fail-fast --offline) with the change",
                                   "demo_exit_without_change": c.get("demo_exit_without_change"), "demo_exit_with_change": c.get("demo_exit_with_change"),
                                   "suite_ok_lines_with_change": c.get("suite_ok_lines_with_change"), "suite_bad_lines_with_change": c.get("suite_bad_lines_with_change"), "repo_head": c.get("repo_head"),
                                   "ok": c.get("demo_exit_without_change") == 0 and c.get("demo_exit_with_change") not in (0, None) and c.get("suite_bad_lines_with_change") == 0}
        if c.get("note"):
            meta["confirmed_by_me"]["note"] = c["note"]
    kj = os.path.join(p, "check.json")
    caught = []
    if os.path.exists(kj):
        k = json.load(open(kj))
        meta["verif_quick_checks_with_the_change"] = k["quick_checks"]
        meta["checked_at_repo_head"] = k.get("repo_head")
        caught = [i for i, v in k["quick_checks"].items() if v["verdict"] == "VIOLATION"]
        meta["caught_by"] = caught
    json.dump(meta, open(os.path.join(p, "meta.json"), "w"), indent=1)
    rows.append((d, title, caught, meta.get("confirmed_by_me", {}).get("ok")))
if "--table" in sys.argv:
    print("| seed | change | caught by | confirmed |")
    print("|---|---|---|---|")
    for d, t, c, ok in rows:
        t = re.sub(r"^C\d\d\s*(/|seeded)?\s*(change|seeded change)?\s*\d?\s*[-:]*\s*", "", t)
        print("| %s | %s | %s | %s |" % (d, t[:110], ", ".join(c) if c else "**not caught**", "yes" if ok else ("no" if ok is False else "-")))
