#!/usr/bin/env python3
"""Regenerates the seed table of DESIGN.md (between the SEEDMATRIX markers) from seeded/*/meta.json (bin/mkmeta.py)."""
import subprocess, re, os
ROOT = os.path.dirname(os.path.dirname(os.path.abspath(__file__)))
tab = subprocess.run(["python3", os.path.join(ROOT, "bin", "mkmeta.py"), "--table"], capture_output=True, text=True).stdout
p = os.path.join(ROOT, "DESIGN.md")
s = open(p).read()
s = re.sub(r"<!-- SEEDMATRIX-BEGIN -->.*?<!-- SEEDMATRIX-END -->", "<!-- SEEDMATRIX-BEGIN -->\n" + tab.strip() + "\n<!-- SEEDMATRIX-END -->", s, flags=re.S)
open(p, "w").write(s)
print(tab.count("\n") - 2, "seeds")
