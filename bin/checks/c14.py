"""C14 - a chunked answer carries the complete result exactly once.

1. TLC checks exhaustively the report writer of im.rs transcribed to Chunk.tla (write / NoSpace / rewind / flush / retry,
   whole list -> empty list + element streaming, the `chunked` flag that turns a second NoSpace on a fresh message into
   a ResourceExhausted status) for every sequence of up to 3 items (scalars of 1..6 units, lists of 0..3 elements of
   1..5 units) against a message of 4 units: Complete, Ordered, Bounded and - under weak fairness - Terminates.  The
   variant without the flag (the code as found, F-C14b) must violate Bounded (sensitivity).
2. Every item sequence of that universe (one REPLAY line per initial state) is turned into a real node: one attribute
   per item, of exactly that many bytes (unit = a quarter of a message, several units per tier), read with a wildcard
   path - or with one concrete path per attribute - over a CASE-like session of the IM world.  Harness-made sweeps add
   the byte-exact boundaries: a value that just fits / just does not fit the rest of a message and an empty message, list
   elements across the boundary, lists far longer than a message, empty lists at the end of a message.
3. TLC validates every recorded run (Req / El / End) against ChunkTrace.tla: Layer I (the elements follow the writer's
   state machine) and Layer P (each value exactly once and in order, lists split at element boundaries only, every
   message well-formed and <= 1280 bytes, only the last one ends the interaction, the answer ends)."""
import json, os, random
import vlib
from vlib import Check

def signature(r):
    e = r["event"]
    if e.get("ev") == "End":
        if e.get("error"):
            return "C14|End|error"
        return "C14|End|incomplete-or-malformed"
    if e.get("ev") == "El":
        return "C14|El|%s|%s" % (e.get("k"), e.get("li", e.get("status")))
    return "C14|%s" % e.get("ev")

def sweeps(quick):
    S = lambda n: {"k": "s", "sz": n}
    L = lambda *e: {"k": "l", "hdr": 1, "el": list(e)}
    out = []
    step = 7 if quick else 1
    # one value around the capacity of an empty message, alone and after a filler (just fits / just does not)
    for n in range(960, 1200, step):
        out.append({"items": [S(n)]})
    for fill in (1, 300, 611):
        for n in range(1010 - fill - 60, 1010 - fill + 80, step):
            out.append({"items": [S(fill), S(n), S(5)]})
    # the same with concrete paths
    for n in range(1000, 1180, step * 3):
        out.append({"items": [S(40), S(n)], "concrete": True})
    # list elements across the boundary
    for n in range(380, 480, step):
        out.append({"items": [L(n, n, n), S(3)]})
    for n in range(960, 1200, step * 2):
        out.append({"items": [S(200), L(10, n, 10), S(3)]})
        out.append({"items": [L(n)], "concrete": True})
    # lists much longer than a message, with tiny and with irregular elements
    out.append({"items": [L(*([3] * 700))]})
    out.append({"items": [S(900), L(*([1] * 300)), S(900)]})
    out.append({"items": [L(*[(7 * i) % 230 + 1 for i in range(120)]), L(), L(*([100] * 25))]})
    # empty lists and tiny values where a message ends
    for fill in range(930, 1080, step):
        out.append({"items": [S(fill), L(), S(1), L(2)]})
    # the same boundaries with event requests present (the EventReports array is opened after the last attribute)
    for n in range(1040, 1100, 1 if not quick else 2):
        out.append({"items": [S(1), S(n), S(5)], "events": True})
        out.append({"items": [S(1), S(n), S(5)]})
    for n in range(1050, 1100, step):
        out.append({"items": [L(300, 300), S(n - 640)], "events": True})
    # events: queued events spanning several messages, after attributes that leave little or no room; a concrete event path
    # that selects nothing (answered by a status) where a message ends; an event no message can carry
    E = lambda items, evs, mode="wild": {"items": items, "events": mode, "evs": evs}
    out.append(E([S(1), S(500)], [10, 200, 300, 400, 50, 600, 20]))
    out.append(E([L(300, 300, 300, 300, 300)], [1000, 1, 1000], "both"))
    out.append(E([S(1)], [10, 1150, 20]))
    out.append(E([S(1)], [1300]))
    out.append(E([S(1)], [(37 * i) % 300 + 1 for i in range(40)], "both"))
    for n in range(1000, 1140, 1 if not quick else 3):
        out.append(E([S(1), S(n)], [5, 700, 5], "both"))
        out.append(E([S(1), S(n)], [], "missing"))
    for n in range(980, 1180, step):
        out.append(E([S(1)], [n]))
        out.append(E([S(1)], [300, n - 300, 2]))
    # data-version filters (a cluster left out of / kept in the answer of a whole-endpoint read) and event filters
    for n in range(980, 1130, step * 2):
        for dvf in ("match", "mismatch"):
            out.append({"items": [S(300), S(n), L(200, 200, 200), S(n)], "split": 2, "dvf": dvf})
            out.append({"items": [S(n), L(*([90] * 30)), S(7)], "split": 1, "dvf": dvf, "events": "wild", "evs": [10, 600, 20, 700], "evmin": 2})
    out.append({"items": [S(500), S(600)], "split": 1, "events": "wild", "evs": [10, 20, 30, 400, 500], "evmin": 3})
    out.append({"items": [S(5)], "events": "both", "evs": [100] * 30, "evmin": 17})
    # many attributes
    out.append({"items": [S(1 + (13 * i) % 120) for i in range(100)]})
    return out

def run(tier, seed):
    ck = Check("C14", tier, seed)
    wd = ck.wd
    quick = tier != "thorough"
    mc = vlib.tlc_mc("C14", "MCChunk.tla", "MCChunk.cfg", workers=8, timeout=1800)
    if not mc["ok"]:
        raise vlib.ToolError("Chunk.tla (fixed variant) violates its properties (%s):\n%s" % (mc["violated"], mc["out_tail"]))
    sens = vlib.tlc_mc("C14", "MCChunk.tla", "MCChunk_orig.cfg", workers=4, timeout=1800)
    if sens["ok"] or sens["violated"] != "Bounded":
        raise vlib.ToolError("sensitivity: the writer without the `chunked` flag should violate Bounded: %s" % sens)
    seqs, _, _ = vlib.tlc_collect("C14", "MCChunk.tla", "MCChunk.cfg", workers=4, timeout=1800, tag="gen")
    rnd = random.Random(seed)
    units = [270] if quick else [200, 255, 270, 290]
    if quick:
        seqs = rnd.sample(seqs, min(len(seqs), 1500))
    sw = sweeps(quick)
    n_runs_total, states_total, events = 0, 0, 0
    rejs = []
    for u in units:
        bpath = os.path.join(wd, "behaviours_%d.ndjson" % u)
        vlib.write_ndjson(bpath, seqs + (sw if u == units[0] else []))
        tpath = os.path.join(wd, "trace_%d.ndjson" % u)
        summ = vlib.harness(["c14", "--behaviours", bpath, "--out", tpath, "--unit", str(u)], timeout=6000)
        states, n_runs, rej = vlib.validate_runs("C14", "ChunkTrace.tla", "ChunkTrace.cfg", tpath)
        states_total += states; n_runs_total += n_runs
        rejs += rej
        if u == units[0]:
            first_trace = tpath
    for r in rejs:
        ck.violation(signature(r), "real device: event %s (no. %d of its run) is not allowed by ChunkTrace" % (json.dumps(r["event"])[:600], r["at"]),
                     {"first_rejected": {"index": r["at"], "event": r["event"]}, "run": r["run"][:60]})
    ev = vlib.read_ndjson(first_trace)
    events = len(ev)
    # binding self-test: a list element reported twice / a wrong length must be rejected
    bad = {r["run_index"] for r in rejs}
    runs = [run for ri, run in enumerate(vlib.split_runs(ev)) if ri not in bad]
    pick = next(run for run in runs if sum(1 for e in run if e.get("ev") == "El" and e.get("li") == "append") >= 2)
    k = next(i for i, e in enumerate(pick) if e.get("ev") == "El" and e.get("li") == "append")
    ev2 = [dict(e) for e in pick]
    ev2.insert(k + 1, dict(ev2[k]))
    cpath = os.path.join(wd, "trace_corrupt.ndjson")
    vlib.write_ndjson(cpath, ev2)
    r2 = vlib.tlc_trace("C14", "ChunkTrace.tla", "ChunkTrace.cfg", cpath, tag="selftest")
    if r2["accepted"]:
        raise vlib.ToolError("binding self-test failed (a duplicated list element was accepted): %s" % r2)
    multi = sum(1 for e in ev if e.get("ev") == "End" and len(e.get("chunks", [])) > 1)
    statuses = sum(1 for e in ev if e.get("ev") == "El" and e.get("k") == "status")
    ck.cov.update({
        "states": mc["distinct"] + states_total, "transitions": mc["generated"],
        "traces_validated_against_impl": n_runs_total, "exhaustive": False,
        "design_model_runs": [{k2: mc[k2] for k2 in ("cfg", "generated", "distinct", "depth", "wall_s")}],
        "design_models_exhaustive": True, "design_liveness_checked": ["Terminates"],
        "sensitivity": {"cfg": "MCChunk_orig.cfg", "violated": sens["violated"]},
        "generator": {"cfg": "MCChunk.cfg (EmitItems)", "item_sequences": len(seqs), "units_bytes": units, "harness_made_sweeps": len(sw)},
        "trace_validation": {"spec": "ChunkTrace.tla", "events_first_unit": events, "states": states_total, "rejected_runs": len(rejs),
                             "answers_with_more_than_one_message": multi, "resource_exhausted_statuses": statuses},
        "binding_selftest": {"duplicated_event": k + 1, "rejected_at": r2.get("rejected_at"), "ok": True},
        "samples": [seqs[0], ev[:8]],
    })
    ck.assumptions += ["reads of attributes and queued events, with data-version and event filters; subscription priming is checked for completeness by the C13 full-stack stage; later reports go through the same writer loop (report_attributes / report_events / send)",
                       "the transmit buffer has the size the crate is built with (MAX_EXCHANGE_TX_BUF_SIZE); smaller buffers are covered only by the model (Cap)",
                       "a value larger than the build's transmit buffer (MAX_EXCHANGE_TX_BUF_SIZE) less 250 bytes may be answered by a ResourceExhausted status (no message can carry it); smaller values must be delivered; the largest datagram allowed is the transport's MAX_TX_PACKET_SIZE"]
    return ck.finish()
