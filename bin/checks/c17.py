"""C17 - headers, onboarding payloads and discovery records decode what was encoded.

The formats are written down as a TLA+ module (Codec.tla) from the specification: message header, protocol header, status
report, BDX TransferInit / Accept / Block, base-38, the manual pairing code with its Verhoeff digit, the QR payload (bit
packing, base-38 text, serial number in the optional TLV data), the BLE advertisement payload and a DNS-SD answer
(PTR / SRV / TXT / AAAA / A).  TLC draws field values from palettes of extremes, computes the reference encoding and - for
the text formats - the reference verdict (refuse, or the exact fields) of drawn mutations (a character replaced, two
neighbours swapped, one dropped, one added, one outside the alphabet), and checks the reference's own sanity on every
vector (decode(encode(x)) = x; every strict prefix of a header is refused; Verhoeff catches every single-digit error
and every transposition of different neighbours; the literal vectors of the specification).  The harness runs the real
encoder (bytes / text equal to the reference), the real decoder on the reference encoding (every field equal, payload
starts where it should, re-encoding gives the same bytes), on truncations and on every mutant (verdict and fields equal
to the reference's), and every decoder on every single-byte mutation of valid inputs under a panic guard."""
import collections, concurrent.futures, json, os, re
import vlib
from vlib import Check

def kind_of(d):
    d = re.sub(r"[0-9]+", "N", d)
    for key in ("PANIC", "encode", "re-encode", "pretty form", "decode of the reference encoding failed", "decode:", "reserved", "cut to", "accepted", "refused", "instead of", "gives"):
        if key in d:
            return key.strip(":").replace(" ", "-")
    return "other"

def run(tier, seed):
    ck = Check("C17", tier, seed)
    wd = ck.wd
    quick = tier != "thorough"
    jobs = 6 if quick else 14
    per = (6, 300) if quick else (60, 400)
    def gen(j):
        return vlib.tlc_sim("C17", "Codec.tla", "Codec.cfg", num=per[0], depth=per[1], seed=seed * 1000 + j, timeout=3000, tag="gen%d" % j)
    vecs, states = [], 0
    with concurrent.futures.ThreadPoolExecutor(max_workers=jobs) as ex:
        for b, st in ex.map(gen, range(jobs)):
            vecs += b; states += st
    seen, uniq = set(), []
    for v in vecs:
        k = json.dumps(v, sort_keys=True)
        if k not in seen:
            seen.add(k); uniq.append(v)
    vecs = uniq
    if len(vecs) < 3000:
        raise vlib.ToolError("generator produced only %d vectors" % len(vecs))
    vpath = os.path.join(wd, "vectors.ndjson")
    vlib.write_ndjson(vpath, vecs)
    tpath = os.path.join(wd, "trace.ndjson")
    summ = vlib.harness(["c17", "--vectors", vpath, "--out", tpath], timeout=6000)
    tr = vlib.read_ndjson(tpath)
    if len(tr) != len(vecs):
        raise vlib.ToolError("harness answered %d of %d vectors" % (len(tr), len(vecs)))
    by_fmt = collections.Counter(v["fmt"] for v in vecs)
    n_mut = sum(len(v["mut"]) for v in vecs)
    n_refused = sum(1 for v in vecs for m in v["mut"] if m["verdict"]["err"])
    for v, t in zip(vecs, tr):
        for d in t["diffs"][:2]:
            ck.violation("C17|%s|%s" % (v["fmt"], kind_of(d)), "%s: %s" % (v["fmt"], d[:600]), {"vector": v, "real": t})
    # binding self-test: a falsified reference must be noticed by the harness
    fake = []
    for f in sorted(by_fmt):
        v = json.loads(json.dumps(next(x for x in vecs if x["fmt"] == f and len(x["enc"]) > 0)))
        v["enc"][-1] = (v["enc"][-1] + 1) % (38 if f in ("b38", "qr") else 10 if f == "manual" else 256)
        fake.append(v)
    fpath = os.path.join(wd, "vectors_fake.ndjson")
    vlib.write_ndjson(fpath, fake)
    ftrace = os.path.join(wd, "trace_fake.ndjson")
    vlib.harness(["c17", "--vectors", fpath, "--out", ftrace], timeout=600)
    quiet = [t["fmt"] for t in vlib.read_ndjson(ftrace) if not t["diffs"]]
    if quiet:
        raise vlib.ToolError("binding self-test failed: a falsified reference encoding was not noticed for %s" % quiet)
    ck.cov.update({
        "states": states, "transitions": states, "traces_validated_against_impl": len(vecs), "exhaustive": False,
        "vectors": len(vecs), "by_format": dict(by_fmt), "text_mutants": n_mut, "text_mutants_the_reference_refuses": n_refused,
        "real": summ, "reference_invariants": "RoundTrip, Known (checked by TLC on every drawn vector)",
        "binding_selftest": {"falsified_vectors": len(fake), "all_noticed": True},
        "samples": [vecs[0], tr[0]],
    })
    ck.assumptions += ["field values come from palettes of extremes and ordinary values, not from all 2^64",
                       "check-in messages, the certificate conversion between Matter and X.509 form and the certification declaration are not in the reference (the conversion is exercised by C19, whose certificates are signed over the implementation's X.509 rendering)",
                       "header flags that the public setters cannot reach (privacy, message extensions, security extension) are checked on the decode / re-encode side only",
                       "the mDNS answers are uncompressed; name compression is handled by the DNS library, not by rs-matter"]
    return ck.finish()
