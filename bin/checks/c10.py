"""C10 - a message reaches only its own exchange, and the receive path never wedges.

1. TLC checks exhaustively (2 sessions x 2 exchange ids - the same id may be live on both sessions -, 2 handlers, 3-4 peer
   datagrams of any session / exchange id / initiator flag / reliable flag, a stray datagram, every handler policy per
   exchange id: reply, drop, hold, relDrop = answer reliably and drop at once, which makes the device close the whole
   session) that the receive-slot machine transcribed from transport.rs / exchange.rs (RxSlot.tla) keeps RightExchangeOnly
   and OpensOnlyIfAllowed, and - under fairness of the sweepers and of the owners - SlotEventuallyFree and EventuallyClean.
2. TLC-simulated disturbance schedules (2 sessions x 3 exchange ids, 8 datagrams, random policies) plus harness-made ones
   (unsecured strays, the same exchange id on two sessions while the first owner waits for its next message, a message
   parked for accept while its session is closed under it) are replayed against a real device Matter with two responder
   handlers following the policies; the peer is a raw injector holding the keys of three planted sessions; after 8 s a
   fresh probe request is sent on the third session.  Handlers report the (session, exchange) they really own, read from
   the device's own tables through the snapshot hook.
3. TLC validates the recorded Inj / AppRx / Tx / Probe / End traces against Layer P (RxSlotProp.tla)."""
import json, os
import vlib
from vlib import Check

def signature(r):
    e = r["event"]
    if e.get("ev") == "Tx":
        return "C10|Tx|%s|%s" % (e.get("kind"), "secured" if e.get("secured") else "unsecured")
    if e.get("ev") == "End":
        return "C10|End|left=%s|probe=%s" % (e.get("left"), e.get("probe_answered"))
    return "C10|%s" % e.get("ev")

def run(tier, seed):
    ck = Check("C10", tier, seed)
    wd = ck.wd
    quick = tier != "thorough"
    mc = vlib.tlc_mc("C10", "RxSlot.tla", "MCRxSlot.cfg" if quick else "MCRxSlotDeep.cfg", workers=8 if quick else 14, timeout=3000)
    if not mc["ok"]:
        raise vlib.ToolError("RxSlot violates its properties (%s):\n%s" % (mc["violated"], mc["out_tail"]))
    # the same machine with an exchange the device itself initiated (the role is part of the identity): safety;
    # sensitivity: ignoring the role for initiator messages must violate RightExchangeOnly
    mco = vlib.tlc_mc("C10", "RxSlot.tla", "MCRxSlotOwn.cfg", workers=8, timeout=3000)
    if not mco["ok"]:
        raise vlib.ToolError("RxSlot with a device-initiated exchange violates its invariants (%s):\n%s" % (mco["violated"], mco["out_tail"]))
    blind = vlib.tlc_mc("C10", "RxSlot.tla", "MCRxSlot_roleBlind.cfg", workers=4, timeout=3000)
    if blind["ok"] or blind["violated"] != "RightExchangeOnly":
        raise vlib.ToolError("sensitivity: RxSlot with the role ignored should violate RightExchangeOnly: %s" % blind)
    num = 300 if quick else 6000
    beh, gen_states = vlib.tlc_sim("C10", "RxSlot.tla", "GenRxSlot.cfg", num=num, depth=80, seed=seed, timeout=2400)
    uniq, seen = [], set()
    for b in beh:
        k = json.dumps(b, sort_keys=True)
        if k not in seen:
            seen.add(k); uniq.append(b)
    beh = uniq
    bpath = os.path.join(wd, "behaviours.ndjson")
    vlib.write_ndjson(bpath, beh)
    tpath = os.path.join(wd, "trace.ndjson")
    summ = vlib.harness(["c10", "--behaviours", bpath, "--out", tpath], timeout=3000)
    states, n_runs, rej = vlib.validate_runs("C10", "RxSlotTrace.tla", "RxSlotTrace.cfg", tpath)
    for r in rej:
        ck.violation(signature(r), "real device: event %s (no. %d of its run) is not allowed by Layer P" % (json.dumps(r["event"]), r["at"]),
                     {"first_rejected": {"index": r["at"], "event": r["event"]}, "run": r["run"][:150]})
    ev = vlib.read_ndjson(tpath)
    bad = {r["run_index"] for r in rej}
    good = [e for ri, run in enumerate(vlib.split_runs(ev)) if ri not in bad for e in run]
    k = next(i for i, e in enumerate(good) if e.get("ev") == "AppRx" and i > 3)
    ev2 = [dict(e) for e in good[:k + 20]]
    ev2[k]["ts"] = 3 - ev2[k]["ts"] if ev2[k]["ts"] in (1, 2) else 1          # a handler gets a message sent on another session
    cpath = os.path.join(wd, "trace_corrupt.ndjson")
    vlib.write_ndjson(cpath, ev2)
    r2 = vlib.tlc_trace("C10", "RxSlotTrace.tla", "RxSlotTrace.cfg", cpath, tag="selftest")
    if r2["accepted"] or r2.get("rejected_at") != k + 1:
        raise vlib.ToolError("binding self-test failed: %s" % r2)
    ck.cov.update({
        "states": mc["distinct"] + states, "transitions": mc["generated"] + gen_states,
        "traces_validated_against_impl": n_runs, "exhaustive": False,
        "design_model_runs": [{k2: m[k2] for k2 in ("cfg", "generated", "distinct", "depth", "wall_s")} for m in (mc, mco)],
        "sensitivity": {"cfg": "MCRxSlot_roleBlind.cfg", "violated": blind["violated"]},
        "design_models_exhaustive": True, "design_liveness_checked": ["SlotEventuallyFree", "EventuallyClean"],
        "generator": {"cfg": "GenRxSlot.cfg", "schedules": len(beh), "harness_made": 11},
        "replay": summ,
        "trace_validation": {"spec": "RxSlotTrace.tla (Layer P = RxSlotProp.tla)", "events": len(ev), "states": states, "rejected_runs": len(rej),
                             "app_receipts": sum(1 for e in ev if e.get("ev") == "AppRx"), "probes_answered": sum(1 for e in ev if e.get("ev") == "ProbeAnswered")},
        "binding_selftest": {"corrupted_event": k + 1, "rejected_at": r2.get("rejected_at"), "ok": True},
        "samples": [beh[0], ev[:14]],
    })
    ck.assumptions += ["two secured sessions carry the disturbance, the probe arrives on a third one",
                       "an unsecured SessionNotFound answer is admitted for every secured datagram injected on a session the device has removed by the time the answer is observed (the datagram may have been waiting in the socket)"]
    return ck.finish()
