"""C10 - a message reaches only its own exchange, and the receive path never wedges.

1. TLC checks exhaustively (2 exchange ids, 2 handlers, 4 peer datagrams of any exchange id / initiator flag / reliable
   flag, every handler policy per exchange: reply, drop, hold) that the receive-slot machine transcribed from transport.rs /
   exchange.rs (RxSlot.tla) keeps RightExchangeOnly and OpensOnlyIfAllowed, and - under fairness of the sweepers and of the
   owners - SlotEventuallyFree and EventuallyClean (liveness).
2. TLC-simulated disturbance schedules (3 exchange ids, 7 datagrams, random policies) plus harness-made ones (unsecured
   status reports that belong to nothing, datagrams for a missing session) are replayed against a real device Matter with
   two responder handlers following the policies; the peer is a raw injector holding the keys of two planted sessions;
   after 8 s a fresh probe request is sent on the other session.
3. TLC validates the recorded Inj / AppRx / Tx / Probe / End traces against Layer P (RxSlotProp.tla)."""
import json, os
import vlib
from vlib import Check

def signature(r):
    e = r["event"]
    if e.get("ev") == "Tx":
        return "C10|Tx|%s|%s" % (e.get("kind"), "secured" if e.get("secured") else "unsecured")
    if e.get("ev") == "End":
        return "C10|End|left=%s|probe=%s" % (e.get("left"), e.get("probe_answered"))
    return "C10|%s" % e.get("ev")

def run(tier, seed):
    ck = Check("C10", tier, seed)
    wd = ck.wd
    quick = tier != "thorough"
    mc = vlib.tlc_mc("C10", "RxSlot.tla", "MCRxSlot.cfg" if quick else "MCRxSlotDeep.cfg", workers=8 if quick else 14, timeout=3000)
    if not mc["ok"]:
        raise vlib.ToolError("RxSlot violates its properties (%s):\n%s" % (mc["violated"], mc["out_tail"]))
    num = 300 if quick else 6000
    beh, gen_states = vlib.tlc_sim("C10", "RxSlot.tla", "GenRxSlot.cfg", num=num, depth=80, seed=seed, timeout=2400)
    uniq, seen = [], set()
    for b in beh:
        k = json.dumps(b, sort_keys=True)
        if k not in seen:
            seen.add(k); uniq.append(b)
    beh = uniq
    bpath = os.path.join(wd, "behaviours.ndjson")
    vlib.write_ndjson(bpath, beh)
    tpath = os.path.join(wd, "trace.ndjson")
    summ = vlib.harness(["c10", "--behaviours", bpath, "--out", tpath], timeout=3000)
    states, n_runs, rej = vlib.validate_runs("C10", "RxSlotTrace.tla", "RxSlotTrace.cfg", tpath)
    for r in rej:
        ck.violation(signature(r), "real device: event %s (no. %d of its run) is not allowed by Layer P" % (json.dumps(r["event"]), r["at"]),
                     {"first_rejected": {"index": r["at"], "event": r["event"]}, "run": r["run"][:150]})
    ev = vlib.read_ndjson(tpath)
    bad = {r["run_index"] for r in rej}
    good = [e for ri, run in enumerate(vlib.split_runs(ev)) if ri not in bad for e in run]
    k = next(i for i, e in enumerate(good) if e.get("ev") == "AppRx" and i > 3)
    ev2 = [dict(e) for e in good[:k + 20]]
    ev2[k]["tag"] = ev2[k]["tag"] + 1          # a handler gets a message of another exchange
    cpath = os.path.join(wd, "trace_corrupt.ndjson")
    vlib.write_ndjson(cpath, ev2)
    r2 = vlib.tlc_trace("C10", "RxSlotTrace.tla", "RxSlotTrace.cfg", cpath, tag="selftest")
    if r2["accepted"] or r2.get("rejected_at") != k + 1:
        raise vlib.ToolError("binding self-test failed: %s" % r2)
    ck.cov.update({
        "states": mc["distinct"] + states, "transitions": mc["generated"] + gen_states,
        "traces_validated_against_impl": n_runs, "exhaustive": False,
        "design_model_runs": [{k2: mc[k2] for k2 in ("cfg", "generated", "distinct", "depth", "wall_s")}],
        "design_models_exhaustive": True, "design_liveness_checked": ["SlotEventuallyFree", "EventuallyClean"],
        "generator": {"cfg": "GenRxSlot.cfg", "schedules": len(beh), "harness_made": 2},
        "replay": summ,
        "trace_validation": {"spec": "RxSlotTrace.tla (Layer P = RxSlotProp.tla)", "events": len(ev), "states": states, "rejected_runs": len(rej),
                             "app_receipts": sum(1 for e in ev if e.get("ev") == "AppRx"), "probes_answered": sum(1 for e in ev if e.get("ev") == "ProbeAnswered")},
        "binding_selftest": {"corrupted_event": k + 1, "rejected_at": r2.get("rejected_at"), "ok": True},
        "samples": [beh[0], ev[:14]],
    })
    ck.assumptions += ["one secured session carries the disturbance, the probe arrives on a second one; handlers answer with unreliable messages",
                       "a CloseSession status report on a fresh exchange is dropped by the stack (not a candidate for a new exchange), so the model's SessionGone step is exercised with datagrams for a missing session instead"]
    return ck.finish()
