"""C15 - a nonce is never used for two different messages.

Layer P (MrpProp.tla, the rules TxOk / AllocOk): on a secure session every datagram that is not a retransmission carries a
message counter strictly greater than all earlier ones of that session and sender, a datagram with a counter seen before
is bit-for-bit identical to the first one with that counter, and a freshly chosen session / exchange identifier is not the
identifier of a live session / exchange. The wire tap of the C09 adversary schedules (TLC-simulated and all schedules with up
to two faults, which force retransmissions of requests, responses and acknowledgement-carrying messages) is validated by
TLC against these rules, together with an identifier sweep: more than 2^16 exchange-id and session-id allocations on a
real session table while two exchanges and two sessions stay alive. Session establishment: every message of the PASE, CASE and
CASE-resumption handshakes is lost once or twice or answered late in the handshake world (real device, real initiators), and
TLC validates on the wire tap that equal counters mean equal bytes (HsWireTrace.tla)."""
from checks import c09

def run(tier, seed):
    return c09.run(tier, seed, pid="C15", extra=("--ids",))
