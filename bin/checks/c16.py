"""C16 - the TLV codec round-trips every value and rejects every malformed input safely.

The Matter TLV grammar is written in TLA+ (Tlv.tla: Bytes = reference encoder, Parse = reference decoder with a depth
limit; 64-bit lengths as byte lists). TLC enumerates every value tree of the universe (all tag forms, integer widths
and extremes, strings with 1/2/4/8-byte length fields, nulls, booleans, floats, containers with up to two children, one
nesting level), checks Parse(Bytes(e)) = e, and prints each encoding together with the reference verdict of every
mutation of it (every truncation; every byte replaced by 0, 1, 0x18, 0xff, +1; a byte appended). The harness writes each
tree with the real writer (bytes must equal the reference encoding), decodes each input with every public accessor of
the real reader under a panic guard and an iteration budget, and re-encodes what was decoded (must reproduce the bytes
wherever the reference says well-formed).  Integer values (TlvInt.tla: boundary palette as 8-byte two's-complement lists,
which widths hold a value, what an encoded integer denotes) go through every value-typed entry point of the writer
(i8..i64, u8..u64, primitive ToTLV, a derived structure): the bytes must denote the value per the grammar and the real
reader must return it."""
import json, os
import vlib
from vlib import Check

def run(tier, seed):
    ck = Check("C16", tier, seed)
    wd = ck.wd
    quick = tier != "thorough"
    vals, gen, distinct = vlib.tlc_collect("C16", "Tlv.tla", "Tlv.cfg" if quick else "TlvFull.cfg", workers=6 if quick else 14, timeout=3000)
    seen, uniq = set(), []
    for v in vals:
        k = json.dumps(v["bytes"])
        if k not in seen:
            seen.add(k); uniq.append(v)
    vals = uniq
    if len(vals) < 200:
        raise vlib.ToolError("generator produced only %d values" % len(vals))
    vpath = os.path.join(wd, "values.ndjson")
    vlib.write_ndjson(vpath, vals)
    ints, igen, idist = vlib.tlc_collect("C16", "TlvInt.tla", "TlvInt.cfg", workers=1, timeout=300)
    if len(ints) < 20:
        raise vlib.ToolError("TlvInt produced only %d values" % len(ints))
    ipath = os.path.join(wd, "ints.ndjson")
    vlib.write_ndjson(ipath, ints)
    tpath = os.path.join(wd, "trace.ndjson")
    summ = vlib.harness(["c16", "--behaviours", vpath, "--ints", ipath, "--out", tpath], timeout=3000)
    tr = vlib.read_ndjson(tpath)
    n_valid = 0
    for t in tr:
        if t.get("ev") == "Int":
            if not t["ok"]:
                ck.violation("C16|int|%s" % t["entry"], "integer %s written through %s does not come back as the same value: %s" % (t["v"], t["entry"], t["msg"][:200]), {"input": t})
            continue
        if t["kind"] == "valid":
            n_valid += 1
        what = None
        if t["panic"]:
            what = ("panic", "the reader / writer panicked: %s" % t["msg"][:160])
        elif t["spin"]:
            what = ("non-termination", "an iterator does not terminate: %s" % t["msg"][:160])
        elif t["kind"] == "valid" and not t["writer_ok"]:
            what = ("writer", "the writer's bytes differ from the reference encoding")
        elif t["ref_ok"] and not t["real_ok"]:
            what = ("rejects-wellformed", "the reader fails on an input the reference grammar accepts: %s" % t["msg"][:120])
        elif t["ref_ok"] and not t["roundtrip"]:
            what = ("roundtrip", "re-encoding the decoded element does not reproduce its bytes")
        elif t.get("cmp"):
            c = t["cmp"][0]
            kind = "tlv_iter" if c.startswith("tlv_iter") else "bytes_iter" if "bytes_iter" in c else "to_tlv" if "to_tlv" in c else "cb-writer" if "_cb" in c or "cb writer" in c else "accessor"
            what = (kind, "an accessor disagrees with the reference tree: %s" % "; ".join(t["cmp"])[:300])
        if what:
            lead = t["bytes"][0] if t["bytes"] else -1
            ck.violation("C16|%s|%s|type%d" % (what[0], t["kind"], lead % 32 if lead >= 0 else -1), what[1] + " on input " + json.dumps(t["bytes"][:40]), {"input": t})
    n_mut = sum(len(v["muts"]) for v in vals)
    n_mut_ok = sum(1 for v in vals for m in v["muts"] if m["ok"])
    ck.cov.update({
        "states": distinct + idist, "transitions": gen + igen, "traces_validated_against_impl": summ["inputs"], "exhaustive": True,
        "value_trees": len(vals), "integer_values": len(ints), "integer_entry_point_cases": summ.get("int_cases"), "mutated_inputs": n_mut, "mutated_inputs_wellformed_per_reference": n_mut_ok,
        "real": summ, "design_invariant": "RoundTrip: Parse(Bytes(e)) = e for every tree (checked by TLC)",
        "samples": [{"bytes": vals[0]["bytes"], "tree": vals[0]["tree"]}, {"bytes": vals[-1]["bytes"], "mutations": vals[-1]["muts"][:4]}],
    })
    ck.assumptions += ["values come from a palette (extremes per width, length classes), not all 2^64 values; the derived ToTLV/FromTLV encoders of wire structures are exercised by the full-stack checks",
                       "a Display implementation returning fmt::Error on malformed input counts as an error value, not as a panic"]
    return ck.finish()
