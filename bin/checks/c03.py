"""C03 - secured messages are accepted only if authentic for that session and direction.

The reference receiver is a TLA+ operator (Packet.tla: Accept) over abstract datagrams; TLC enumerates session mode x
message shape x payload length class x mutation class, checks AcceptOnlyAuthentic on the reference and prints each case
with its verdicts. For every case the harness captures genuine datagrams produced by the real encoder of node A
(sessions planted with distinct keys and ids in both directions), builds the concrete mutant (bit flips in each header
field / ciphertext / tag, truncation, extension, header transplant, re-addressing to another session, reflection,
another source node in the nonce, replay), injects it into the real receive path, and observes what the receiving
application gets and whether the targeted session's snapshot (counters, receive window, exchanges, key fingerprints)
changed; then the genuine datagrams must still be delivered intact. One extra case per mode / shape flips every single
bit of a genuine datagram.  Group sessions: the device has a real fabric with one group key set mapped to two groups; the
reference additionally covers the source node id and the destination group id of the header (flipped, transplanted to
the other group, another source identity in the nonce) and a second genuine sender while the first sender's ephemeral
session is still alive - every delivered message must arrive on a session whose peer is the sender it names."""
import json, os
import vlib
from vlib import Check

def run(tier, seed):
    ck = Check("C03", tier, seed)
    wd = ck.wd
    cases, gen, distinct = vlib.tlc_collect("C03", "Packet.tla", "Packet.cfg", workers=4, timeout=900)
    seen, uniq = set(), []
    for c in cases:
        k = json.dumps(c, sort_keys=True)
        if k not in seen:
            seen.add(k); uniq.append(c)
    cases = uniq
    for mode in ("case", "pase"):
        for shape in ("unreliable", "reliable"):
            for ln in ((16,) if tier != "thorough" else (0, 16, 900)):
                cases.append({"mode": mode, "shape": shape, "len": ln, "cls": "allBits", "authentic": False, "deliver": False})
    for ln in ((16,) if tier != "thorough" else (1, 16, 900)):
        cases.append({"mode": "group", "shape": "unreliable", "len": ln, "cls": "allBits", "authentic": False, "deliver": False, "from": 100})
    cpath = os.path.join(wd, "cases.ndjson")
    vlib.write_ndjson(cpath, cases)
    tpath = os.path.join(wd, "trace.ndjson")
    # the harness ends with exit code 3 when the stack does not return from a poll for 20 s after an injection (a livelock
    # inside the code under test); the case is recorded and the remaining cases are run
    tr, hangs, start, summ = [], [], 0, {"cases": 0, "injections": 0}
    while start < len(cases):
        p = vlib.sh([vlib.VH, "c03", "--behaviours", cpath, "--out", tpath, "--from", str(start)], cwd=vlib.ROOT, timeout=3000, check=False)
        tr += vlib.read_ndjson(tpath)
        if p.returncode == 0:
            s1 = json.loads([l for l in p.stdout.strip().splitlines() if l.startswith("{")][-1])
            summ = {"cases": s1["cases"], "injections": summ["injections"] + s1["injections"]}
            break
        if p.returncode != 3 or not os.path.exists(tpath + ".hang"):
            raise vlib.ToolError("harness c03 exited %d:\n%s" % (p.returncode, p.stdout[-3000:]))
        note = json.load(open(tpath + ".hang"))["note"]
        ci, label = note.split(":", 1)
        hangs.append((int(ci), label))
        if len(hangs) >= 3:
            break
        start = int(ci) + 1
    for ci, label in hangs:
        c = cases[ci]
        ck.violation("C03|hang|%s|%s|len%d|%s" % (c["mode"], c["shape"], c["len"], c["cls"]),
                     "after injection %s the receiving stack never returned from its poll (20 s of wall time): the datagram was not rejected" % label, {"case": c, "label": label})
    n_mut = n_gen = 0
    for t in tr:
        c = cases[t["case"]]
        tag = "%s|%s|len%d|%s" % (c["mode"], c["shape"], c["len"], c["cls"])
        if t["ev"] == "Setup":
            raise vlib.ToolError("scenario setup failed for case %s" % json.dumps(c))
        genuine = t["label"].startswith("genuine")
        if genuine:
            n_gen += 1
            if not t["delivered"] or not t["intact"]:
                ck.violation("C03|genuine-not-delivered|" + tag, "a genuine datagram was not delivered intact after the injection (%s)" % t["label"], {"case": c, "real": t})
            elif not t.get("from_ok", True):
                ck.violation("C03|wrong-sender|" + tag, "a genuine datagram was delivered on a session of another peer than its sender", {"case": c, "real": t})
            continue
        n_mut += 1
        if t.get("storm") and t["silent"] and not t["delivered"]:
            raise vlib.ToolError("the stack polls itself for ever after injection %s of case %s, with nothing else observable" % (t["label"], json.dumps(c)))
        expect = c["deliver"] if t["label"] in ("mut", "mut2") else False
        if t["delivered"] != expect:
            ck.violation("C03|%s|%s" % ("delivered-unauthentic" if t["delivered"] else "rejected-authentic", tag),
                         "injection %s: delivered=%s, reference says %s" % (t["label"], t["delivered"], expect), {"case": c, "real": t})
        elif expect and not t.get("from_ok", True):
            ck.violation("C03|wrong-sender|" + tag, "an authentic datagram of node %s was delivered on the session of another peer: %s" % (t.get("from"), json.dumps(t.get("delivered_what"))), {"case": c, "real": t})
        elif not expect and c["cls"] != "replay" and not t["silent"]:
            ck.violation("C03|reject-not-silent|" + tag, "a rejected datagram (%s) changed the targeted session" % t["label"], {"case": c, "real": t})
    if n_mut < 200:
        raise vlib.ToolError("only %d mutated injections happened" % n_mut)
    ck.cov.update({
        "states": distinct, "transitions": gen, "traces_validated_against_impl": len(cases), "exhaustive": True,
        "cases": len(cases), "mutated_injections": n_mut, "genuine_deliveries_checked": n_gen, "real": summ,
        "reference_invariant": "AcceptOnlyAuthentic (checked by TLC on every enumerated case)",
        "samples": [cases[0], cases[5], tr[0], tr[3]],
    })
    ck.assumptions += ["unicast sessions (CASE, PASE) with planted keys; group data messages with one key set mapped to two groups and two senders (group control / MCSP messages are not injected)",
                       "the snapshot compared for RejectIsSilent excludes the last-use timestamp"]
    return ck.finish()
