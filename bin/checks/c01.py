"""C01 - CASE admits only holders of a valid NOC of the addressed fabric.

1. Case.tla is the CASE handshake at design level with a symbolic (Dolev-Yao) attacker who is the network, is a member
   of another fabric of the responder, knows the IPK of the attacked fabric and (second configuration) even holds a
   genuine NOC of it: TLC checks RespAuth, InitAuth and KeyAgreement exhaustively, and - sensitivity - that leaving out
   the root check, the fabric-id check, the chain-signature check or the peer-node-id check each lets TLC find an attack.
   (The chain validity rules themselves are decided by C19 on the very function CASE calls.)
2. The handshake world (real device = CaseResponder behind the default responder, real CaseInitiators) runs: full
   handshakes and resumptions on two fabrics, an initiator of a fabric the device does not know, one with the right
   certificates but a wrong IPK, one addressing another node id; every handshake message of both flows (Sigma1, Sigma2,
   Sigma3, final status; Sigma1-with-resumption, Sigma2_Resume, status) altered at every payload byte position (quick:
   a stride) by a one-bit and a multi-bit mask; every message lost (the peer's answers cut after the k-th) or held back
   long enough to be retransmitted and duplicated.
3. TLC validates the traces against Layer P (CaseProp.tla): a device session for initiator i only for a legitimate,
   untampered handshake and bound to the addressed fabric, the NOC's node id and its CATs; an initiator session only
   likewise and with the device's node id; whenever both ends hold the session of one attempt their directional key
   fingerprints are crossed-equal."""
import json, os
import vlib
from vlib import Check

CFG = {"op": "Config", "fabric": True, "second_fabric": True}

def baseline():
    return [[CFG, {"op": "Case", "i": 1}, {"op": "Settle"}, {"op": "Case", "i": 1}, {"op": "Settle"}, {"op": "Case", "i": 3}, {"op": "Settle"}, {"op": "Case", "i": 3}, {"op": "Settle"}, {"op": "Case", "i": 2}, {"op": "Settle"}],
            [dict(CFG, foreign2=True), {"op": "Case", "i": 2}, {"op": "Settle"}, {"op": "Case", "i": 1}, {"op": "Settle"}, {"op": "Case", "i": 2}, {"op": "Settle"}],
            [dict(CFG, wrong_ipk2=True), {"op": "Case", "i": 2}, {"op": "Settle"}, {"op": "Case", "i": 3}, {"op": "Settle"}],
            # an initiator whose NOC has expired before the device's last known good time (a NotBefore in the future is not
            # judged without a synchronised clock, see CertChain.tla)
            [dict(CFG, validity2="expired"), {"op": "Case", "i": 2}, {"op": "Settle"}, {"op": "Case", "i": 1}, {"op": "Settle"}, {"op": "Case", "i": 2}, {"op": "Settle"}],
            # an ordinary member presents a NOC it signed itself (for the administrator's node id) with its genuine NOC in the
            # ICAC position: not a chain of CA certificates
            [dict(CFG, validity2="forged"), {"op": "Case", "i": 2}, {"op": "Settle"}, {"op": "Case", "i": 1}, {"op": "Settle"}, {"op": "Case", "i": 2}, {"op": "Settle"}],
            [CFG, {"op": "Case", "i": 1, "peer": 0x2999}, {"op": "Settle"}, {"op": "Case", "i": 3, "peer": 0x2000}, {"op": "Settle"}, {"op": "Case", "i": 1, "peer": 0x2007}, {"op": "Settle"}, {"op": "Case", "i": 1}, {"op": "Settle"}]]

def run(tier, seed):
    ck = Check("C01", tier, seed)
    wd = ck.wd
    quick = tier != "thorough"
    mcs = []
    for cfg in ("MCCase.cfg", "MCCaseInsider.cfg"):
        mc = vlib.tlc_mc("C01", "Case.tla", cfg, workers=4, timeout=600, tag=cfg)
        if not mc["ok"]:
            raise vlib.ToolError("Case.tla / %s violates its invariants (%s):\n%s" % (cfg, mc["violated"], mc["out_tail"]))
        mcs.append(mc)
    sens = {}
    for bug in ("noRootCheck", "noFabricIdCheck", "noChainSigCheck", "noNodeIdCheck"):
        r = vlib.tlc_mc("C01", "Case.tla", "MCCase_%s.cfg" % bug, workers=2, timeout=600, tag=bug)
        if r["ok"]:
            raise vlib.ToolError("Case.tla with the check '%s' left out satisfies every invariant" % bug)
        sens[bug] = r["violated"]
    # message lengths of both flows, from an untouched run
    b0 = os.path.join(wd, "b0.ndjson"); t0 = os.path.join(wd, "t0.ndjson")
    vlib.write_ndjson(b0, baseline()[:1])
    vlib.harness(["c02", "--behaviours", b0, "--out", t0], timeout=600)
    plen = {}
    for e in vlib.read_ndjson(t0):
        if e.get("ev") == "Hs" and e["opcode"] in (0x30, 0x31, 0x32, 0x33, 0x40):
            plen.setdefault((e["opcode"], e["src"] == 0), []).append(e["plen"])
    L = {k: max(v) for k, v in plen.items()}
    if (0x31, True) not in L or (0x33, True) not in L:
        raise vlib.ToolError("the untouched run did not show both flows: %s" % L)
    beh = baseline()
    stride = 6 if quick else 1
    def positions(n):
        ps = set(range(0, n, stride)) | set(range(0, min(n, 10))) | set(range(max(0, n - 10), n))
        return sorted(ps)
    masks = (0x01, 0xA5) if not quick else (0x01,)
    n_sweep = 0
    # full flow: a fresh initiator; resumption flow: a successful handshake first
    full = [(True, 1, L[(0x30, False)]), (False, 1, L[(0x31, True)]), (True, 2, L[(0x32, False)]), (False, 2, 8)]
    resume = [(True, 1, max(plen[(0x30, False)])), (False, 1, L[(0x33, True)]), (True, 2, 8)]
    for i in (1, 3):
        for (to_dev, nth, n) in full:
            for pos in positions(n):
                for m in masks:
                    if i == 3 and pos % (3 * stride) != 0:
                        continue
                    beh.append([CFG, {"op": "Case", "i": i, "garble": [to_dev, nth, pos, m]}, {"op": "Settle"}, {"op": "Case", "i": i}, {"op": "Settle"}])
                    n_sweep += 1
        for (to_dev, nth, n) in resume:
            for pos in positions(n):
                for m in masks:
                    if i == 3 and pos % (3 * stride) != 0:
                        continue
                    beh.append([CFG, {"op": "Case", "i": i}, {"op": "Settle"}, {"op": "Case", "i": i, "garble": [to_dev, nth, pos, m]}, {"op": "Settle"}, {"op": "Case", "i": i}, {"op": "Settle"}])
                    n_sweep += 1
    # loss, delay, duplication
    n_net = 0
    for i in (1, 3):
        for pre in ([], [{"op": "Case", "i": i}, {"op": "Settle"}]):
            for k in (0, 1, 2):
                beh.append([CFG] + pre + [{"op": "Case", "i": i, "cut": k}, {"op": "Settle"}, {"op": "Wait", "ms": 70000}, {"op": "Case", "i": i}, {"op": "Settle"}]); n_net += 1
            for (to_dev, nth) in ((True, 1), (False, 1), (True, 2), (False, 2)):
                for ms in (500, 1500, 4000) if not quick else (500, 1500):
                    beh.append([CFG] + pre + [{"op": "Case", "i": i, "hold": [to_dev, nth, ms]}, {"op": "Settle"}, {"op": "Wait", "ms": 3000}, {"op": "Case", "i": i}, {"op": "Settle"}]); n_net += 1
    bpath = os.path.join(wd, "behaviours.ndjson")
    vlib.write_ndjson(bpath, beh)
    tpath = os.path.join(wd, "trace.ndjson")
    summ = vlib.harness(["c02", "--behaviours", bpath, "--out", tpath], timeout=6000)
    states, n_runs, rej = vlib.validate_runs("C01", "CaseTrace.tla", "CaseTrace.cfg", tpath)
    for r in rej:
        e = r["event"]
        starts = [x for x in r["run"][:r["at"]] if x.get("ev") == "Start" and x.get("i") == e.get("i")]
        a = starts[-1] if starts else {}
        sig = "C01|%s|member=%s|peer=%s|g=%s%s" % (e.get("ev"), a.get("member"), a.get("peer_ok"), a.get("g_dir"), a.get("g_nth"))
        ck.violation(sig, "real CASE: event %s (no. %d of its run) is not allowed by Layer P; attempt: %s" % (json.dumps(e)[:300], r["at"], json.dumps(a)),
                     {"first_rejected": {"index": r["at"], "event": e}, "schedule": beh[r["run_index"]] if r["run_index"] < len(beh) else None, "run": [x for x in r["run"] if x.get("ev") not in ("Win",)][:120]})
    ev = vlib.read_ndjson(tpath)
    bad = {r["run_index"] for r in rej}
    runs = [run for ri, run in enumerate(vlib.split_runs(ev)) if ri not in bad]
    ev2 = [dict(e) for e in runs[0]]
    k = next(i for i, e in enumerate(ev2) if e.get("ev") == "Start")
    ev2[k]["member"] = False
    cpath = os.path.join(wd, "trace_corrupt.ndjson")
    vlib.write_ndjson(cpath, ev2)
    r2 = vlib.tlc_trace("C01", "CaseTrace.tla", "CaseTrace.cfg", cpath, tag="selftest")
    if r2["accepted"]:
        raise vlib.ToolError("binding self-test failed: a session for a non-member was accepted")
    ck.cov.update({
        "states": sum(m["distinct"] for m in mcs) + states, "transitions": sum(m["generated"] for m in mcs), "traces_validated_against_impl": n_runs, "exhaustive": False,
        "design_model_runs": [{k2: m[k2] for k2 in ("cfg", "generated", "distinct", "depth", "wall_s")} for m in mcs], "design_models_exhaustive": True,
        "model_sensitivity": sens,
        "message_payload_lengths": {("%s%s" % (hex(k[0]), "<-dev" if k[1] else "->dev")): v for k, v in L.items()},
        "schedules": {"baseline": len(baseline()), "mutation_sweep": n_sweep, "loss_delay_duplication": n_net, "stride": stride, "masks": list(masks)},
        "replay": summ,
        "trace_validation": {"spec": "CaseTrace.tla (Layer P = CaseProp.tla)", "events": len(ev), "states": states, "rejected_runs": len(rej),
                             "device_sessions": sum(1 for e in ev if e.get("ev") == "DevSess" and e.get("mode") == "case" and e.get("what") == "added" and not e.get("reserved")),
                             "initiator_sessions": sum(1 for e in ev if e.get("ev") == "IniSess"), "resumptions": sum(1 for e in ev if e.get("ev") == "Hs" and e.get("opcode") == 0x33),
                             "attempts": sum(1 for e in ev if e.get("ev") == "Start")},
        "binding_selftest": {"rejected_at": r2.get("rejected_at"), "ok": True},
        "samples": [beh[len(baseline())], [e for e in ev[:40] if e.get("ev") not in ("Hs", "Win")][:10]],
    })
    ck.assumptions += ["invalid certificate chains (signature, issuer link, fabric id, validity, CA flags, key usage, path length, self-signed ICAC ...) are decided by C19 on sc::case's own validation function; here the non-member initiators are a complete foreign fabric and a wrong IPK",
                       "keys are compared through the fingerprints of the snapshot hook; the peer session id a tampered Sigma2_Resume may carry is not part of 'the same session' (fabric, node id, CATs, keys are)",
                       "the symbolic model has no resumption; resumption is covered on the real code only"]
    return ck.finish()
