"""Shared pipeline of C07 / C08 / C11 (the administrative life cycle of a node).

1. TLC checks Life.tla (two administrators with their own root CAs, two fabric slots, PASE / fail-safe / CSR / root /
   AddNOC / CSRRequest-for-update / UpdateNOC / label write / CommissioningComplete / RemoveFabric / fail-safe expiry by timer and by ArmFailSafe(0) /
   lazily persisted resumption cache / power cut and start-up from the store) exhaustively up to 13 operations in its
   repaired variant against NoOldSessionOnNewFabric, NoOldResumptionOnNewFabric (C07), NeverStuck, RollbackRestores
   (C08), CommittedSurvives (C11); sensitivity: the variant transcribed from the code as it was found must violate them.
2. TLC-simulated behaviours of the model plus harness-made histories are replayed full stack: a restartable device
   (root endpoint with the real system clusters, InteractionModel, default responder, recording key-value store) and two
   administrators (real Matter stacks, rs-matter's Commissioner and typed cluster clients) on the simulated network.
3. TLC validates the recorded Op / State traces against Layer P (LifeProp.tla with Which = the property)."""
import json, os, random
import vlib
from vlib import Check

def C(c, cmd, via="case", **kw):
    d = {"op": "Cmd", "c": c, "via": via, "cmd": cmd}
    d.update(kw)
    return d

def made(pid=None):
    s = []
    com = lambda c, complete=True: {"op": "Commission", "c": c, "complete": complete}
    rd = lambda c, fresh=True: {"op": "Read", "c": c, "fresh": fresh}
    w = lambda ms: {"op": "Wait", "ms": ms}
    # committed writes and restarts
    s.append([com(1), rd(1), C(1, "label"), w(5000), {"op": "Restart"}, rd(1), C(1, "label"), {"op": "Restart"}, rd(1)])
    s.append([com(1), com(2), C(2, "label"), C(1, "label"), w(3000), {"op": "Restart"}, rd(1), rd(2), C(2, "remove", idx=1), w(3000), {"op": "Restart"}, rd(2), rd(1)])
    # rollback of an uncompleted commissioning, the index is reused by another administrator
    s.append([com(1, False), rd(1), w(61000), com(2), rd(1, False), rd(2), rd(1)])
    s.append([com(1, False), rd(1), C(1, "arm0", via="case"), com(2), rd(1, False), rd(2)])
    s.append([com(1), com(2, False), rd(2), w(61000), rd(2, False), rd(1), com(2), rd(2)])
    # removal by the other administrator, by oneself, then re-commissioning
    s.append([com(1), com(2), rd(1), rd(2), C(2, "remove", idx=1), rd(1, False), rd(2, False), rd(1), com(1), rd(1), rd(2, False)])
    s.append([com(1), com(2), C(1, "remove", idx=1), rd(2, False), rd(1), com(1), rd(1), rd(2, False)])
    # a fabric with several operational sessions is removed (all of them must go), the index is re-used
    case = lambda c: {"op": "Case", "c": c}
    s.append([com(1), com(2), rd(2), case(2), C(1, "remove", idx=2), rd(2, False), com(2), rd(2, False), rd(2), rd(1)])
    s.append([com(1), case(1), case(1), com(2), case(2), rd(1), rd(2), C(2, "remove", idx=1), rd(1, False), com(1), rd(1, False), rd(1), rd(2)])
    s.append([com(1), com(2), case(2), case(1), case(2), case(2), C(2, "remove", idx=2), rd(2, False), rd(1, False), com(2), rd(2, False), rd(2)])
    s.append([com(1), com(2), case(2), case(2), C(2, "arm"), C(1, "remove", idx=2), w(70000), rd(1), com(2), rd(2)])
    s.append([com(1), case(1), com(2, False), case(2), case(2), w(61000), rd(2, False), rd(1), com(2), rd(2)])
    # a committed write of one administrator while the other one's fail-safe is armed (rolled back / completed)
    s.append([com(1), com(2), C(2, "arm"), C(1, "label"), w(70000), {"op": "Restart"}, rd(1), rd(2)])
    s.append([com(1), com(2), C(2, "arm"), C(1, "label"), C(2, "complete"), w(3000), {"op": "Restart"}, rd(1)])
    s.append([com(1), {"op": "Pase", "c": 2}, C(2, "csr", via="pase"), C(1, "label"), w(70000), {"op": "Restart"}, rd(1)])
    # a root certificate staged in one fail-safe context is not there in the next one
    s.append([{"op": "Pase", "c": 1}, C(1, "root", via="pase"), w(61000), {"op": "Pase", "c": 1}, C(1, "csr", via="pase"), C(1, "noc", via="pase"), w(61000), com(2), rd(2)])
    s.append([{"op": "Pase", "c": 1}, C(1, "csr", via="pase"), C(1, "root", via="pase"), C(1, "arm0", via="pase"), {"op": "Pase", "c": 1}, C(1, "csr", via="pase"), C(1, "noc", via="pase"), C(1, "root", via="pase"), C(1, "noc", via="pase"), w(61000)])
    s.append([com(1), C(1, "arm"), C(1, "root"), C(1, "arm0"), {"op": "Pase", "c": 2}, C(2, "csr", via="pase"), C(2, "noc", via="pase"), w(61000), rd(1)])
    # administrators replaced again and again (fabric indices beyond the table size), then a factory reset
    s.append([com(1), com(2), C(2, "remove", idx=1), com(1), C(1, "remove", idx=2), com(2), C(2, "remove", idx=3), com(1), C(1, "remove", idx=4), com(2), C(2, "remove", idx=5),
              rd(2), {"op": "Restart"}, rd(2), {"op": "FactoryReset"}, rd(2, False), com(1), rd(1)])
    s.append([com(1), com(2), C(1, "label"), w(3000), {"op": "FactoryReset"}, rd(1, False), rd(2, False), com(2), rd(2), {"op": "Restart"}, rd(2)])
    # fail-safe armed by one administrator, touched by the other
    s.append([com(1), com(2), C(1, "arm"), C(2, "arm0"), C(1, "complete"), C(1, "arm"), C(2, "arm"), C(1, "arm0"), rd(1), rd(2)])
    # the armed-for fabric disappears before the expiry
    s.append([com(1), com(2), C(1, "arm"), C(1, "remove", idx=1), rd(2), w(70000), rd(2), w(5000), rd(2)])
    s.append([com(1), com(2), C(1, "arm"), C(2, "remove", idx=1), rd(2), w(70000), rd(2)])
    # command order over PASE
    for order in (["csr", "root", "noc"], ["root", "csr", "noc"], ["noc", "csr", "root", "noc", "noc"], ["csr", "csr", "root", "root", "noc"], ["root", "noc", "csr", "noc"], ["arm", "csr", "root", "noc", "csr"]):
        s.append([{"op": "Pase", "c": 1}] + [C(1, x, via="pase") for x in order] + [w(61000), com(2), rd(2)])
    # a second administrator's PASE session while the first one's fail-safe is armed
    s.append([{"op": "Pase", "c": 1}, C(1, "csr", via="pase"), {"op": "Pase", "c": 2}, C(2, "root", via="pase"), C(2, "csr", via="pase"), C(1, "root", via="pase"), C(1, "noc", via="pase"), C(2, "noc", via="pase"), w(61000)])
    # label written under an armed fail-safe, rolled back / committed
    s.append([com(1), C(1, "arm"), C(1, "label"), w(61000), {"op": "Restart"}, rd(1)])
    s.append([com(1), C(1, "arm"), C(1, "label"), C(1, "complete"), w(3000), {"op": "Restart"}, rd(1)])
    # power cut right after an operation (before the lazy writers run), damaged resumption cache
    s.append([com(1), rd(1), {"op": "Restart"}, rd(1), w(3000), {"op": "CorruptResum"}, {"op": "Restart"}, rd(1), {"op": "CorruptResum", "cut": 30}, {"op": "Restart"}, rd(1)])
    s.append([com(1), com(2), w(3000), C(2, "remove", idx=1), {"op": "Restart"}, rd(2), rd(1), com(1), rd(1)])
    # a removed fabric's resumption record is still in the store at the power cut; the index is re-used
    s.append([com(1), rd(1), w(3000), C(1, "remove", idx=1), {"op": "Restart"}, com(2), rd(2), rd(1), rd(1, False)])
    s.append([com(1), rd(1), w(3000), {"op": "Restart"}, C(1, "remove", idx=1), {"op": "Restart"}, com(2), rd(1), rd(2)])
    # UpdateNOC: a new operational certificate under the fail-safe - rolled back by the timer, by ArmFailSafe(0), by a power
    # cut; committed; out of order; mixed with the commands that add a fabric; from another administrator
    upd = [C(1, "arm"), C(1, "csru"), C(1, "unoc")]
    s.append([com(1)] + upd + [w(61000), rd(1), {"op": "Restart"}, rd(1)])
    s.append([com(1)] + upd + [C(1, "arm0"), rd(1), {"op": "Restart"}, rd(1)])
    s.append([com(1)] + upd + [{"op": "Restart"}, rd(1), w(3000), {"op": "Restart"}, rd(1)])
    s.append([com(1)] + upd + [C(1, "complete"), w(3000), rd(1), {"op": "Restart"}, rd(1)] + upd + [w(61000), rd(1)])
    s.append([com(1)] + upd + [C(1, "label"), C(1, "complete"), w(3000), {"op": "Restart"}, rd(1)])
    s.append([com(1), com(2)] + upd + [C(2, "label"), rd(2), w(61000), rd(1), rd(2), {"op": "Restart"}, rd(1), rd(2)])
    for order in (["unoc"], ["csr", "unoc"], ["csru", "root", "unoc"], ["csru", "unoc", "unoc"], ["csru", "csru", "unoc"], ["csru", "csr", "root", "noc"],
                  ["csr", "csru", "root", "noc"], ["root", "csru", "unoc"], ["csru", "unoc", "csr", "root", "noc"]):
        s.append([com(1), C(1, "arm")] + [C(1, x) for x in order] + [w(61000), rd(1)])
    s.append([com(1), {"op": "Pase", "c": 2}, C(2, "csru", via="pase"), C(2, "unoc", via="pase"), C(2, "csr", via="pase"), w(61000), rd(1)])
    s.append([com(1), com(2), C(1, "arm"), C(2, "csru"), C(1, "csru"), C(2, "unoc"), C(1, "unoc"), C(2, "complete"), C(1, "complete"), w(3000), {"op": "Restart"}, rd(1), rd(2)])
    s.append([com(1), com(2), C(1, "arm"), C(1, "csru"), C(1, "unoc"), C(2, "remove", idx=1), w(70000), rd(2), rd(1)])
    # RevokeCommissioning by the other administrator rolls an uncompleted commissioning back (its sessions and resumption
    # records go with it); the index is re-used
    s.append([com(1), com(2, False), rd(2), C(1, "revoke"), rd(2, False), com(2), rd(2), rd(1), rd(2, False)])
    s.append([com(1), com(2, False), rd(2), case(2), w(3000), C(1, "revoke"), {"op": "Restart"}, com(2), rd(2), rd(1)])
    s.append([com(1), C(1, "arm"), C(1, "label"), C(1, "revoke"), rd(1), {"op": "Restart"}, rd(1)])
    s.append([com(1), com(2), C(2, "arm"), C(2, "csru"), C(2, "unoc"), C(1, "revoke"), rd(2), rd(1)])
    s.append([com(1), com(2, False), rd(2), C(1, "revoke"), rd(1, False), rd(2, False), rd(1)])
    # ... revoked by the commissioner itself; the index goes to the other administrator, the old one comes back
    s.append([com(2, False), rd(2), C(2, "revoke"), com(1), rd(2, False), rd(1), rd(2)])
    s.append([com(2, False), rd(2), w(3000), C(2, "revoke"), w(3000), {"op": "Restart"}, com(1), rd(1), rd(2, False)])
    # the overdue fail-safe is noticed while a request of the OTHER administrator is handled (the per-request check runs
    # before the 1 s tick): requests every 100 ms around the deadline
    for lead in (59000, 59300, 59650):
        s.append([com(1), rd(1), com(2, False), w(lead)] + [x for _ in range(14) for x in (rd(1, False), w(100))] + [rd(1, False), rd(2, False), rd(1)])
    # every history once more with administrators that use different node ids
    s = s + [[{"op": "Config", "ids": "diff"}] + x for x in s]
    # key-value store failures (KvFail: the next mutating store operation returns an error and changes nothing) - decided
    # for C08 and C11 only (DESIGN.md 8.2: what C07 demands after a RemoveFabric that answered Failure is not settled)
    if pid in ("C08", "C11"):
        kf, R, P = {"op": "KvFail", "k": 0}, {"op": "Restart"}, (lambda c: {"op": "Pase", "c": c})
        s.append([com(1), C(1, "arm"), C(1, "label"), kf, C(1, "complete"), rd(1), w(3000), R, rd(1)])          # F-C08e (repaired)
        s.append([com(1), com(2, False), kf, C(2, "complete"), rd(2), w(61000), rd(2), R, rd(2), rd(1)])       # F-C08e (repaired)
        s.append([com(1), com(2), kf, C(1, "remove", idx=2), rd(1), w(3000), R, rd(1), rd(2)])
        s.append([com(1), kf, C(1, "label"), rd(1), w(3000), R, rd(1), C(1, "label"), R, rd(1)])
        s.append([com(1), com(2, False), kf, w(61000), rd(1), rd(2)])
        s.append([com(1), rd(1), kf, w(3000), rd(1), w(3000), R, rd(1)])
        # TLC's counterexample of MCLifeKv at 15 operations (a removal that failed in the store, the index re-used, rollback)
        s.append([com(1), P(1), C(1, "csr", via="pase"), C(1, "root", via="pase"), kf, C(1, "remove", idx=1), C(1, "noc", via="pase"), rd(1), C(1, "revoke"), rd(1, False), rd(1)])
        s.append([com(1), com(2), P(2), C(2, "csr", via="pase"), C(2, "root", via="pase"), kf, C(1, "remove", idx=2), C(2, "noc", via="pase"), rd(2), w(61000), rd(2, False), rd(1)])
    return s

def translate(ops):
    """Model operations -> harness operations (the model's `Read` with fresh = TRUE may need a commissioned fabric)."""
    return ops

def foreign_pase(r):
    """The rejected state follows a credential command over a PASE session of another administrator than the one whose
    PASE session armed the fail-safe (open finding F-C08d)."""
    armed_by, prev_armed, last = None, False, None
    for x in r["run"][:r["at"] - 1]:                 # r["at"] is the 1-based position of the rejected event
        if x.get("ev") == "Op":
            last = x
        elif x.get("ev") == "State":
            a = x["fs"]["armed"]
            if a and not prev_armed and last is not None:
                armed_by = (last.get("c"), last.get("via", "pase") if last.get("op") == "Cmd" else "pase")
            if not a:
                armed_by = None
            prev_armed = a
    return (last is not None and last.get("op") == "Cmd" and last.get("via") == "pase" and armed_by is not None
            and armed_by[1] == "pase" and armed_by[0] != last.get("c") and last.get("cmd") in ("arm", "arm0", "csr", "root", "noc", "csru", "unoc"))

def failed_complete(r):
    """The rejected state follows a CommissioningComplete that answered Failure because its store write failed (KvFail
    injected right before it) and shows the fail-safe idle (F-C08e, repaired: the signature names the regression)."""
    ops = [x for x in r["run"][:r["at"]] if x.get("ev") == "Op"]
    e = r["event"]
    return (len(ops) >= 2 and ops[-1].get("op") == "Cmd" and ops[-1].get("cmd") == "complete" and ops[-1].get("code") == "ERR Failure"
            and ops[-2].get("op") == "KvFail" and e.get("ev") == "State" and not e["fs"]["armed"])

def signature(pid, r):
    e = r["event"]
    if pid == "C08" and e.get("ev") == "State" and failed_complete(r):
        return "C08|CommissioningComplete-with-a-failing-store-disarms-the-fail-safe-and-stores-nothing"
    if pid == "C08" and e.get("ev") == "State" and foreign_pase(r):
        return "C08|credential-command-over-another-PASE-session-accepted-in-the-armed-context"
    if e.get("ev") == "Op":
        return "%s|Op|%s|%s|ok=%s|%s" % (pid, e.get("op"), e.get("cmd", ""), e.get("ok"), e.get("code", ""))
    ops = [x for x in r["run"][:r["at"]] if x.get("ev") == "Op"]
    last = ops[-1] if ops else {}
    return "%s|State|after-%s-%s-%s" % (pid, last.get("op"), last.get("cmd", ""), last.get("code", ""))

def run(pid, tier, seed):
    ck = Check(pid, tier, seed)
    wd = ck.wd
    quick = tier != "thorough"
    mc = vlib.tlc_mc(pid, "Life.tla", "MCLife.cfg", workers=8, timeout=1800)
    if not mc["ok"]:
        raise vlib.ToolError("Life.tla (repaired variant) violates its invariants (%s):\n%s" % (mc["violated"], mc["out_tail"]))
    own = {"C07": ["NoOldSessionOnNewFabric", "NoOldResumptionOnNewFabric"], "C08": ["NeverStuck"], "C11": ["CommittedSurvives"]}[pid]
    sens = {}
    kvmc = None
    if pid in ("C08", "C11"):
        # the same model with store failures injected: the invariants must hold; the variant as found must violate CommittedOrUndone (F-C08e)
        kvmc = vlib.tlc_mc(pid, "Life.tla", "MCLifeKv.cfg", workers=8, timeout=1800, tag="kv")
        if not kvmc["ok"]:
            raise vlib.ToolError("Life.tla with store failures violates its invariants (%s):\n%s" % (kvmc["violated"], kvmc["out_tail"]))
        r = vlib.tlc_mc(pid, "Life.tla", "MCLifeKv_CommittedOrUndone.cfg", workers=4, timeout=900, tag="kv_cou")
        if r["ok"]:
            raise vlib.ToolError("Life.tla transcribed from the code as found, with store failures, does not violate CommittedOrUndone")
        sens["CommittedOrUndone (store failures)"] = r["violated"]
    for inv in own:
        r = vlib.tlc_mc(pid, "Life.tla", "MCLife_orig_%s.cfg" % inv, workers=4, timeout=900, tag="orig_" + inv)
        if r["ok"]:
            raise vlib.ToolError("Life.tla transcribed from the code as found does not violate %s" % inv)
        sens[inv] = r["violated"]
    sim, gen_states = vlib.tlc_sim(pid, "Life.tla", "GenLife.cfg", num=40 if quick else 800, depth=40, seed=seed, timeout=2400)
    sim = [json.loads(x) for x in sorted({json.dumps(b, sort_keys=True) for b in sim})]
    rnd = random.Random(seed)
    if quick:
        sim = rnd.sample(sim, min(120, len(sim)))
    beh = made(pid) + [translate(b) for b in sim] + [[{"op": "Config", "ids": "diff"}] + translate(b) for b in sim[:len(sim) // 3]]
    bpath = os.path.join(wd, "behaviours.ndjson")
    vlib.write_ndjson(bpath, beh)
    tpath = os.path.join(wd, "trace.ndjson")
    summ = vlib.harness(["life", "--behaviours", bpath, "--out", tpath], timeout=6000)
    states, n_runs, rej = vlib.validate_runs(pid, "LifeTrace.tla", "LifeTrace%s.cfg" % pid, tpath)
    for r in rej:
        e = r["event"]
        ops = [x for x in r["run"][:r["at"] + 1] if x.get("ev") == "Op"]
        ck.violation(signature(pid, r), "real node: event no. %d of its run is not allowed by Layer P: %s; operations so far: %s" % (r["at"], json.dumps(e)[:500], json.dumps([[o.get("op"), o.get("c"), o.get("via"), o.get("cmd"), o.get("code")] for o in ops])[:600]),
                     {"first_rejected": {"index": r["at"], "event": e}, "schedule": beh[r["run_index"]] if r["run_index"] < len(beh) else None, "run": r["run"][:150]})
    ev = vlib.read_ndjson(tpath)
    # binding self-test per property
    bad = {r["run_index"] for r in rej}
    runs = [run for ri, run in enumerate(vlib.split_runs(ev)) if ri not in bad]
    def corrupt(run):
        ev2 = [json.loads(json.dumps(e)) for e in run]
        if pid == "C07":
            k = next((i for i, e in enumerate(ev2) if e.get("ev") == "State" and any(s["mode"] == "case" for s in e["sessions"])), None)
            if k is None: return None
            ev2[k]["sessions"][0]["inc"] += 7
        elif pid == "C08":
            k = next((i for i, e in enumerate(ev2) if e.get("ev") == "Op" and e.get("cmd") == "arm" and e.get("code") == "OK"), None)
            if k is None: return None
            ev2[k]["code"] = "BusyWithOtherAdmin"
        else:
            k = next((i for i, e in enumerate(ev2) if e.get("ev") == "State" and e.get("after") == "Restart" and e["fabrics"]), None)
            if k is None: return None
            ev2[k]["fabrics"][0]["label"] = "forged"
        return ev2
    ev2 = next((c for c in (corrupt(r) for r in runs) if c is not None), None)
    if ev2 is None:
        raise vlib.ToolError("no run suitable for the binding self-test")
    cpath = os.path.join(wd, "trace_corrupt.ndjson")
    vlib.write_ndjson(cpath, ev2)
    r2 = vlib.tlc_trace(pid, "LifeTrace.tla", "LifeTrace%s.cfg" % pid, cpath, tag="selftest")
    if r2["accepted"]:
        raise vlib.ToolError("binding self-test failed: a corrupted trace was accepted")
    opsn = [e for e in ev if e.get("ev") == "Op"]
    ck.cov.update({
        "states": mc["distinct"] + states, "transitions": mc["generated"] + gen_states, "traces_validated_against_impl": n_runs, "exhaustive": False,
        "design_model_runs": [{k2: m[k2] for k2 in ("cfg", "generated", "distinct", "depth", "wall_s")} for m in (mc, kvmc) if m], "design_models_exhaustive": True,
        "model_sensitivity": sens,
        "generator": {"simulated": len(sim), "harness_made": len(made(pid))},
        "replay": summ,
        "trace_validation": {"spec": "LifeTrace.tla (Layer P = LifeProp.tla, Which = %s)" % pid, "events": len(ev), "states": states, "rejected_runs": len(rej),
                             "operations": len(opsn), "commissionings": sum(1 for o in opsn if o["op"] == "Commission"), "restarts": sum(1 for o in opsn if o["op"] == "Restart"),
                             "commands": sum(1 for o in opsn if o["op"] == "Cmd"), "reads": sum(1 for o in opsn if o["op"] == "Read")},
        "binding_selftest": {"rejected_at": r2.get("rejected_at"), "ok": True},
        "samples": [beh[2], [e for e in ev[:12] if e.get("ev") == "Op"]],
    })
    ck.assumptions += ["the 'fabric data' written outside / inside a fail-safe is represented by UpdateFabricLabel; ACL, group and network writes go through the same persistence path (ACL writes are additionally exercised by C06)",
                       "network credentials: the device uses the Ethernet root endpoint (no network commissioning cluster state to roll back)",
                       "key-value store failures: C08 and C11 inject one failing store operation right before CommissioningComplete, RemoveFabric, UpdateFabricLabel, the fail-safe expiry and the lazy resumption writer (8 histories; Life.tla with StoreFaults = TRUE explores every placement up to 11 operations); C07 does not inject them; power cuts: the store is cut back to a prefix of its operation log"]
    return ck.finish()
