"""C09 - reliable messaging delivers each message at most once and reports the truth.

1. TLC checks exhaustively (one request/response round, 2 retransmissions, up to 8 adversary deliveries, arbitrary loss
   and duplication) that the MRP state machine transcribed from mrp.rs / exchange.rs / session.rs / transport.rs (Mrp.tla)
   satisfies SuccessIsTrue, AtMostOnceInOrder, RetransIdentical, Budget.
2. Adversary schedules - TLC simulations of the same machine with the real budget and two rounds, plus every schedule
   with up to two faults (drop / duplicate) among the first datagrams - are replayed on two real Matter stacks with a
   planted CASE session and two applications; application events and the wire tap are recorded under the virtual clock.
3. TLC validates the traces against Layer P (MrpProp.tla: AtMostOnceInOrder, SuccessIsTrue, truthful and timely failure,
   Completeness, BackoffRespected, DupIsReAcked, and the C15 rules on the same tap)."""
import json, os, itertools
import vlib
from vlib import Check

def signature(r):
    e = r["event"]
    return "C09|%s|%s" % (e.get("ev"), e.get("code", e.get("n", "")))

def auto_schedules(quick):
    n = 10 if quick else 14
    sch = [[{"op": "Auto", "drop": [], "dup": []}]]
    for i in range(1, n + 1):
        sch.append([{"op": "Auto", "drop": [i], "dup": []}])
        sch.append([{"op": "Auto", "drop": [], "dup": [i]}])
    for i, j in itertools.combinations(range(1, n + 1), 2):
        sch.append([{"op": "Auto", "drop": [i, j], "dup": []}])
        sch.append([{"op": "Auto", "drop": [i], "dup": [j]}])
        sch.append([{"op": "Auto", "drop": [j], "dup": [i]}])
    if not quick:
        for i, j, k in itertools.combinations(range(1, 11), 3):
            sch.append([{"op": "Auto", "drop": [i, j, k], "dup": []}])
    # the single TX buffer occupied by a slow network send while the back-off of the sender fires, with the
    # acknowledgement held back in the network until then (Mrp.tla: Timeout with busy / SendComplete / RetransGo)
    for node in (0, 1):
        for call in ((1, 2) if quick else (1, 2, 3)):
            for slow_ms in ((500, 700, 1000, 1500) if quick else (500, 700, 1000, 1500, 2500)):
                for held in ((2, 3, 4) if quick else (1, 2, 3, 4, 5, 6)):
                    for delay_ms in ((500, 900) if quick else (300, 500, 700, 900, 1200, 2000)):
                        sch.append([{"op": "Auto", "drop": [], "dup": [], "slow": [[node, call, slow_ms]], "delay": [[held, delay_ms]]}])
                        sch.append([{"op": "Auto", "drop": [held - 1] if held > 1 else [], "dup": [], "slow": [[node, call, slow_ms]], "delay": [[held, delay_ms]]}])
    # stray first messages of handshakes reach the requesting node while its message waits for an acknowledgement that
    # the network loses once or twice: its session table is full, so each stray evicts an idle session with another
    # peer - which is none of the business of the message in flight and of its back-off
    for lost in ([2], [2, 3], [1], [4], [3, 5], [2, 4, 6]):
        for times in ([50], [100, 200, 500], [400, 800, 1300, 2000], [20, 40, 60, 80, 100, 120]) if not quick else ([100, 200, 500], [400, 1300], [20, 40, 60, 80]):
            sch.append([{"op": "Auto", "drop": lost, "dup": [], "closes": [[0, t] for t in times]}])
    # sessions whose message counters start just below the top of the range the first counter is drawn from (2^28): new
    # messages keep counting up across it
    for c0 in (0x0ffffffd, 0x0ffffffe, 0x0fffffff, 0x0ffffff0):
        sch.append([{"op": "Config", "ctr0": c0}, {"op": "Auto", "drop": [], "dup": []}])
        sch.append([{"op": "Config", "ctr0": c0}, {"op": "Auto", "drop": [2], "dup": [3]}])
        sch.append([{"op": "Config", "ctr0": c0}, {"op": "Auto", "drop": [1, 4], "dup": []}])
    # the TX buffer of a node is busy with another exchange's message (a slow network send) when the back-off of its
    # reliable message expires, and the acknowledgement arrives while the sender is queued for the buffer
    for node, held in ((0, 4), (1, 3)):
        for at in ((300, 355) if quick else (250, 300, 340, 355, 362)):
            for slow_ms in ((700,) if quick else (400, 700, 1500)):
                for delay_ms in ((600,) if quick else (450, 600, 900)):
                    sch.append([{"op": "Auto", "drop": [], "dup": [], "slow": [[node, 2 if node == 0 else 1, slow_ms]], "delay": [[held, delay_ms]], "second": [node, at]}])
    # the session under test is a PASE session (the reliability layer does not depend on the session kind)
    for f in ({"drop": [], "dup": []}, {"drop": [1], "dup": []}, {"drop": [2], "dup": [3]}, {"drop": [3, 4], "dup": []}, {"drop": [], "dup": [1, 2]}, {"drop": [2, 5], "dup": [6]}):
        sch.append([{"op": "Config", "mode": "pase"}, dict({"op": "Auto"}, **f)])
    return sch

def handshake_stage(ck, quick):
    """C15 on the session-establishment messages: every handshake message of PASE, CASE and CASE resumption lost once or
    twice (so that it is retransmitted) or answered late; TLC validates that equal counters mean equal bytes."""
    wd = ck.wd
    cfg = {"op": "Config", "fabric": True}
    beh = []
    for n_lost in (1, 2):
        for (to_dev, nth) in ((True, 1), (False, 1), (True, 2), (False, 2), (True, 3), (False, 3)):
            beh.append([cfg, {"op": "Open", "timeout": 900}, {"op": "Pase", "i": 1, "drop_first": [to_dev, nth, n_lost]}, {"op": "Settle"}])
            if nth <= 2:
                beh.append([cfg, {"op": "Case", "i": 1, "drop_first": [to_dev, nth, n_lost]}, {"op": "Settle"}])
                beh.append([cfg, {"op": "Case", "i": 2}, {"op": "Settle"}, {"op": "Case", "i": 2, "drop_first": [to_dev, nth, n_lost]}, {"op": "Settle"}])
    for (to_dev, nth) in ((True, 1), (False, 1), (True, 2), (False, 2), (True, 3), (False, 3)):
        for ms in (500, 1200):
            beh.append([cfg, {"op": "Open", "timeout": 900}, {"op": "Pase", "i": 1, "hold": [to_dev, nth, ms]}, {"op": "Settle"}])
            if nth <= 2:
                beh.append([cfg, {"op": "Case", "i": 1, "hold": [to_dev, nth, ms]}, {"op": "Settle"}, {"op": "Case", "i": 1, "hold": [to_dev, nth, ms]}, {"op": "Settle"}])
    bpath = os.path.join(wd, "hs_behaviours.ndjson")
    vlib.write_ndjson(bpath, beh)
    tpath = os.path.join(wd, "hs_trace.ndjson")
    summ = vlib.harness(["c02", "--behaviours", bpath, "--out", tpath], timeout=3000)
    states, n_runs, rej = vlib.validate_runs("C15", "HsWireTrace.tla", "HsWireTrace.cfg", tpath)
    names = {0x20: "PBKDFParamRequest", 0x21: "PBKDFParamResponse", 0x22: "Pake1", 0x23: "Pake2", 0x24: "Pake3", 0x30: "Sigma1", 0x31: "Sigma2", 0x32: "Sigma3", 0x33: "Sigma2Resume", 0x40: "StatusReport"}
    for r in rej:
        e = r["event"]
        ck.violation("C15|handshake-retransmission-differs|%s" % names.get(e.get("opcode"), e.get("opcode")),
                     "a retransmitted %s (counter %s, node %s) is not identical to its first transmission" % (names.get(e.get("opcode"), e.get("opcode")), e.get("ctr"), e.get("src")),
                     {"first_rejected": {"index": r["at"], "event": e}, "schedule": beh[r["run_index"]] if r["run_index"] < len(beh) else None, "run": [x for x in r["run"] if x.get("ev") in ("Hs", "Start", "IniEnd")][:80]})
    ev = vlib.read_ndjson(tpath)
    hs = [e for e in ev if e.get("ev") == "Hs"]
    keyed = {}
    for e in hs:
        keyed.setdefault((e.get("seq", 0) // 10**9, e["src"], e["dst"], e["ctr"]), 0)
    n_retx = len(hs) - len({(json.dumps([e["src"], e["dst"], e["ctr"], e["bytes"]])) for e in hs})
    ck.cov["handshake_wire"] = {"schedules": len(beh), "runs": n_runs, "handshake_datagrams": len(hs), "retransmitted_copies": n_retx, "rejected_runs": len(rej),
                                "handshakes_completed": sum(1 for e in ev if e.get("ev") == "IniEnd" and e.get("ok")), "handshakes_failed": sum(1 for e in ev if e.get("ev") == "IniEnd" and not e.get("ok")),
                                "spec": "HsWireTrace.tla", "states": states, "replay": summ}

def run(tier, seed, pid="C09", extra=()):
    ck = Check(pid, tier, seed)
    wd = ck.wd
    quick = tier != "thorough"
    mc = vlib.tlc_mc(pid, "Mrp.tla", "MCMrp.cfg" if quick else "MCMrpDeep.cfg", workers=8 if quick else 14, timeout=3000)
    if not mc["ok"]:
        raise vlib.ToolError("Mrp violates its invariants (%s):\n%s" % (mc["violated"], mc["out_tail"]))
    # sensitivity of the model: without the re-check after queueing for the TX buffer TLC must find a violation
    sens = vlib.tlc_mc(pid, "Mrp.tla", "MCMrp_norecheck.cfg", workers=4, timeout=600)
    if sens["ok"]:
        raise vlib.ToolError("the model without the TX-buffer re-check satisfies every invariant: the TX-buffer part of Mrp.tla is vacuous")
    ck.cov["model_sensitivity"] = {"cfg": "MCMrp_norecheck.cfg", "violated": sens["violated"]}
    num = 300 if quick else 6000
    beh, gen_states = vlib.tlc_sim(pid, "Mrp.tla", "GenMrp.cfg", num=num, depth=120, seed=seed, timeout=2400)
    uniq, seen = [], set()
    for b in beh:
        k = json.dumps(b, sort_keys=True)
        if k not in seen:
            seen.add(k); uniq.append(b)
    beh = auto_schedules(quick) + uniq
    bpath = os.path.join(wd, "behaviours.ndjson")
    vlib.write_ndjson(bpath, beh)
    tpath = os.path.join(wd, "trace.ndjson")
    summ = vlib.harness(["c09", "--behaviours", bpath, "--out", tpath] + list(extra), timeout=3000)
    # one Layer P, two judges: C09 is held to the reliability rules, C15 to the nonce rules only
    tcfg = "MrpTrace.cfg" if pid == "C09" else "MrpTraceC15.cfg"
    states, n_runs, rej = vlib.validate_runs(pid, "MrpTrace.tla", tcfg, tpath)
    for r in rej:
        bi = r["run"][0].get("run", 0)
        if not isinstance(bi, int):          # the identifier sweep ("ids") is not a behaviour of the list
            ck.violation("%s|%s|%s" % (pid, r["event"].get("ev"), r["event"].get("kind", bi)), "identifier sweep: event %s (no. %d) is not allowed by Layer P" % (json.dumps(r["event"])[:300], r["at"]),
                         {"first_rejected": {"index": r["at"], "event": r["event"]}, "run": r["run"][:40]})
            continue
        ck.violation(signature(r).replace("C09", pid), "real MRP: event %s (no. %d of its run) is not allowed by Layer P" % (json.dumps(r["event"]), r["at"]),
                     {"behaviour": beh[r["run"][0].get("run", 0)] if r["run"][0].get("run", 0) < len(beh) else None,
                      "first_rejected": {"index": r["at"], "event": r["event"]}, "run": r["run"][:120]})
    ev = vlib.read_ndjson(tpath)
    # binding self-test: claim success for a message that was never delivered / flip a retransmission's bytes
    bad = {r["run_index"] for r in rej}
    good = [e for ri, run in enumerate(vlib.split_runs(ev)) if ri not in bad for e in run]
    if pid == "C09":
        k = next(i for i, e in enumerate(good) if e.get("ev") == "AppRecv" and i > 5)
        ev2 = [dict(e) for e in good[:k + 30]]
        ev2.insert(k + 1, dict(ev2[k]))      # the application receives the same message twice
    else:
        k = next(i for i, e in enumerate(good) if e.get("ev") == "Tx" and i > 5)
        ev2 = [dict(e) for e in good[:k + 30]]
        ev2.insert(k + 1, dict(ev2[k], bytes=ev2[k]["bytes"] + 100000, t=ev2[k]["t"] + 5000))      # the same counter with other bytes
    cpath = os.path.join(wd, "trace_corrupt.ndjson")
    vlib.write_ndjson(cpath, ev2)
    r2 = vlib.tlc_trace(pid, "MrpTrace.tla", tcfg, cpath, tag="selftest")
    if r2["accepted"] or r2.get("rejected_at") != k + 2:
        raise vlib.ToolError("binding self-test failed: %s" % r2)
    n_tx = sum(1 for e in ev if e.get("ev") == "Tx")
    n_retx = n_tx - len({(e["run"] if "run" in e else 0, e.get("n"), e.get("ctr")) for e in ev if e.get("ev") == "Tx"})
    ck.cov.update({
        "states": mc["distinct"] + states, "transitions": mc["generated"] + gen_states,
        "traces_validated_against_impl": n_runs, "exhaustive": False,
        "design_model_runs": [{k2: mc[k2] for k2 in ("cfg", "generated", "distinct", "depth", "wall_s")}],
        "design_models_exhaustive": True,
        "generator": {"tlc_simulated": len(uniq), "fault_schedules_up_to_2_faults": len(beh) - len(uniq)},
        "conformance": {k2: summ[k2] for k2 in ("steps", "matched_steps", "ends")},
        "trace_validation": {"spec": "MrpTrace.tla (Layer P = MrpProp.tla, %s)" % tcfg, "events": len(ev), "states": states, "rejected_runs": len(rej),
                             "datagrams": n_tx, "send_results": sum(1 for e in ev if e.get("ev") in ("SendOk", "SendErr")),
                             "timeouts": sum(1 for e in ev if e.get("ev") == "SendErr")},
        "binding_selftest": {"what": "duplicated AppRecv" if pid == "C09" else "a second datagram with the same counter and other bytes", "corrupted_at": k + 2, "rejected_at": r2.get("rejected_at"), "ok": True},
        "samples": [beh[1], uniq[0][:10] if uniq else None, ev[:12]],
    })
    if summ.get("ids"):
        ck.cov["id_allocation"] = summ["ids"]
        ck.cov["id_allocation"]["alloc_events_validated"] = sum(1 for e in ev if e.get("ev") == "Alloc")
    if pid == "C15":
        handshake_stage(ck, quick)
    ck.assumptions += ["planted CASE session (and, for a handful of schedules, a PASE session; zero keys), one exchange, two request/response rounds, network latency 1 ms per delivery, virtual clock",
                       "a dropped datagram's counter is black-holed (all its retransmissions are lost), as in the model"]
    return ck.finish()
