"""C20 - unfinished or hostile handshakes cannot leak or exhaust node resources for good.

1. TLC checks exhaustively (table of 4 slots, one of them a session with a permanently live exchange, 3 initiators whose
   handshake messages are handled one at a time in every interleaving, proofs that verify or not, handler cancellation,
   time passing) that the slot bookkeeping transcribed from transport/session.rs, transport.rs and the PASE / CASE
   responders (Slots.tla) never evicts a session with a live exchange, never exceeds the table, and - with no handshake
   in progress - has nothing reserved, no exchange open, and room (or an evictable idle session) for a new handshake.
2. TLC-simulated schedules of the same model at the real table size (16 slots, 12-14 of them sessions with a live
   exchange, so that 2-4 are available) plus harness-made ones (initiators that stop after every handshake message,
   concurrently; garbage first messages of every kind; cancelled handlers; wrong passcodes) are replayed in the
   handshake world (real device with the full stack, real initiators), followed by 70 s of silence, a legitimate probe
   handshake (retried up to three times), and another 70 s of silence.
3. TLC validates the recorded traces against Layer P (SlotsProp.tla): the probe succeeds, and at the end nothing is
   reserved, no exchange slot is occupied, the PASE marker is free, every leftover session is idle, and every session
   that carried a live exchange is still there; a legitimate attempt is served or refused with an answer (Busy), never
   left to time out.  A handshake needs two slots (the unsecured session it arrives on and the secure session it
   reserves): the probe must succeed whenever at least two slots are free or hold idle sessions.
4. Rendezvous.tla models the single-slot mDNS resolve / browse rendezvous (callers queue for the slot, place a request
   under a drop guard, time out or are cancelled; the responder picks the request and deposits an answer); TLC checks
   NoWedge exhaustively and emits every interleaving of two callers and the responder up to 7 operations; each is
   replayed on the real Transport (futures polled step by step), the results are validated by TLC against the model's
   actions, and every run ends with a fresh lookup that must be served."""
import json, os, random
import vlib
from vlib import Check

def wrap(ops, busy, idle=0, expired=0, stall=0):
    pre = [{"op": "Wait", "ms": 14000 * expired}] if expired else []
    return [{"op": "Config", "fill_busy": busy, "fill_idle": idle, "fill_expired": expired, "fabric": True, "stall_ms": stall}, {"op": "Open", "timeout": 900}] + pre + ops + \
           [{"op": "Wait", "ms": 70000}, {"op": "Probe", "i": 3, "tries": 3, "gap_ms": 2000}, {"op": "Wait", "ms": 70000}]

def made(quick):
    s = []
    for busy in ((13, 14) if quick else (12, 13, 14, 15)):
        # everybody stops after the k-th device answer, at the same time
        for k in (0, 1, 2):
            s.append(wrap([{"op": "Pase", "i": 1, "pass": "ok", "cut": k}, {"op": "Pase", "i": 2, "pass": "ok", "cut": (k + 1) % 3}, {"op": "Pase", "i": 3, "pass": "bad", "cut": k}], busy))
        # a stream of garbage first messages of every kind, from two addresses
        g = []
        for r in range(6 if quick else 12):
            for kind in ("pbkdf", "sigma1", "pake1", "sigma3", "status", "random"):
                g.append({"op": "Garbage", "i": 1 + r % 2, "kind": kind})
            g.append({"op": "Wait", "ms": 300})
        s.append(wrap(g, busy))
        # first messages that ask for no acknowledgement; stand-alone acknowledgements arriving late, for exchanges the
        # device has closed already
        g = []
        for r in range(4 if quick else 10):
            for kind in ("pbkdf", "sigma1", "pake1", "status"):
                g.append({"op": "Garbage", "i": 1 + r % 2, "kind": kind, "rel": r % 2 == 1})
                g.append({"op": "Wait", "ms": 150 if r % 2 else 20})
                g.append({"op": "Garbage", "i": 1 + r % 2, "kind": "late_ack"})
            g.append({"op": "Wait", "ms": 400})
        s.append(wrap(g, busy))
        # the application side of the device is stalled for a few seconds: first messages of every kind, with and
        # without the reliability flag, are only seen by the transport and time out waiting to be accepted
        g = []
        for r in range(3 if quick else 8):
            for kind in ("pbkdf", "sigma1", "pake1", "status"):
                g.append({"op": "Garbage", "i": 1 + r % 2, "kind": kind, "rel": r % 2 == 0})
            g.append({"op": "Wait", "ms": 700})
        s.append(wrap(g + [{"op": "Wait", "ms": 3000}], busy, stall=4000))
        s.append(wrap([{"op": "Pase", "i": 1, "pass": "ok"}, {"op": "Garbage", "i": 2, "kind": "pbkdf", "rel": False}, {"op": "Garbage", "i": 2, "kind": "sigma1", "rel": False}, {"op": "Wait", "ms": 5000}, {"op": "Settle"}], busy, stall=2500))
        # handlers cancelled after each handshake message
        for steps in (1, 2):
            s.append(wrap([{"op": "Pase", "i": 1, "pass": "ok", "locked": True}] + [{"op": "Step", "i": 1}] * steps + [{"op": "Cancel"}, {"op": "Step", "i": 1}, {"op": "Pase", "i": 2, "pass": "ok"}, {"op": "Settle"}], busy))
        # complete handshakes, wrong passcodes, and retries in quick succession
        s.append(wrap([{"op": "Pase", "i": 1, "pass": "ok"}, {"op": "Pase", "i": 2, "pass": "bad"}, {"op": "Settle"}, {"op": "Pase", "i": 2, "pass": "ok"}, {"op": "Pase", "i": 1, "pass": "bad"}, {"op": "Settle"},
                       {"op": "Garbage", "i": 3, "kind": "pbkdf"}, {"op": "Pase", "i": 3, "pass": "ok", "cut": 2}, {"op": "Wait", "ms": 500}, {"op": "Pase", "i": 1, "pass": "ok"}, {"op": "Settle"}], busy))
    # sessions whose peer stopped acknowledging (expired) but that still carry a live exchange, in a full table
    for busy, idle, exp in ((13, 3, 2), (14, 2, 1), (12, 4, 2)):
        s.append(wrap([], busy, idle, exp))
        s.append(wrap([{"op": "Pase", "i": 1, "pass": "ok", "cut": 2}, {"op": "Pase", "i": 2, "pass": "ok"}, {"op": "Settle"}], busy, idle, exp))
    # the table completely full, some of it idle sessions: busy or evict, then the retry gets in
    for busy, idle in ((13, 3), (14, 2), (15, 1), (10, 6)):
        s.append(wrap([], busy, idle))
        s.append(wrap([{"op": "Pase", "i": 1, "pass": "ok", "cut": 1}, {"op": "Pase", "i": 2, "pass": "bad"}, {"op": "Garbage", "i": 2, "kind": "sigma1"}], busy, idle))
    return s

def run(tier, seed):
    ck = Check("C20", tier, seed)
    wd = ck.wd
    quick = tier != "thorough"
    mc = vlib.tlc_mc("C20", "Slots.tla", "MCSlots.cfg", workers=8, timeout=1800)
    if not mc["ok"]:
        raise vlib.ToolError("Slots.tla violates its invariants (%s):\n%s" % (mc["violated"], mc["out_tail"]))
    beh = made(quick)
    n_made = len(beh)
    gen_states = 0
    rnd = random.Random(seed)
    for cfg, busy in (("GenSlots.cfg", 13), ("GenSlots14.cfg", 14)) + ((("GenSlots12.cfg", 12),) if not quick else ()):
        sim, g = vlib.tlc_sim("C20", "Slots.tla", cfg, num=30 if quick else 400, depth=40, seed=seed, timeout=2400, tag=cfg)
        gen_states += g
        sim = [json.loads(x) for x in sorted({json.dumps(b, sort_keys=True) for b in sim})]
        if quick:
            sim = rnd.sample(sim, min(60, len(sim)))
        beh += [wrap(b, busy) for b in sim]
    bpath = os.path.join(wd, "behaviours.ndjson")
    vlib.write_ndjson(bpath, beh)
    tpath = os.path.join(wd, "trace.ndjson")
    summ = vlib.harness(["c02", "--behaviours", bpath, "--out", tpath], timeout=6000)
    states, n_runs, rej = vlib.validate_runs("C20", "SlotsTrace.tla", "SlotsTrace.cfg", tpath)
    for r in rej:
        e = r["event"]
        sig = "C20|%s|%s" % (e.get("ev"), "probe-failed" if e.get("ev") == "ProbeEnd" else "legitimate-attempt-left-to-time-out-%s" % e.get("code") if e.get("ev") == "IniEnd" else "res%s-exch%s-marker%s-idle%s-busy%s/%s" % (e.get("n_reserved"), e.get("n_exch"), e.get("marker"), e.get("left_idle"), e.get("busy_fillers_alive"), e.get("busy_fillers")))
        ck.violation(sig, "real device: event %s (no. %d of its run) is not allowed by Layer P" % (json.dumps(e)[:400], r["at"]),
                     {"first_rejected": {"index": r["at"], "event": e}, "run": [x for x in r["run"] if x.get("ev") != "Hs"][:200], "schedule": beh[r["run_index"]] if r["run_index"] < len(beh) else None})
    # ---- the mDNS resolve / browse rendezvous: every interleaving of two callers and the responder up to 7 operations ----
    rvb, rg, rd = vlib.tlc_collect("C20", "Rendezvous.tla", "MCRendezvous.cfg", workers=4, timeout=900)
    rvb = [json.loads(x) for x in sorted({json.dumps(b, sort_keys=True) for b in rvb})]
    if len(rvb) < 5000:
        raise vlib.ToolError("rendezvous generator produced only %d behaviours" % len(rvb))
    rbpath = os.path.join(wd, "rv_behaviours.ndjson")
    vlib.write_ndjson(rbpath, rvb)
    rtpath = os.path.join(wd, "rv_trace.ndjson")
    rsumm = vlib.harness(["c20rv", "--behaviours", rbpath, "--out", rtpath], timeout=3000)
    rstates, rruns, rrej = vlib.validate_runs("C20", "RendezvousTrace.tla", "RendezvousTrace.cfg", rtpath)
    for r in rrej:
        e = r["event"]
        if e.get("ev") == "Probe":
            ck.violation("C20|rendezvous|%s-not-served" % r["run"][0].get("kind"), "after the callers of the %s rendezvous were cancelled / timed out, a fresh lookup is not served: %s; operations: %s" % (r["run"][0].get("kind"), json.dumps(e), json.dumps(r["run"][1:12])),
                         {"first_rejected": {"index": r["at"], "event": e}, "run": r["run"][:40]})
        else:
            ck.violation("C20|rendezvous|%s-%s" % (r["run"][0].get("kind"), e.get("ev")), "the real %s rendezvous does not follow Rendezvous.tla at %s" % (r["run"][0].get("kind"), json.dumps(e)),
                         {"first_rejected": {"index": r["at"], "event": e}, "run": r["run"][:40]})
    ck.cov["rendezvous"] = {"model": "Rendezvous.tla / MCRendezvous.cfg (NoWedge, exhaustive)", "behaviours": len(rvb), "runs_on_real_transport": rsumm["runs"], "operations": rsumm["ops"],
                            "trace_validation": "RendezvousTrace.tla: every operation and the real futures' results against the model's actions, plus a fresh lookup at the end of every run", "states": rstates, "rejected_runs": len(rrej)}
    ev = vlib.read_ndjson(tpath)
    # binding self-test: a reserved slot left behind must be rejected
    bad = {r["run_index"] for r in rej}
    runs = [run for ri, run in enumerate(vlib.split_runs(ev)) if ri not in bad]
    ev2 = [dict(e) for e in runs[0]]
    ev2[-1]["n_reserved"] = 1
    cpath = os.path.join(wd, "trace_corrupt.ndjson")
    vlib.write_ndjson(cpath, ev2)
    r2 = vlib.tlc_trace("C20", "SlotsTrace.tla", "SlotsTrace.cfg", cpath, tag="selftest")
    if r2["accepted"]:
        raise vlib.ToolError("binding self-test failed: a leaked reserved slot was accepted")
    probes = [e for e in ev if e.get("ev") == "ProbeEnd"]
    ck.cov.update({
        "states": mc["distinct"] + states, "transitions": mc["generated"] + gen_states, "traces_validated_against_impl": n_runs, "exhaustive": False,
        "design_model_runs": [{k2: mc[k2] for k2 in ("cfg", "generated", "distinct", "depth", "wall_s")}], "design_models_exhaustive": True,
        "generator": {"simulated": len(beh) - n_made, "harness_made": n_made, "free_slots_of_16": "2-4"},
        "replay": summ,
        "trace_validation": {"spec": "SlotsTrace.tla (Layer P = SlotsProp.tla)", "events": len(ev), "states": states, "rejected_runs": len(rej),
                             "probes": len(probes), "probes_ok_first_try": sum(1 for p in probes if p["ok"] and p["tries"] == 1), "probes_ok_after_retry": sum(1 for p in probes if p["ok"] and p["tries"] > 1),
                             "attempts": sum(1 for e in ev if e.get("ev") == "Start"), "garbage": sum(1 for e in ev if e.get("ev") == "Garbage"), "cancellations": sum(1 for e in ev if e.get("ev") == "Cancel")},
        "binding_selftest": {"rejected_at": r2.get("rejected_at"), "ok": True},
        "samples": [beh[0], [e for e in ev[:60] if e.get("ev") not in ("Hs", "DevSess")][:12]],
    })
    ck.assumptions += ["'free again' is read as: not reserved, no exchange, and evictable on demand - an idle unsecured session lingering in the table until it is evicted counts as free (the probe with a tight table checks that it really is reclaimed)",
                       "the PASE establishment marker left behind by a cancelled handler is released by its 60 s expiry; the probe starts 70 s after the last disturbance",
                       "table sizes: the default 16-slot table with 12-15 sessions pinned by a live exchange (the smallest-configuration builds max-sessions-3.. are a cargo feature of the dependency and are not built)",
                       "the mDNS resolve / browse rendezvous is driven through the public API (Exchange::resolve_operational_addrs, Transport::browse_commissionable, wait_mdns_X_request, try_deposit_mdns_X) with futures polled step by step"]
    return ck.finish()
