"""BDX - beyond the listed properties: the Bulk Data Exchange streaming engine (bdx/read.rs, bdx/write.rs).

1. TLC checks Bdx.tla exhaustively (file lengths 0..7 units x block sizes 1..3 x sender / receiver drive): what the reader
   got is always a prefix of the file and the whole file at the end, one block in flight, consecutive counters, the
   BlockEof last, no failure, and - under weak fairness - termination.
2. Spec -> implementation: the protocol is deterministic, so every finished model behaviour carries the complete message
   history.  Every scenario is run on two real stacks (unit = 100 bytes) in every assignment of roles that realises its
   drive mode - real initiator and real responder, or one real end against a hand-written peer that proposes / selects
   that drive mode - and the real message history (kinds, counters, sizes) must equal the model's.
3. Harness-made scenarios (sizes around the block size, start offsets, application chunk sizes from 1 byte to more than
   the file, small staging buffers, lost datagrams, a peer deviating once at every position with a wrong block counter
   or an unexpected message) are validated by TLC against BdxTrace.tla (Layer P)."""
import json, os
import vlib
from vlib import Check

KIND = {16: "Query", 17: "Block", 18: "Eof", 19: "Ack", 20: "AckEof"}
U = 100

def configs(drive):
    c = []
    if drive == "R":
        c.append({"kind": "download", "ini": "real", "rsp": "real"})
    else:
        c.append({"kind": "upload", "ini": "real", "rsp": "real"})
    for kind in ("download", "upload"):
        c.append({"kind": kind, "ini": "raw", "rsp": "real", "drive": drive})
        c.append({"kind": kind, "ini": "real", "rsp": "raw", "drive": drive})
    return c

def made():
    out = []
    for kind in ("download", "upload"):
        for n in (0, 1, 255, 256, 257, 512, 1023, 1024, 1025, 2048, 5000):
            out.append({"kind": kind, "len": n, "buf": 256, "chunk": 300, "ini": "real", "rsp": "real"})
            out.append({"kind": kind, "len": n, "buf": 1024, "chunk": 1, "ini": "real", "rsp": "real"} if n <= 1025 else {"kind": kind, "len": n, "buf": 1024, "chunk": 6000, "ini": "real", "rsp": "real"})
        for off in (1, 999, 1000, 4999, 5000):
            out.append({"kind": kind, "len": 5000, "offset": off, "buf": 512, "chunk": 333, "ini": "real", "rsp": "real"})
        for lose in ([3], [4, 5], [2, 6, 9], [7, 8, 10, 11]):
            out.append({"kind": kind, "len": 3000, "buf": 512, "chunk": 400, "ini": "real", "rsp": "real", "lose": lose})
        for drive in ("S", "R"):
            for who in (("raw", "real"), ("real", "raw")):
                for dev in ("ctr", "op"):
                    for at in (0, 1, 2):
                        out.append({"kind": kind, "len": 1000, "buf": 256, "raw_mbs": 256, "chunk": 100, "ini": who[0], "rsp": who[1], "drive": drive, "dev": "%s@%d" % (dev, at)})
    return out

def run(tier, seed):
    ck = Check("BDX", tier, seed)
    wd = ck.wd
    mc = vlib.tlc_mc("BDX", "Bdx.tla", "MCBdx.cfg", workers=4, timeout=900)
    if not mc["ok"]:
        raise vlib.ToolError("Bdx.tla violates its properties (%s):\n%s" % (mc["violated"], mc["out_tail"]))
    scen, _, _ = vlib.tlc_collect("BDX", "Bdx.tla", "MCBdx.cfg", workers=1, timeout=900, tag="gen")
    uniq = {}
    for s in scen:
        uniq[(s["len"], s["mbs"], s["drive"])] = s
    scen = list(uniq.values())
    runs, expect = [], []
    for s in scen:
        for c in configs(s["drive"]):
            r = dict(c)
            r.update({"len": s["len"] * U, "buf": s["mbs"] * U, "raw_mbs": s["mbs"] * U, "chunk": 7 + 13 * (s["len"] % 5) * (1 + s["mbs"])})
            runs.append(r)
            expect.append([(m["k"], m["c"], m["n"] * U) for m in s["wire"]])
    extra = made()
    bpath = os.path.join(wd, "scenarios.ndjson")
    vlib.write_ndjson(bpath, runs + extra)
    tpath = os.path.join(wd, "trace.ndjson")
    summ = vlib.harness(["cbdx", "--behaviours", bpath, "--out", tpath], timeout=3000)
    ev = vlib.read_ndjson(tpath)
    allruns = vlib.split_runs(ev)
    # 2. the real message history equals the model's
    n_cmp = 0
    for ri, want in enumerate(expect):
        got = [(KIND[e["op"]], e["ctr"], e["n"]) for e in allruns[ri] if e.get("ev") == "Wire" and e["op"] in KIND]
        n_cmp += 1
        if got != want:
            ck.violation("BDX|history|%s|%s|%s" % (runs[ri]["kind"], runs[ri]["ini"], runs[ri]["rsp"]),
                         "scenario %s: the real message history %s differs from the model's %s" % (json.dumps(runs[ri]), got[:12], want[:12]),
                         {"scenario": runs[ri], "real": got, "model": want})
    # 3. Layer P on every run
    states, n_runs, rej = vlib.validate_runs("BDX", "BdxTrace.tla", "BdxTrace.cfg", tpath)
    allsc = runs + extra
    for r in rej:
        sc = allsc[r["run_index"]] if r["run_index"] < len(allsc) else None
        ck.violation("BDX|trace|%s|%s" % (r["event"].get("ev"), (sc or {}).get("dev", "")), "scenario %s: event %s (no. %d) is not allowed by BdxTrace" % (json.dumps(sc), json.dumps(r["event"]), r["at"]),
                     {"scenario": sc, "first_rejected": {"index": r["at"], "event": r["event"]}, "run": r["run"][:120]})
    # binding self-test: a block counted twice must be rejected
    pick = next(run for run in allruns if sum(1 for e in run if e.get("ev") == "Wire" and e.get("op") == 17) >= 2)
    k = next(i for i, e in enumerate(pick) if e.get("ev") == "Wire" and e.get("op") == 17)
    ev2 = [dict(e) for e in pick]
    ev2.insert(k + 1, dict(ev2[k]))
    cpath = os.path.join(wd, "trace_corrupt.ndjson")
    vlib.write_ndjson(cpath, ev2)
    r2 = vlib.tlc_trace("BDX", "BdxTrace.tla", "BdxTrace.cfg", cpath, tag="selftest")
    if r2["accepted"]:
        raise vlib.ToolError("binding self-test failed: %s" % r2)
    ck.cov.update({"states": mc["distinct"] + states, "transitions": mc["generated"], "traces_validated_against_impl": n_runs, "exhaustive": False,
                   "design_model_runs": [{k2: mc[k2] for k2 in ("cfg", "generated", "distinct", "depth", "wall_s")}], "design_liveness_checked": ["Terminates"],
                   "model_scenarios": len(scen), "real_runs_compared_with_the_model_history": n_cmp, "harness_made": len(extra), "rejected_runs": len(rej),
                   "binding_selftest": {"rejected_at": r2.get("rejected_at"), "ok": True}, "replay": summ, "samples": [scen[0], ev[:10]]})
    ck.assumptions += ["not one of the listed properties: spec growth (DESIGN.md section 8.6)", "the exchange below BDX is reliable and ordered (MRP, covered by C09)"]
    return ck.finish()
