"""C12 - durable counters never hand out the same value twice, across restarts too.

1. TLC checks exhaustively (ring 32, epoch 3, crashes between any two steps, start boundaries next to the
   wrap) that the three counter machines transcribed from the code (Counters.tla) refine Layer P
   (CountersProp.tla: NoReuse + CoveredBeforeUse).
2. TLC simulation of the same machines generates operation schedules; the harness replays them on the real
   Sessions / Events / Icd objects over a recording key-value store, with real epochs (1000 / 10000 / 3).
3. TLC validates the observed Store / Use / Restart traces against Layer P (CountersTrace.tla)."""
import json, os
import vlib
from vlib import Check

def run(tier, seed):
    ck = Check("C12", tier, seed)
    wd = ck.wd
    quick = tier != "thorough"
    mc = vlib.tlc_mc("C12", "MCCounters.tla", "MCCounters.cfg" if quick else "MCCountersDeep.cfg", workers=4 if quick else 12, timeout=1500)
    if not mc["ok"]:
        raise vlib.ToolError("counter machines do not refine Layer P (%s):\n%s" % (mc["violated"], mc["out_tail"]))
    num = 150 if quick else 3000
    beh, gen_states = vlib.tlc_sim("C12", "MCCounters.tla", "GenCounters.cfg", num=num, depth=30, seed=seed, timeout=1500)
    # the invariant-based emitter prints every successor of the last state: de-duplicate
    uniq, seen = [], set()
    for b in beh:
        k = json.dumps(b, sort_keys=True)
        if k not in seen:
            seen.add(k); uniq.append(b)
    beh = uniq
    if len(beh) < num // 2:
        raise vlib.ToolError("generator produced only %d schedules" % len(beh))
    # Check-In counter: walks across the 32-bit wrap (boundaries within one epoch of the top), restarts after every few steps
    step = [{"op": "SendBatch"}, {"op": "AdvanceCounter"}]
    for start in (31, 29, 27, 24, 20, 17):
        for k in (3, 7, 12, 18):
            beh.append({"kind": "chk", "start": start, "ops": [{"op": "Boot"}, {"op": "PersistCounter"}] + step * k + [{"op": "Crash"}, {"op": "Boot"}, {"op": "PersistCounter"}] + step * 6
                                                            + [{"op": "Crash"}, {"op": "Boot"}, {"op": "PersistCounter"}] + step * 3})
    bpath = os.path.join(wd, "behaviours.ndjson")
    vlib.write_ndjson(bpath, beh)
    tbase = os.path.join(wd, "trace")
    summ = vlib.harness(["c12", "--behaviours", bpath, "--out", tbase])
    states = 0; n_runs = 0; n_rej = 0; samples = []; n_events = 0
    for kind, cfg in (("grp", "CountersTraceGrp.cfg"), ("evt", "CountersTraceEvt.cfg"), ("chk", "CountersTraceChk.cfg")):
        tpath = "%s.%s.ndjson" % (tbase, kind)
        st, nr, rej = vlib.validate_runs("C12", "CountersTrace.tla", cfg, tpath)
        states += st; n_runs += nr; n_rej += len(rej)
        ev = vlib.read_ndjson(tpath)
        n_events += len(ev)
        samples.append(ev[:6])
        for r in rej:
            e = r["event"]
            # signature: which counter, which rule of Layer P can fail for a Use event
            used = [(x["lo"], x["hi"]) for x in r["run"][:r["at"] - 1] if x.get("ev") == "Use"]
            reuse = any(lo <= e.get("lo", -1) <= hi or lo <= e.get("hi", -1) <= hi for lo, hi in used)
            sig = "C12|%s|%s" % (kind, "reuse" if reuse else "uncovered")
            ck.violation(sig, "real %s counter: %s (event %d of its run) is not allowed by Layer P" % (kind, json.dumps(e), r["at"]),
                         {"behaviour_index": r["run"][0].get("run"), "first_rejected": {"index": r["at"], "event": e}, "run": r["run"][:400]})
    # end to end: the model's group-counter behaviours projected onto a real node that sends real group messages
    # through Exchange::initiate_group, is cut off and boots again from the store
    e2e = []
    for b in beh:
        if b.get("kind") != "grp":
            continue
        ops, pending = [], 0
        for o in b["ops"]:
            if o["op"] == "Boot":
                if pending: ops.append({"op": "Send", "n": pending}); pending = 0
                ops.append({"op": "Boot"})
            elif o["op"] == "Crash":
                if pending: ops.append({"op": "Send", "n": pending}); pending = 0
                ops.append({"op": "Crash"})
            elif o["op"] == "Reserve":
                pending += 1
        if pending: ops.append({"op": "Send", "n": pending})
        if any(o["op"] == "Send" for o in ops):
            e2e.append({"start": b["start"], "ops": ops})
    # whole epochs between restarts (the boundary moves), starts next to the wrap
    for start in (-1, 0, 5, 29, 30, 31):
        e2e.append({"start": start, "ops": [{"op": "Boot"}, {"op": "Send", "n": 1003}, {"op": "Crash"}, {"op": "Boot"}, {"op": "Send", "n": 2}, {"op": "Crash"},
                                             {"op": "Boot"}, {"op": "Send", "n": 2100}, {"op": "Crash"}, {"op": "Boot"}, {"op": "Send", "n": 1}]})
    # the reservation that moves the boundary is refused for lack of an exchange slot (the group session's table is held
    # full); the next ones succeed; then a restart
    for start, laps in ((-1, 1), (5, 1), (30, 1), (-1, 2)):
        e2e.append({"start": start, "ops": [{"op": "Boot"}, {"op": "SendToBoundary", "laps": laps}, {"op": "Hold"}, {"op": "Try"}, {"op": "Try"}, {"op": "Release"}, {"op": "Send", "n": 3},
                                             {"op": "Crash"}, {"op": "Boot"}, {"op": "Send", "n": 3}, {"op": "Crash"}, {"op": "Boot"}, {"op": "Send", "n": 1}]})
    epath = os.path.join(wd, "behaviours_e2e.ndjson")
    vlib.write_ndjson(epath, e2e)
    etrace = os.path.join(wd, "trace_e2e.grp.ndjson")
    esumm = vlib.harness(["c12e", "--behaviours", epath, "--out", etrace], timeout=3000)
    st, nr, rej = vlib.validate_runs("C12", "CountersTrace.tla", "CountersTraceGrp.cfg", etrace)
    states += st; n_runs += nr; n_rej += len(rej)
    for r in rej:
        e = r["event"]
        sig = "C12|grp-e2e|%s" % (e.get("ev"))
        ck.violation(sig, "real node sending group messages: %s (event %d of its run) is not allowed by Layer P" % (json.dumps(e), r["at"]),
                     {"behaviour": e2e[r["run_index"]] if r["run_index"] < len(e2e) else None, "first_rejected": {"index": r["at"], "event": e}, "run": r["run"][:400]})
    # binding self-test: re-use a value in the group trace -> must be rejected there
    ev = vlib.read_ndjson(tbase + ".grp.ndjson")
    k = next(i for i, e in enumerate(ev) if e.get("ev") == "Use" and i > 5)
    ev2 = ev[:k + 1] + [dict(ev[k])] + ev[k + 1:k + 50]
    cpath = os.path.join(wd, "trace_corrupt.ndjson")
    vlib.write_ndjson(cpath, ev2)
    r2 = vlib.tlc_trace("C12", "CountersTrace.tla", "CountersTraceGrp.cfg", cpath, tag="selftest")
    if r2["accepted"] or r2.get("rejected_at") != k + 2:
        raise vlib.ToolError("binding self-test failed: duplicated Use at event %d not rejected there (%s)" % (k + 2, r2))
    ck.cov.update({
        "states": mc["distinct"] + states, "transitions": mc["generated"] + gen_states,
        "traces_validated_against_impl": n_runs, "exhaustive": False,
        "design_model_runs": [{k2: mc[k2] for k2 in ("cfg", "generated", "distinct", "depth", "wall_s")}],
        "design_models_exhaustive": True,
        "generator": {"cfg": "GenCounters.cfg", "mode": "tlc -simulate", "schedules": len(beh), "ops_each": 24},
        "replay": summ,
        "end_to_end_group_counter": {"behaviours": len(e2e), "runs": nr, "replay": esumm, "rejected_runs": len(rej)},
        "trace_validation": {"spec": "CountersTrace.tla (Layer P = CountersProp.tla)", "events": n_events, "states": states, "rejected_runs": n_rej,
                             "rings": {"grp": 2 ** 28, "evt": "none (u64)", "chk": "2^32, values translated by +2^20"}},
        "binding_selftest": {"duplicated_use_at": k + 2, "rejected_at": r2.get("rejected_at"), "ok": True},
        "samples": [beh[0]] + samples,
    })
    ck.assumptions += ["group counter: (a) driven on a real Sessions object through the verif wrapper of reserve_global_group_data_ctr with the harness storing the returned boundary where Exchange::initiate_group does (power cuts between reserve, store and use), and (b) end to end through Exchange::initiate_group on a real node sending group messages (power cuts between messages), store and wire observed in their true order",
                       "event numbers through Events::push / load_persist, Check-In counter through the public Icd API with the application protocol its documentation prescribes",
                       "store operations do not fail (store failures are outside the property's quantifier)"]
    return ck.finish()
