"""C08 - see checks/life.py (shared pipeline of the life-cycle properties)."""
from checks import life

def run(tier, seed):
    return life.run("C08", tier, seed)
