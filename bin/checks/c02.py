"""C02 - PASE admits only a peer that knows the passcode, only while a window is open.

1. TLC checks exhaustively (2 initiators that know / do not know the passcode and may garble one of their three messages,
   window open / close by the administrator, ~70 s of time passing, the device handling the initiators' messages one at
   a time in every interleaving, revocation at 3 failures) that the device-side PASE machine transcribed from
   sc/pase/responder.rs and sc/pase.rs (Pase.tla) creates a session only with the window open and only for a proof that
   verifies, counts every failed proof and revokes the window at the limit.  Sensitivity: the same model without the
   window check at Pake3 (the code as it was found, F-C02a) must violate SessionOnlyWhileOpen.
2. Every behaviour of the one-initiator model up to 7 operations (a deterministic sample in the quick tier), TLC
   simulations of the two-initiator model, and harness-made schedules (20 wrong passcodes in a row, expiry of the window
   between Pake1 and Pake3, window closed while Pake3 is in flight, concurrent second initiator) are replayed in the
   handshake world: a real device (full stack) and real initiators (PaseInitiator) on the simulated network, the
   initiators' handshake messages released one by one as the schedule says.
3. TLC validates the recorded traces (window events, attempts, the device's session table as it changes, failure
   counter, what is advertised) against Layer P (PaseProp.tla)."""
import json, os, random
import vlib
from vlib import Check

def made_schedules():
    s = []
    # twenty wrong passcodes: the window is revoked at the twentieth, a right passcode afterwards gets nothing
    ops = [{"op": "Open", "timeout": 900}]
    for k in range(21):
        ops += [{"op": "Pase", "i": 1 + k % 2, "pass": "bad"}, {"op": "Settle"}]
    ops += [{"op": "Pase", "i": 3, "pass": "ok"}, {"op": "Settle"}, {"op": "Open", "timeout": 900}, {"op": "Pase", "i": 3, "pass": "ok"}, {"op": "Settle"}, {"op": "Wait", "ms": 2000}]
    s.append(ops)
    # nineteen wrong ones, then a right one: still admitted; garbled ones count as well
    ops = [{"op": "Open", "timeout": 900}]
    for k in range(19):
        ops += [{"op": "Pase", "i": 1 + k % 2, "pass": "ok" if k % 3 == 0 else "bad", "garble": [True, 3] if k % 3 == 0 else []}, {"op": "Settle"}]
    ops += [{"op": "Pase", "i": 3, "pass": "ok"}, {"op": "Settle"}, {"op": "Pase", "i": 1, "pass": "bad"}, {"op": "Settle"}, {"op": "Pase", "i": 2, "pass": "ok"}, {"op": "Settle"}, {"op": "Wait", "ms": 2000}]
    s.append(ops)
    # the window expires between Pake1 and Pake3 (Pake3 held back in the network)
    for hold in (6000, 9000):
        s.append([{"op": "Open", "timeout": 180}, {"op": "Wait", "ms": 172000}, {"op": "Pase", "i": 1, "pass": "ok", "hold": [True, 3, hold]}, {"op": "Settle"}, {"op": "Wait", "ms": 3000}])
    # the administrator closes the window while Pake3 / Pake1 is in flight
    for n in (2, 3):
        s.append([{"op": "Open", "timeout": 180}, {"op": "Pase", "i": 1, "pass": "ok", "hold": [True, n, 2000]}, {"op": "Wait", "ms": 300}, {"op": "Close"}, {"op": "Settle"}, {"op": "Wait", "ms": 1000}])
        s.append([{"op": "Open", "timeout": 180}, {"op": "Pase", "i": 1, "pass": "ok", "hold": [True, n, 2000]}, {"op": "Wait", "ms": 300}, {"op": "Close"}, {"op": "Open", "timeout": 300}, {"op": "Settle"}, {"op": "Pase", "i": 2, "pass": "ok"}, {"op": "Settle"}])
    # a second initiator while the first one is in the middle; expiry with nobody around; answers lost after the k-th
    for k in (0, 1, 2):
        s.append([{"op": "Open", "timeout": 180}, {"op": "Pase", "i": 1, "pass": "ok", "cut": k}, {"op": "Wait", "ms": 50}, {"op": "Pase", "i": 2, "pass": "ok"}, {"op": "Settle"}, {"op": "Wait", "ms": 65000}, {"op": "Pase", "i": 3, "pass": "ok"}, {"op": "Settle"}])
    s.append([{"op": "Open", "timeout": 180}, {"op": "Wait", "ms": 179500}, {"op": "Wait", "ms": 2500}, {"op": "Pase", "i": 1, "pass": "ok"}, {"op": "Settle"}, {"op": "Open", "timeout": 180}, {"op": "Pase", "i": 2, "pass": "ok"}, {"op": "Settle"}])
    # garbled device answers
    for n in (1, 2, 3):
        s.append([{"op": "Open", "timeout": 900}, {"op": "Pase", "i": 1, "pass": "ok", "garble": [False, n]}, {"op": "Settle"}, {"op": "Wait", "ms": 1000}])
    return s

def interesting(ops):
    """Close / Wait between the second and the third released message of an attempt."""
    steps = [k for k, o in enumerate(ops) if o["op"] == "Step"]
    return len(steps) >= 3 and any(o["op"] in ("Close", "Wait") for o in ops[steps[1]:steps[2]])

def run(tier, seed):
    ck = Check("C02", tier, seed)
    wd = ck.wd
    quick = tier != "thorough"
    mc = vlib.tlc_mc("C02", "Pase.tla", "MCPase.cfg", workers=8, timeout=1800)
    if not mc["ok"]:
        raise vlib.ToolError("Pase.tla (window re-checked at Pake3) violates its invariants (%s):\n%s" % (mc["violated"], mc["out_tail"]))
    sens = vlib.tlc_mc("C02", "Pase.tla", "MCPase_orig.cfg", workers=4, timeout=600, tag="orig")
    if sens["ok"] or "SessionOnlyWhileOpen" not in str(sens["violated"]):
        raise vlib.ToolError("the model without the window check at Pake3 does not violate SessionOnlyWhileOpen: %s" % sens["violated"])
    ex, g1, d1 = vlib.tlc_collect("C02", "Pase.tla", "GenPaseEx.cfg", workers=6, timeout=1800)
    ex = sorted({json.dumps(b, sort_keys=True) for b in ex})
    ex = [json.loads(b) for b in ex]
    if len(ex) < 1000:
        raise vlib.ToolError("exhaustive generator produced only %d behaviours" % len(ex))
    rnd = random.Random(seed)
    if quick:
        hot = [b for b in ex if interesting(b)]
        rest = [b for b in ex if not interesting(b)]
        chosen = rnd.sample(hot, min(120, len(hot))) + rnd.sample(rest, 180)
    else:
        chosen = ex
    # two initiators, exhaustively: all behaviours in which the other initiator's message is handled between the second
    # and the third message of an attempt (quick), plus a sample of the rest (thorough)
    ex2, g2, d2 = vlib.tlc_collect("C02", "Pase.tla", "GenPaseEx2.cfg", workers=6, timeout=1800)
    ex2 = [json.loads(x) for x in sorted({json.dumps(b, sort_keys=True) for b in ex2})]
    def crossed(ops):
        for i in (1, 2):
            st = [k for k, o in enumerate(ops) if o["op"] == "Step" and o["i"] == i]
            if len(st) >= 3 and any(o["op"] == "Step" and o["i"] != i for o in ops[st[1]:st[2]]):
                return True
        return False
    cross = [b for b in ex2 if crossed(b)]
    if len(cross) < 20:
        raise vlib.ToolError("two-initiator generator produced only %d crossing behaviours" % len(cross))
    chosen = chosen + cross + ([] if quick else rnd.sample([b for b in ex2 if not crossed(b)], 3000))
    g1 += g2
    sim, gen_states = vlib.tlc_sim("C02", "Pase.tla", "GenPase.cfg", num=40 if quick else 600, depth=40, seed=seed, timeout=2400)
    sim = [json.loads(x) for x in sorted({json.dumps(b, sort_keys=True) for b in sim})]
    if quick:
        sim = rnd.sample(sim, min(150, len(sim)))
    beh = made_schedules() + chosen + sim
    bpath = os.path.join(wd, "behaviours.ndjson")
    vlib.write_ndjson(bpath, beh)
    tpath = os.path.join(wd, "trace.ndjson")
    summ = vlib.harness(["c02", "--behaviours", bpath, "--out", tpath], timeout=6000)
    states, n_runs, rej = vlib.validate_runs("C02", "PaseTrace.tla", "PaseTrace.cfg", tpath)
    for r in rej:
        e = r["event"]
        sig = "C02|%s|%s" % (e.get("ev"), e.get("mode", e.get("open", "")))
        ck.violation(sig, "real device: event %s (no. %d of its run) is not allowed by Layer P" % (json.dumps(e)[:300], r["at"]),
                     {"first_rejected": {"index": r["at"], "event": e}, "run": r["run"][:200]})
    ev = vlib.read_ndjson(tpath)
    # binding self-test: pretend the initiator of an admitted session did not know the passcode
    bad = {r["run_index"] for r in rej}
    runs = [run for ri, run in enumerate(vlib.split_runs(ev)) if ri not in bad]
    pick = next(r for r in runs if any(e.get("ev") == "DevSess" and e.get("mode") == "pase" for e in r))
    ev2 = [dict(e) for e in pick]
    d = next(i for i, e in enumerate(ev2) if e.get("ev") == "DevSess" and e.get("mode") == "pase")
    k = max(i for i, e in enumerate(ev2[:d]) if e.get("ev") == "Start" and e.get("i") == ev2[d]["i"])
    ev2[k]["pass_ok"] = False
    cpath = os.path.join(wd, "trace_corrupt.ndjson")
    vlib.write_ndjson(cpath, ev2)
    r2 = vlib.tlc_trace("C02", "PaseTrace.tla", "PaseTrace.cfg", cpath, tag="selftest")
    if r2["accepted"]:
        raise vlib.ToolError("binding self-test failed: a session for an initiator without the passcode was accepted")
    n_sess = sum(1 for e in ev if e.get("ev") == "DevSess" and e.get("mode") == "pase" and e.get("what") == "added" and not e.get("reserved"))
    ck.cov.update({
        "states": mc["distinct"] + states, "transitions": mc["generated"] + gen_states + g1, "traces_validated_against_impl": n_runs, "exhaustive": False,
        "design_model_runs": [{k2: mc[k2] for k2 in ("cfg", "generated", "distinct", "depth", "wall_s")}], "design_models_exhaustive": True,
        "model_sensitivity": {"cfg": "MCPase_orig.cfg", "violated": sens["violated"]},
        "generator": {"exhaustive_cfg": "GenPaseEx.cfg", "exhaustive_behaviours": len(ex), "two_initiator_exhaustive_behaviours": len(ex2), "crossing_behaviours_replayed": len(cross), "replayed_of_them": len(chosen), "simulated": len(sim), "harness_made": len(made_schedules())},
        "replay": summ,
        "trace_validation": {"spec": "PaseTrace.tla (Layer P = PaseProp.tla)", "events": len(ev), "states": states, "rejected_runs": len(rej),
                             "pase_sessions_admitted": n_sess, "failed_proofs_presented": sum(1 for e in ev if e.get("ev") == "Proof"),
                             "attempts": sum(1 for e in ev if e.get("ev") == "Start")},
        "binding_selftest": {"rejected_at": r2.get("rejected_at"), "ok": True},
        "samples": [beh[len(made_schedules())], [e for e in ev[:40] if e.get("ev") != "Hs"][:14]],
    })
    ck.assumptions += ["the SPAKE2+ primitive is trusted; 'knows the passcode' is realised as the right / a wrong passcode given to the real PaseInitiator, 'mutated message' as a byte flipped in the TLV payload of one handshake message (every message index, both directions)",
                       "invalid / identity curve points are only reached through garbled Pake1/Pake2 payloads, not constructed on purpose",
                       "a window that is closed and replaced by another one in the middle of a handshake is replayed (same passcode) but a different verifier for the second window is not"]
    return ck.finish()
