"""C06 - every Interaction Model operation is mediated by the access check.

The reference is a TLA+ module (ImAccess.tla, on top of the access-control decision Allow of Acl.tla): for a node
composition (two endpoints, up to two clusters each, attributes readable with View / Admin, writable with Manage / Admin,
possibly timed-only, commands needing Operate / Manage / Admin, possibly timed-only or fabric-scoped), an access-control
list (0-2 entries: privilege x any / this / another node x whole node / endpoint / cluster targets), a requester (CASE
node of the fabric, or a PASE session without fabric) and a request (read / write / invoke of 1-3 concrete, absent or
wildcard paths, timed or not, the TimedRequest flag of the message agreeing with that or not, a write possibly in two
chunks with the second one carrying its own flag and possibly arriving after the timed window), it gives per path the set of elements the request returns or acts on and whether the
path must be answered with a status instead.  TLC draws the vectors and checks the reference's sanity invariant; the
harness builds the same node on a real device with an instrumented handler (logging every read / write / invoke call),
installs the ACL, and runs the real request through ImClient over a planted CASE or PASE session.
Verdict: returned data = expected multiset; handler calls = expected multiset (so a denied or absent element has no
effect on the device and is never read); a concrete path that selects nothing is answered with a non-success status;
a wildcard path never produces a status.
The node composition changing between the items of a long answer is a model of its own (Expand.tla): see expand_stage."""
import json, os, collections, concurrent.futures
import vlib
from vlib import Check

def feature(v):
    r = v["req"]
    wild = any(p["ep"] < 0 or p["cl"] < 0 or p["leaf"] < 0 for p in r["paths"])
    t = ("late" if r.get("late") else "timed") if r["timed"] else "untimed"
    if r["kind"] != "read" and r.get("claim", r["timed"]) != r["timed"]:
        t += "-mismatch"
    if r.get("paths2"):
        t += "+chunk2" + ("-mismatch" if r["claim2"] != r["timed"] else "-late" if r["late2"] else "")
    return "%s|%s|%s|%s|acl%d" % (r["kind"], t, "wild" if wild else "concrete", v["who"]["mode"], len(v["acl"]))

def expand_stage(ck, quick, seed):
    """The node composition changes between the items of a long answer (Expand.tla): TLC checks exhaustively that the
    transcribed path expander satisfies Layer P under up to 3 replacements of the node (and that the variant with a stale
    cluster cursor does not); TLC-simulated answers are replayed on the real expand_read with a node that is swapped
    between pulls; every pull is compared with the model (Layer I) and TLC validates the recorded items against Layer P."""
    wd = ck.wd
    mc = vlib.tlc_mc("C06", "Expand.tla", "MCExpand.cfg", workers=6 if quick else 14, timeout=3000)
    if not mc["ok"]:
        raise vlib.ToolError("Expand.tla violates Layer P (%s):\n%s" % (mc["violated"], mc["out_tail"]))
    sens = vlib.tlc_mc("C06", "Expand.tla", "MCExpand_stale.cfg", workers=4, timeout=600)
    if sens["ok"]:
        raise vlib.ToolError("the stale-cursor variant of Expand.tla satisfies Layer P: the model is vacuous")
    beh, gen = vlib.tlc_sim("C06", "Expand.tla", "GenExpand.cfg", num=1500 if quick else 30000, depth=60, seed=seed, timeout=2400)
    seen, uniq = set(), []
    for b in beh:
        kk = json.dumps(b, sort_keys=True)
        if kk not in seen:
            seen.add(kk); uniq.append(b)
    beh = uniq
    if len(beh) < 500:
        raise vlib.ToolError("Expand generator produced only %d answers" % len(beh))
    bpath = os.path.join(wd, "expand_behaviours.ndjson")
    vlib.write_ndjson(bpath, beh)
    opath, tpath = os.path.join(wd, "expand_out.ndjson"), os.path.join(wd, "expand_trace.ndjson")
    summ = vlib.harness(["c06x", "--behaviours", bpath, "--out", opath, "--trace", tpath], timeout=1200)
    outs = vlib.read_ndjson(opath)
    # Layer P on the real items (a rejected answer is a violation whatever the model says)
    states, n_runs, rej = vlib.validate_runs("C06", "ExpandTrace.tla", "ExpandTrace.cfg", tpath)
    bad = set()
    for r in rej:
        bi = r["run"][0].get("run", 0)
        bad.add(bi)
        ck.violation("C06|expand|%s" % r["event"].get("ev"), "node changing during the answer: real expander event %s (no. %d of its answer) is not allowed by Layer P" % (json.dumps(r["event"]), r["at"]),
                     {"behaviour": beh[bi] if bi < len(beh) else None, "first_rejected": {"index": r["at"], "event": r["event"]}, "run": r["run"][:80]})
    # Layer I: every pull yields what the transcription yields (drift of the model is a tool error, not a violation)
    n_pull = n_change = 0
    for bi, (b, o) in enumerate(zip(beh, outs)):
        if o.get("panic"):
            ck.violation("C06|expand|panic", "the path expander panicked: %s" % o["panic"], {"behaviour": b})
            continue
        exp = [op["out"] for op in b if op["op"] == "Pull"]
        n_pull += len(exp); n_change += sum(1 for op in b if op["op"] == "Change")
        for j, (x, y) in enumerate(zip(exp, o["out"])):
            same = x["kind"] == y["kind"] and (x["kind"] != "item" or (x["e"], x["c"], x["a"]) == (y["e"], y["c"], y["a"])) and (x["kind"] != "status" or x["code"] == y["code"])
            if not same and bi not in bad:
                raise vlib.ToolError("Expand.tla does not describe the code: answer %d, pull %d: model %s, code %s (Layer P accepts the real answer)" % (bi, j, x, y))
            if not same:
                break
    # binding self-test: an item dropped from a recorded answer must be rejected (Complete)
    ev = vlib.read_ndjson(tpath)
    runs = [r for ri, r in enumerate(vlib.split_runs(ev)) if ri not in bad]
    pick = next(r for r in runs if sum(1 for e in r if e["ev"] == "Item") >= 3 and not any(e["ev"] == "Change" for e in r))
    kdrop = next(i for i, e in enumerate(pick) if e["ev"] == "Item")
    cpath = os.path.join(wd, "expand_corrupt.ndjson")
    vlib.write_ndjson(cpath, pick[:kdrop] + pick[kdrop + 1:])
    r2 = vlib.tlc_trace("C06", "ExpandTrace.tla", "ExpandTrace.cfg", cpath, tag="expselftest")
    if r2["accepted"]:
        raise vlib.ToolError("binding self-test failed: an answer with an item dropped was accepted")
    ck.cov["node_changing_during_answer"] = {
        "model": {k2: mc[k2] for k2 in ("cfg", "generated", "distinct", "depth", "wall_s")}, "model_exhaustive": True,
        "model_sensitivity": {"cfg": "MCExpand_stale.cfg", "violated": sens["violated"]},
        "answers_replayed": len(beh), "pulls_compared": n_pull, "node_replacements": n_change, "real": summ,
        "trace_validation": {"spec": "ExpandTrace.tla", "states": states, "runs": n_runs, "rejected": len(rej)},
        "binding_selftest": {"dropped_item_rejected_at": r2.get("rejected_at"), "ok": True},
        "sample": beh[0][:6]}
    return gen + mc["generated"], len(beh)

def run(tier, seed):
    ck = Check("C06", tier, seed)
    wd = ck.wd
    quick = tier != "thorough"
    jobs = 6 if quick else 14
    per = (12, 150) if quick else (120, 200)
    def gen(j):
        return vlib.tlc_sim("C06", "ImAccess.tla", "ImAccess.cfg", num=per[0], depth=per[1], seed=seed * 1000 + j, timeout=3000, tag="gen%d" % j)
    vecs, states = [], 0
    with concurrent.futures.ThreadPoolExecutor(max_workers=jobs) as ex:
        for b, st in ex.map(gen, range(jobs)):
            vecs += b; states += st
    seen, uniq = set(), []
    for v in vecs:
        k = json.dumps(v, sort_keys=True)
        if k not in seen:
            seen.add(k); uniq.append(v)
    vecs = uniq
    if len(vecs) < 2000:
        raise vlib.ToolError("generator produced only %d vectors" % len(vecs))
    vpath = os.path.join(wd, "vectors.ndjson")
    vlib.write_ndjson(vpath, vecs)
    tpath = os.path.join(wd, "trace.ndjson")
    summ = vlib.harness(["c06", "--behaviours", vpath, "--out", tpath], timeout=6000)
    tr = vlib.read_ndjson(tpath)
    feats = collections.Counter()
    n_sel = n_status = 0
    def key(x):
        return (x["ep"], x["cl"] - 100 if x["cl"] >= 100 else x["cl"], x["leaf"])
    for v, t in zip(vecs, tr):
        kind = v["req"]["kind"]
        f = feature(v); feats[f] += 1
        expected = collections.Counter()
        for r in v["results"]:
            for s in r["sel"]:
                expected[tuple(s)] += 1
        n_sel += sum(expected.values())
        what = None
        # a write in two chunks: the second chunk is judged on its own (handler calls after the mark, items of chunk 2),
        # then the first one as any other request
        if v["req"].get("paths2") and not t["error"]:
            mark = next((i for i, h in enumerate(t["handler"]) if h["h"] == "mark"), len(t["handler"]))
            h2 = [h for h in t["handler"][mark + 1:]]
            i2 = [i for i in t["items"] if i.get("chunk") == 2]
            exp2 = collections.Counter(tuple(s) for r in v["results2"] for s in r["sel"])
            calls2 = collections.Counter(key(h) for h in h2 if h["h"] == "write")
            ok2 = collections.Counter(key(i) for i in i2 if i["k"] == "status" and i["status"] == "Success")
            if mark == len(t["handler"]) and not any(i.get("k") == "chunk-status" and i.get("chunk") == 1 for i in t["items"]):
                what = ("chunk2-not-sent", "the second chunk was never sent: %s" % t["items"][:4])
            elif v["refused2"] and (calls2 or ok2):
                what = ("refused-chunk-acted", "the second chunk (flag %s in a %s interaction%s) was acted on: calls %s, success for %s" % (
                    v["req"]["claim2"], "timed" if v["req"]["timed"] else "non-timed", ", after the window" if v["req"]["late2"] else "", sorted(calls2.elements()), sorted(ok2.elements())))
            elif calls2 != exp2 or ok2 != exp2:
                what = ("chunk2-acted-set", "second chunk: handler calls %s, success for %s, reference %s" % (sorted(calls2.elements()), sorted(ok2.elements()), sorted(exp2.elements())))
            elif not v["refused2"]:
                for p, r in zip(v["req"]["paths2"], v["results2"]):
                    conc = (p["ep"], p["cl"], p["leaf"])
                    if r["status"] and not [i for i in i2 if i["k"] == "status" and key(i) == conc and i["status"] != "Success"]:
                        what = ("chunk2-missing-status", "second chunk: the concrete path %s selects nothing but is not answered with a failure status: %s" % (conc, i2[:4]))
            t = dict(t, handler=[h for h in t["handler"][:mark]], items=[i for i in t["items"] if i.get("chunk") in (None, 1) and i.get("k") != "chunk-status"])
        if what:
            pass
        elif v.get("refused", v["req"].get("late")):
            # the flag of the message does not match the interaction, or the timed window had expired when the write / invoke
            # arrived: refused as a whole, nothing acted on
            why = "arrived after its timed window" if v["req"].get("late") else "carries TimedRequest=%s in a %s interaction" % (v["req"].get("claim"), "timed" if v["req"]["timed"] else "non-timed")
            acted = [h for h in t["handler"] if h["h"] != "read"]
            if acted:
                what = ("late-acted" if v["req"].get("late") else "mismatch-acted", "a %s that %s was acted on: %s" % (kind, why, acted[:3]))
            elif not t["error"] and any(i.get("k") == "status" and i.get("status") == "Success" for i in t["items"]):
                what = ("late-accepted" if v["req"].get("late") else "mismatch-accepted", "a %s that %s was answered with success: %s" % (kind, why, t["items"][:3]))
        elif t["error"]:
            what = ("request-failed", "the request as a whole failed: %s" % t["error"])
        else:
            calls = collections.Counter(key(h) for h in t["handler"] if h["h"] == kind)
            other = [h for h in t["handler"] if h["h"] != kind]
            data = collections.Counter(key(i) for i in t["items"] if i["k"] == "data")
            stats = [i for i in t["items"] if i["k"] == "status"]
            if other:
                what = ("foreign-handler-call", "a %s request caused handler calls of another kind: %s" % (kind, other[:3]))
            elif kind == "read":
                if data != expected:
                    what = ("returned-set", "returned data %s, reference %s" % (sorted(data.elements()), sorted(expected.elements())))
                elif set(calls) != set(expected):
                    what = ("handler-reads", "the handler was read for %s, reference %s" % (sorted(calls), sorted(expected)))
            else:
                if calls != expected:
                    what = ("acted-set", "the handler saw %s calls for %s, reference %s" % (kind, sorted(calls.elements()), sorted(expected.elements())))
                else:
                    okst = collections.Counter(key(i) for i in stats if i["status"] == "Success")
                    if kind == "write" and okst != expected:
                        what = ("success-statuses", "success reported for %s, acted on %s" % (sorted(okst.elements()), sorted(expected.elements())))
            if what is None:
                for p, r in zip(v["req"]["paths"], v["results"]):
                    conc = (p["ep"], p["cl"], p["leaf"])
                    if r["status"]:
                        n_status += 1
                        hit = [i for i in stats if key(i) == conc and i["status"] != "Success"]
                        if not hit and not (kind == "invoke" and any(i["k"] == "status" and i["status"] != "Success" for i in t["items"])):
                            what = ("missing-status", "the concrete path %s selects nothing but is not answered with a failure status: %s" % (conc, t["items"][:4]))
                    elif min(conc) < 0 and kind == "read":
                        bad = [i for i in stats if (p["ep"] < 0 or i["ep"] == p["ep"]) and (p["cl"] < 0 or key(i)[1] == p["cl"]) and key(i) not in {(q["ep"], q["cl"], q["leaf"]) for q, rr in zip(v["req"]["paths"], v["results"]) if rr["status"]}]
                        if bad:
                            what = ("wildcard-status", "a wildcard path produced a status: %s" % bad[:2])
        if what:
            ck.violation("C06|%s|%s" % (what[0], f), what[1], {"vector": v, "real": t})
    # binding self-test: an expected element removed from the reference must be noticed
    k = next(i for i, v in enumerate(vecs) if any(r["sel"] for r in v["results"]) and not tr[i]["error"])
    fake = collections.Counter(tuple(s) for r in vecs[k]["results"] for s in r["sel"])
    calls = collections.Counter(key(h) for h in tr[k]["handler"])
    fake[next(iter(fake))] += 1
    if (set(calls) == set(fake)) and sum(fake.values()) == sum(calls.values()):
        raise vlib.ToolError("binding self-test failed")
    xs, xn = expand_stage(ck, quick, seed)
    ck.cov.update({
        "states": states + xs, "transitions": states + xs, "traces_validated_against_impl": len(vecs) + xn, "exhaustive": False,
        "vectors": len(vecs), "elements_expected": n_sel, "status_paths_expected": n_status, "by_feature": dict(feats.most_common(40)),
        "real": summ, "reference_invariant": "ISane (checked by TLC on every drawn vector)",
        "samples": [vecs[0], tr[0]],
    })
    ck.assumptions += ["well-formed requests only (a wildcard cluster goes with a wildcard attribute; writes and invokes name cluster and leaf; one command per invoke)",
                       "events, data-version filters and fabric-sensitive data of other fabrics are not part of the drawn universe",
                       "node changing during an answer: endpoints come and go between two expanded items, the shape of an endpoint is fixed (the invariant im/expand.rs documents); attribute reads by a PASE requester, 10 requests over 4 endpoints of three shapes",
                       ]
    return ck.finish()
