"""C06 - every Interaction Model operation is mediated by the access check.

The reference is a TLA+ module (ImAccess.tla, on top of the access-control decision Allow of Acl.tla): for a node
composition (two endpoints, up to two clusters each, attributes readable with View / Admin, writable with Manage / Admin,
possibly timed-only, commands needing Operate / Manage / Admin, possibly timed-only or fabric-scoped), an access-control
list (0-2 entries: privilege x any / this / another node x whole node / endpoint / cluster targets), a requester (CASE
node of the fabric, or a PASE session without fabric) and a request (read / write / invoke of 1-3 concrete, absent or
wildcard paths, timed or not), it gives per path the set of elements the request returns or acts on and whether the
path must be answered with a status instead.  TLC draws the vectors and checks the reference's sanity invariant; the
harness builds the same node on a real device with an instrumented handler (logging every read / write / invoke call),
installs the ACL, and runs the real request through ImClient over a planted CASE or PASE session.
Verdict: returned data = expected multiset; handler calls = expected multiset (so a denied or absent element has no
effect on the device and is never read); a concrete path that selects nothing is answered with a non-success status;
a wildcard path never produces a status."""
import json, os, collections, concurrent.futures
import vlib
from vlib import Check

def feature(v):
    r = v["req"]
    wild = any(p["ep"] < 0 or p["cl"] < 0 or p["leaf"] < 0 for p in r["paths"])
    return "%s|%s|%s|%s|acl%d" % (r["kind"], ("late" if r.get("late") else "timed") if r["timed"] else "untimed", "wild" if wild else "concrete", v["who"]["mode"], len(v["acl"]))

def run(tier, seed):
    ck = Check("C06", tier, seed)
    wd = ck.wd
    quick = tier != "thorough"
    jobs = 6 if quick else 14
    per = (12, 150) if quick else (120, 200)
    def gen(j):
        return vlib.tlc_sim("C06", "ImAccess.tla", "ImAccess.cfg", num=per[0], depth=per[1], seed=seed * 1000 + j, timeout=3000, tag="gen%d" % j)
    vecs, states = [], 0
    with concurrent.futures.ThreadPoolExecutor(max_workers=jobs) as ex:
        for b, st in ex.map(gen, range(jobs)):
            vecs += b; states += st
    seen, uniq = set(), []
    for v in vecs:
        k = json.dumps(v, sort_keys=True)
        if k not in seen:
            seen.add(k); uniq.append(v)
    vecs = uniq
    if len(vecs) < 2000:
        raise vlib.ToolError("generator produced only %d vectors" % len(vecs))
    vpath = os.path.join(wd, "vectors.ndjson")
    vlib.write_ndjson(vpath, vecs)
    tpath = os.path.join(wd, "trace.ndjson")
    summ = vlib.harness(["c06", "--behaviours", vpath, "--out", tpath], timeout=6000)
    tr = vlib.read_ndjson(tpath)
    feats = collections.Counter()
    n_sel = n_status = 0
    def key(x):
        return (x["ep"], x["cl"] - 100 if x["cl"] >= 100 else x["cl"], x["leaf"])
    for v, t in zip(vecs, tr):
        kind = v["req"]["kind"]
        f = feature(v); feats[f] += 1
        expected = collections.Counter()
        for r in v["results"]:
            for s in r["sel"]:
                expected[tuple(s)] += 1
        n_sel += sum(expected.values())
        what = None
        if v["req"].get("late"):
            # the timed window had expired when the write / invoke arrived: refused as a whole, nothing acted on
            acted = [h for h in t["handler"] if h["h"] != "read"]
            if acted:
                what = ("late-acted", "a %s that arrived after its timed window was acted on: %s" % (kind, acted[:3]))
            elif not t["error"] and any(i.get("k") == "status" and i.get("status") == "Success" for i in t["items"]):
                what = ("late-accepted", "a %s that arrived after its timed window was answered with success: %s" % (kind, t["items"][:3]))
        elif t["error"]:
            what = ("request-failed", "the request as a whole failed: %s" % t["error"])
        else:
            calls = collections.Counter(key(h) for h in t["handler"] if h["h"] == kind)
            other = [h for h in t["handler"] if h["h"] != kind]
            data = collections.Counter(key(i) for i in t["items"] if i["k"] == "data")
            stats = [i for i in t["items"] if i["k"] == "status"]
            if other:
                what = ("foreign-handler-call", "a %s request caused handler calls of another kind: %s" % (kind, other[:3]))
            elif kind == "read":
                if data != expected:
                    what = ("returned-set", "returned data %s, reference %s" % (sorted(data.elements()), sorted(expected.elements())))
                elif set(calls) != set(expected):
                    what = ("handler-reads", "the handler was read for %s, reference %s" % (sorted(calls), sorted(expected)))
            else:
                if calls != expected:
                    what = ("acted-set", "the handler saw %s calls for %s, reference %s" % (kind, sorted(calls.elements()), sorted(expected.elements())))
                else:
                    okst = collections.Counter(key(i) for i in stats if i["status"] == "Success")
                    if kind == "write" and okst != expected:
                        what = ("success-statuses", "success reported for %s, acted on %s" % (sorted(okst.elements()), sorted(expected.elements())))
            if what is None:
                for p, r in zip(v["req"]["paths"], v["results"]):
                    conc = (p["ep"], p["cl"], p["leaf"])
                    if r["status"]:
                        n_status += 1
                        hit = [i for i in stats if key(i) == conc and i["status"] != "Success"]
                        if not hit and not (kind == "invoke" and any(i["k"] == "status" and i["status"] != "Success" for i in t["items"])):
                            what = ("missing-status", "the concrete path %s selects nothing but is not answered with a failure status: %s" % (conc, t["items"][:4]))
                    elif min(conc) < 0 and kind == "read":
                        bad = [i for i in stats if (p["ep"] < 0 or i["ep"] == p["ep"]) and (p["cl"] < 0 or key(i)[1] == p["cl"]) and key(i) not in {(q["ep"], q["cl"], q["leaf"]) for q, rr in zip(v["req"]["paths"], v["results"]) if rr["status"]}]
                        if bad:
                            what = ("wildcard-status", "a wildcard path produced a status: %s" % bad[:2])
        if what:
            ck.violation("C06|%s|%s" % (what[0], f), what[1], {"vector": v, "real": t})
    # binding self-test: an expected element removed from the reference must be noticed
    k = next(i for i, v in enumerate(vecs) if any(r["sel"] for r in v["results"]) and not tr[i]["error"])
    fake = collections.Counter(tuple(s) for r in vecs[k]["results"] for s in r["sel"])
    calls = collections.Counter(key(h) for h in tr[k]["handler"])
    fake[next(iter(fake))] += 1
    if (set(calls) == set(fake)) and sum(fake.values()) == sum(calls.values()):
        raise vlib.ToolError("binding self-test failed")
    ck.cov.update({
        "states": states, "transitions": states, "traces_validated_against_impl": len(vecs), "exhaustive": False,
        "vectors": len(vecs), "elements_expected": n_sel, "status_paths_expected": n_status, "by_feature": dict(feats.most_common(40)),
        "real": summ, "reference_invariant": "ISane (checked by TLC on every drawn vector)",
        "samples": [vecs[0], tr[0]],
    })
    ck.assumptions += ["well-formed requests only (a wildcard cluster goes with a wildcard attribute; writes and invokes name cluster and leaf; one command per invoke)",
                       "events, data-version filters, fabric-sensitive data of other fabrics and a node composition that changes between the chunks of one answer are not part of the drawn universe",
                       "an expired timed window is not drawn (timed interactions are within their window)"]
    return ck.finish()
