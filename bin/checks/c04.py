"""C04 - a message counter is accepted at most once per secure peer; newer ones always.

1. TLC checks exhaustively that Layer I (Dedup.tla, the code's window algorithm) refines Layer P
   (DedupProp.tla, the property) on a small ring.
2. TLC (simulation of the same Layer I at the real scale: 32-bit counters, window 16, 16+2 group senders)
   generates behaviours; the harness replays them on the real session receive path and the real group table.
3. TLC validates the observed (counter, verdict) trace against Layer P (DedupTrace.tla)."""
import json, os
import vlib
from vlib import Check, log

def classify(run, at):
    """Signature of a rejected event: kind + relation of the counter to what was accepted before it in the run."""
    ev = run[at - 1]
    kind, peer = ev.get("kind"), ev.get("peer")
    c = ev["h"] * 65536 + ev["lo"]
    acc = [e["h"] * 65536 + e["lo"] for e in run[:at - 1] if e.get("ev") == "Recv" and e.get("peer") == peer and e.get("v")]
    if not acc:
        rel = "first"
    elif c in acc:
        rel = "seen"
    else:
        hi = acc[-1] if kind == "grp" else max(acc)
        if kind == "grp":
            d = (c - hi) % (1 << 32)
            rel = "newer" if 0 < d < (1 << 31) else ("inwin-unseen" if (hi - c) % (1 << 32) <= 16 else "older")
        else:
            rel = "newer" if c > hi else ("inwin-unseen" if hi - c <= 16 else "older")
    return "C04|%s|%s|%s" % (kind, rel, "accepted" if ev.get("v") else "rejected")

def run(tier, seed):
    ck = Check("C04", tier, seed)
    wd = ck.wd
    quick = tier != "thorough"
    # 1. design level: I refines P, exhaustively
    mcs = [vlib.tlc_mc("C04", "MCDedup.tla", "MCDedup.cfg", workers=4, timeout=600),
           vlib.tlc_mc("C04", "MCDedup.tla", "MCDedupGrpQuick.cfg" if quick else "MCDedupGrp.cfg", workers=4 if quick else 12, timeout=1500)]
    if not quick:
        mcs.append(vlib.tlc_mc("C04", "MCDedup.tla", "MCDedupW5.cfg", workers=12, timeout=1500))
    for m in mcs:
        if not m["ok"]:
            raise vlib.ToolError("Layer I does not refine Layer P in %s (%s): the transcription or the code changed; "
                                 "counterexample:\n%s" % (m["cfg"], m["violated"], m["out_tail"]))
    # 2. behaviours at the real scale
    num = 400 if quick else 20000
    beh, gen_states = vlib.tlc_sim("C04", "MCDedup.tla", "GenDedup.cfg", num=num, depth=70, seed=seed, timeout=1500)
    if len(beh) < num // 2:
        raise vlib.ToolError("generator produced only %d behaviours" % len(beh))
    bpath = os.path.join(wd, "behaviours.ndjson")
    vlib.write_ndjson(bpath, beh)
    tpath = os.path.join(wd, "trace.ndjson")
    summ = vlib.harness(["c04", "--behaviours", bpath, "--out", tpath])
    # 3. trace validation against Layer P
    states, n_runs, rej = vlib.validate_runs("C04", "DedupTrace.tla", "DedupTrace.cfg", tpath)
    for r in rej:
        sig = classify(r["run"], r["at"])
        ck.violation(sig, "real receive window gave a verdict Layer P forbids: %s (event %d of its run)" % (json.dumps(r["event"]), r["at"]),
                     {"behaviour_index": r["run_index"], "first_rejected": {"index": r["at"], "event": r["event"]}, "run": r["run"]})
    # 3b. end to end: the secure-session behaviours again, as encrypted datagrams through the whole receive path of a
    # real node (transport, session lookup, decryption, receive window, exchange, application)
    epath = os.path.join(wd, "trace_e2e.ndjson")
    e2e = vlib.harness(["c04e2e", "--behaviours", bpath, "--out", epath])
    st2, nr2, rej2 = vlib.validate_runs("C04", "DedupTrace.tla", "DedupTrace.cfg", epath)
    states += st2
    n_runs += nr2
    for r in rej2:
        sig = classify(r["run"], r["at"]).replace("C04|", "C04|e2e|")
        ck.violation(sig, "real node (end to end) gave a verdict Layer P forbids: %s (event %d of its run)" % (json.dumps(r["event"]), r["at"]),
                     {"behaviour_index": r["run_index"], "first_rejected": {"index": r["at"], "event": r["event"]}, "run": r["run"]})
    # binding self-test: flip one verdict of the recorded trace, the validator must reject exactly there
    ev = vlib.read_ndjson(tpath)
    k = next(i for i, e in enumerate(ev) if e.get("ev") == "Recv" and i > 40)
    ev2 = [dict(e) for e in ev[:k + 200]]
    ev2[k]["v"] = not ev2[k]["v"]
    cpath = os.path.join(wd, "trace_corrupt.ndjson")
    vlib.write_ndjson(cpath, ev2)
    r2 = vlib.tlc_trace("C04", "DedupTrace.tla", "DedupTrace.cfg", cpath, tag="selftest")
    if r2["accepted"] or r2.get("rejected_at") != k + 1:
        raise vlib.ToolError("binding self-test failed: corrupted verdict at event %d not rejected there (%s)" % (k + 1, r2))
    kinds = {}
    for b in beh:
        kinds[b[0]["kind"]] = kinds.get(b[0]["kind"], 0) + 1
    ck.cov.update({
        "states": sum(m["distinct"] for m in mcs) + states,
        "transitions": sum(m["generated"] for m in mcs) + gen_states,
        "traces_validated_against_impl": n_runs,
        "exhaustive": False,
        "design_model_runs": [{k: m[k] for k in ("cfg", "generated", "distinct", "depth", "wall_s")} for m in mcs],
        "design_models_exhaustive": True,
        "generator": {"cfg": "GenDedup.cfg", "mode": "tlc -simulate", "behaviours": len(beh), "steps_each": 60, "by_kind": kinds,
                      "constants": "B=65536 (32-bit counters), W=16, K=16, 18 group senders"},
        "conformance": {"steps": summ["steps"], "matched_steps": summ["matched_steps"], "drift_samples": summ["drift_samples"]},
        "end_to_end": e2e,
        "trace_validation": {"spec": "DedupTrace.tla (Layer P = DedupProp.tla)", "events": len(ev), "states": states, "rejected_runs": len(rej)},
        "binding_selftest": {"corrupted_event": k + 1, "rejected_at": r2.get("rejected_at"), "ok": True},
        "samples": [beh[0][:6], ev[1:5]],
    })
    ck.assumptions += ["real objects driven: Session::post_recv on a CASE session made by ReservedSession and on an unsecured session made by Sessions::add; GroupCtrStore::post_recv",
                       "secure unicast counters are compared numerically (no roll-over inside a session), group counters modulo 2^32",
                       "Layer I <-> code drift is reported under conformance, only Layer P decides the verdict"]
    return ck.finish()
