"""C19 - a certificate chain is accepted exactly when it is valid under the Matter rules.

The reference predicate is a TLA+ operator (CertChain.tla: Valid) over abstract certificates, written from the property
text. TLC enumerates every case (2- / 3-certificate chain x one of 35 single-respect mutations, optionally a second
independent one x reliable / last-known-good clock x purpose: bare verification, CASE against a fabric, AddNOC) with the
reference verdict; the harness builds the concrete Matter-TLV certificates with real P-256 keys (signing over the
implementation's own X.509 rendering) and asks the real verifier / CASE chain validation / FailSafe::add_noc.
The property is an iff: any disagreement (and any panic) is a violation."""
import json, os
import vlib
from vlib import Check

def run(tier, seed):
    ck = Check("C19", tier, seed)
    wd = ck.wd
    cases, gen, distinct = vlib.tlc_collect("C19", "CertChain.tla", "CertChain.cfg", workers=4, timeout=900)
    seen, uniq = set(), []
    for c in cases:
        k = json.dumps(c, sort_keys=True)
        if k not in seen:
            seen.add(k); uniq.append(c)
    cases = uniq
    if len(cases) < 1000:
        raise vlib.ToolError("generator produced only %d cases" % len(cases))
    cpath = os.path.join(wd, "cases.ndjson")
    vlib.write_ndjson(cpath, cases)
    tpath = os.path.join(wd, "trace.ndjson")
    summ = vlib.harness(["c19", "--behaviours", cpath, "--out", tpath], timeout=3000)
    tr = vlib.read_ndjson(tpath)
    n_valid = 0
    for c, t in zip(cases, tr):
        n_valid += 1 if c["valid"] else 0
        muts = "+".join(m for m in (c["m1"], c["m2"]) if m != "none") or "none"
        if t["panicked"]:
            ck.violation("C19|%s|%s|panic" % (c["purpose"], muts), "the verifier panicked on case %s" % json.dumps(c), {"case": c, "real": t})
        elif t["accepted"] != c["valid"]:
            ck.violation("C19|%s|%s|%s" % (c["purpose"], muts, "accepted" if t["accepted"] else "rejected"),
                         "real verdict accepted=%s, reference valid=%s for case %s" % (t["accepted"], c["valid"], json.dumps(c)), {"case": c, "real": t})
    if tr[0]["accepted"] == (not cases[0]["valid"]):
        pass
    ck.cov.update({
        "states": distinct, "transitions": gen, "traces_validated_against_impl": len(cases), "exhaustive": True,
        "cases": len(cases), "reference_valid": n_valid, "reference_invalid": len(cases) - n_valid, "real": summ,
        "by_purpose": {p: sum(1 for c in cases if c["purpose"] == p) for p in ("verify", "case", "addnoc")},
        "generator": {"spec": "CertChain.tla", "mode": "exhaustive enumeration of the stated universe (single mutations x a short list of second mutations)"},
        "samples": [cases[0], cases[len(cases) // 2], cases[-1]],
    })
    ck.assumptions += ["cryptographic soundness of P-256 / ECDSA is assumed; certificates are signed over the implementation's own DER rendering (CertRef::as_asn1)",
                       "for AddNOC the fabric is the one defined by the credentials being installed (their own root and fabric id)",
                       "UpdateNOC is exercised by the C08 scenarios, not here"]
    return ck.finish()
