"""C05 - access is granted exactly when the Matter access-control algorithm grants it.

The reference decision is a TLA+ operator (Acl.tla: Allow / Reach), written from the property text. TLC draws
configurations (fabrics 1/2 present or not, 0-2 entries each from a palette of privileges x auth modes x null / empty /
node / CAT / group subject lists x null / empty / endpoint / cluster / device-type target lists, group tables, an
accessor of any mode with fabric index 0..3, a read or write request on an element with one of 7 access declarations) and
prints each with the reference verdicts; the harness builds the same configuration on a real Matter and evaluates the
real AccessReq::allow / Accessor::is_endpoint_accessible. The property is an iff: any disagreement is a violation."""
import json, os, concurrent.futures
import vlib
from vlib import Check

def feature(v, t):
    a, r = v["acc"], v["req"]
    fabs = {f["idx"]: f for f in v["fabs"]}
    own = fabs.get(a["fab"])
    kinds = set()
    if own:
        for e in own["acl"]:
            for s in e["subj"]["items"]:
                kinds.add(s["k"])
            if e["subj"]["null"]: kinds.add("subjnull")
            elif not e["subj"]["items"]: kinds.add("subjempty")
    return "%s|fab%s|%s|%s|%s" % (a["mode"], "own" if own else ("0" if a["fab"] == 0 else "missing"), r["op"], r["access"], "+".join(sorted(kinds)) or "noentry")

def run(tier, seed):
    ck = Check("C05", tier, seed)
    wd = ck.wd
    quick = tier != "thorough"
    jobs = 6 if quick else 14
    per = (20, 200) if quick else (110, 200)      # traces x depth per job -> vectors
    def gen(j):
        return vlib.tlc_sim("C05", "Acl.tla", "Acl.cfg", num=per[0], depth=per[1], seed=seed * 1000 + j, timeout=3000, tag="gen%d" % j)
    vecs, states = [], 0
    with concurrent.futures.ThreadPoolExecutor(max_workers=jobs) as ex:
        for b, st in ex.map(gen, range(jobs)):
            vecs += b; states += st
    if len(vecs) < jobs * per[0] * per[1] // 2:
        raise vlib.ToolError("generator produced only %d vectors" % len(vecs))
    vpath = os.path.join(wd, "vectors.ndjson")
    vlib.write_ndjson(vpath, vecs)
    tpath = os.path.join(wd, "trace.ndjson")
    summ = vlib.harness(["c05", "--behaviours", vpath, "--out", tpath], timeout=3000)
    tr = vlib.read_ndjson(tpath)
    distinct = set()
    n_true = 0
    for v, t in zip(vecs, tr):
        distinct.add(json.dumps([v["fabs"], v["acc"], v["req"]], sort_keys=True))
        n_true += 1 if v["allow"] else 0
        if t["allow"] != v["allow"]:
            ck.violation("C05|allow|ref=%s|%s" % (v["allow"], feature(v, t)),
                         "AccessReq::allow = %s but the reference decision is %s" % (t["allow"], v["allow"]), {"vector": v, "real": t})
        elif t["reach"] != v["reach"]:
            ck.violation("C05|reach|ref=%s|%s" % (v["reach"], feature(v, t)),
                         "Accessor::is_endpoint_accessible = %s but the reference is %s" % (t["reach"], v["reach"]), {"vector": v, "real": t})
    # binding self-test: the comparison must notice a flipped reference verdict
    flipped = dict(vecs[0]); flipped["allow"] = not flipped["allow"]
    if (tr[0]["allow"] == flipped["allow"]):
        raise vlib.ToolError("binding self-test failed")
    ck.cov.update({
        "states": states, "transitions": states,
        "traces_validated_against_impl": len(vecs), "exhaustive": False,
        "vectors": len(vecs), "distinct_configurations": len(distinct), "reference_allow_true": n_true,
        "reference_allow_false": len(vecs) - n_true, "real": summ,
        "generator": {"spec": "Acl.tla", "mode": "tlc -simulate, RandomElement draws", "jobs": jobs},
        "binding_selftest": {"flipped_reference_detected": True},
        "samples": [vecs[0], vecs[1]],
    })
    ck.assumptions += ["the provisional AUXILIARY access-control feature is switched off (aux_acl_enabled = false), as DESIGN.md C05 explains",
                       "the reference operator Allow is trusted as the reading of the Matter access-control algorithm; TLC checks two sanity invariants of it on every drawn configuration"]
    return ck.finish()
