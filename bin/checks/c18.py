"""C18 - BTP delivers each message intact, once and in order, or fails cleanly.

1. TLC checks exhaustively (window 3, up to 2 messages of 1 or 3 segments per end, every order of the two ends'
   send / poll / deliver / fetch / ack-timer steps) that the two ends transcribed from btp.rs / btp/session.rs
   (Btp.tla) refine Layer P (BtpProp.tla) and never reach a state where the transcribed arithmetic underflows or an
   assert fails.
2. TLC-simulated step schedules - well-behaved ones, and ones ending with a hostile segment of one of 15 classes -
   are replayed on two real Btp objects joined by byte channels, plus harness-made long runs (sequence-number wrap)
   and window-overrun runs.
3. TLC validates the recorded Submit/Tx/Rx/Fetch/Tick/Inject/Panic traces against Layer P (BtpTrace.tla)."""
import json, os
import vlib
from vlib import Check

def signature(r):
    e = r["event"]
    ev = e.get("ev")
    hostile = [x for x in r["run"] if x.get("ev") == "Inject"]
    cls = hostile[-1]["cls"] if hostile else "wellbehaved"
    if ev == "Panic":
        what = e.get("what", "")
        kind = "assert" if "assert" in what else "overflow" if "overflow" in what else "panic"
        return "C18|%s|panic|%s|%s" % (cls, what.split(":")[0].split(" ")[0], kind)
    if ev == "Inject":
        return "C18|%s|accepted" % cls
    if ev == "Fetch":
        return "C18|%s|corrupt-or-misordered-delivery" % cls
    return "C18|%s|%s" % (cls, ev)

def run(tier, seed):
    ck = Check("C18", tier, seed)
    wd = ck.wd
    quick = tier != "thorough"
    mc = vlib.tlc_mc("C18", "MCBtp.tla", "MCBtp.cfg" if quick else "MCBtpDeep.cfg", workers=6 if quick else 14, timeout=3000)
    if not mc["ok"]:
        raise vlib.ToolError("Btp does not refine BtpProp (%s):\n%s" % (mc["violated"], mc["out_tail"]))
    num = 400 if quick else 8000
    beh, gen_states = vlib.tlc_sim("C18", "MCBtp.tla", "GenBtp.cfg", num=num, depth=55, seed=seed, timeout=2400)
    beh2, gs2 = vlib.tlc_sim("C18", "MCBtp.tla", "GenBtpLong.cfg", num=num // 4, depth=75, seed=seed + 1, timeout=2400, tag="genlong")
    beh = beh + beh2
    gen_states += gs2
    if len(beh) < num // 2:
        raise vlib.ToolError("generator produced only %d schedules" % len(beh))
    bpath = os.path.join(wd, "behaviours.ndjson")
    vlib.write_ndjson(bpath, beh)
    tpath = os.path.join(wd, "trace.ndjson")
    summ = vlib.harness(["c18", "--behaviours", bpath, "--out", tpath, "--bulk", 300 if quick else 1500, "--seed", seed,
                                 "--random-runs", 10 if quick else 100, "--random-steps", 12000,
                                 "--big-runs", 22 if quick else 330, "--big-steps", 2500 if quick else 6000], timeout=2400)
    states, n_runs, rej = vlib.validate_runs("C18", "BtpTrace.tla", "BtpTrace.cfg", tpath)
    for r in rej:
        ck.violation(signature(r), "real BTP ends: event %s (no. %d of its run) is not allowed by Layer P" % (json.dumps(r["event"]), r["at"]),
                     {"behaviour_index": r["run"][0].get("run"), "first_rejected": {"index": r["at"], "event": r["event"]}, "run": r["run"][-60:]})
    ev = vlib.read_ndjson(tpath)
    # binding self-test: swap the ids of two fetched messages -> rejected at the first of them
    bad = {r["run_index"] for r in rej}
    good = [e for ri, run in enumerate(vlib.split_runs(ev)) if ri not in bad for e in run]
    k = next(i for i, e in enumerate(good) if e.get("ev") == "Fetch" and i > 10)
    ev2 = [dict(e) for e in good[:k + 40]]
    ev2[k]["id"] = ev2[k]["id"] + 1
    cpath = os.path.join(wd, "trace_corrupt.ndjson")
    vlib.write_ndjson(cpath, ev2)
    r2 = vlib.tlc_trace("C18", "BtpTrace.tla", "BtpTrace.cfg", cpath, tag="selftest")
    if r2["accepted"] or r2.get("rejected_at") != k + 1:
        raise vlib.ToolError("binding self-test failed: %s" % r2)
    inj = {}
    for e in ev:
        if e.get("ev") == "Inject":
            key = "%s:%s" % (e["cls"], e["res"])
            inj[key] = inj.get(key, 0) + 1
    ck.cov.update({
        "states": mc["distinct"] + states, "transitions": mc["generated"] + gen_states,
        "traces_validated_against_impl": n_runs, "exhaustive": False,
        "design_model_runs": [{k2: mc[k2] for k2 in ("cfg", "generated", "distinct", "depth", "wall_s")}],
        "design_models_exhaustive": True,
        "generator": {"cfg": "GenBtp.cfg + GenBtpLong.cfg", "mode": "tlc -simulate", "schedules": len(beh)},
        "conformance": {k2: summ[k2] for k2 in ("steps", "matched_steps", "drift_samples")},
        "hostile_segments": inj,
        "trace_validation": {"spec": "BtpTrace.tla (Layer P = BtpProp.tla)", "events": len(ev), "states": states, "rejected_runs": len(rej),
                             "fetches": sum(1 for e in ev if e.get("ev") == "Fetch"), "segments": sum(1 for e in ev if e.get("ev") == "Tx")},
        "binding_selftest": {"corrupted_event": k + 1, "rejected_at": r2.get("rejected_at"), "ok": True},
        "samples": [beh[0][:12], ev[:14]],
    })
    ck.assumptions += ["GATT is an ordered, lossless channel per direction (as BTP assumes); the harness plays the GATT driver: process_outgoing -> bytes -> peer's process_incoming",
                       "negotiated window 3 (the harness rewrites the window byte of the initiator's handshake request, as a peer asking for a small window would), payload MTU 20",
                       "a segment refused with an error ends the run (the GATT drivers drop the connection on error)"]
    return ck.finish()
