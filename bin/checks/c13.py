"""C13 - a subscriber eventually learns every change it subscribed to.

Level 1 (subscription table): TLC checks exhaustively that the table + reporter loop transcribed from
subscriptions.rs / im.rs (Subs.tla) refines Layer P (SubsProp.tla: NoLostUpdate, RetrySameContent, MinInterval,
EndsWithinMax, LivenessBeforeMax); TLC-simulated operation schedules are replayed on the real Subscriptions
object (harness plays the reporter loop and the priming path through the verif wrappers); the recorded trace is
validated by TLC against Layer P.
Level 2 (full stack: real subscriber, device, network) is added by checks/c13_full when present."""
import json, os
import vlib
from vlib import Check

def signature(r):
    e = r["event"]
    ev = e.get("ev")
    if ev == "Quiet":
        return "C13|table|lost-update-at-quiescence"
    if ev == "End":
        return "C13|table|report-content|" + e.get("r", "?")
    return "C13|table|" + str(ev)

def run(tier, seed):
    ck = Check("C13", tier, seed)
    wd = ck.wd
    quick = tier != "thorough"
    mc = vlib.tlc_mc("C13", "MCSubs.tla", "MCSubsQuick.cfg" if quick else "MCSubs.cfg", workers=6 if quick else 14, timeout=3000)
    if not mc["ok"]:
        raise vlib.ToolError("Subs does not refine SubsProp (%s):\n%s" % (mc["violated"], mc["out_tail"]))
    num = 250 if quick else 6000
    beh, gen_states = vlib.tlc_sim("C13", "MCSubs.tla", "GenSubs.cfg", num=num, depth=45, seed=seed, timeout=2400)
    uniq, seen = [], set()
    for b in beh:
        k = json.dumps(b, sort_keys=True)
        if k not in seen:
            seen.add(k); uniq.append(b)
    beh = uniq
    # the two schedules TLC found as counterexamples for the unrepaired purge rule are always replayed first
    core = [
        [{"op": "Subscribe", "s": 1}, {"op": "Read", "s": 1, "p": 1, "d": True}, {"op": "Change", "p": 1}, {"op": "Read", "s": 1, "p": 2, "d": True},
         {"op": "Read", "s": 1, "p": 3, "d": True}, {"op": "PassStart"}, {"op": "PassEnd"}, {"op": "ReadEv", "s": 1}, {"op": "End", "s": 1, "r": "ok"}],
        [{"op": "Subscribe", "s": 1}, {"op": "Read", "s": 1, "p": 1, "d": True}, {"op": "Read", "s": 1, "p": 2, "d": True}, {"op": "Read", "s": 1, "p": 3, "d": True},
         {"op": "End", "s": 1, "r": "ok"}, {"op": "Subscribe", "s": 2}, {"op": "Read", "s": 2, "p": 1, "d": True}, {"op": "Change", "p": 1}, {"op": "Tick"},
         {"op": "PassStart"}, {"op": "Begin", "s": 1}, {"op": "Read", "s": 1, "p": 1, "d": True}, {"op": "Read", "s": 1, "p": 2, "d": False},
         {"op": "Read", "s": 1, "p": 3, "d": False}, {"op": "End", "s": 1, "r": "ok"}, {"op": "PassEnd"},
         {"op": "Read", "s": 2, "p": 2, "d": True}, {"op": "Read", "s": 2, "p": 3, "d": True}, {"op": "End", "s": 2, "r": "ok"}],
    ]
    beh = core + beh
    if len(beh) < num // 2:
        raise vlib.ToolError("generator produced only %d schedules" % len(beh))
    bpath = os.path.join(wd, "behaviours.ndjson")
    vlib.write_ndjson(bpath, beh)
    tpath = os.path.join(wd, "trace.ndjson")
    summ = vlib.harness(["c13", "--behaviours", bpath, "--out", tpath])
    states, n_runs, rej = vlib.validate_runs("C13", "SubsTrace.tla", "SubsTrace.cfg", tpath)
    for r in rej:
        ck.violation(signature(r), "real subscription table: event %s (no. %d of its run) is not allowed by Layer P" % (json.dumps(r["event"]), r["at"]),
                     {"behaviour_index": r["run"][0].get("run"), "first_rejected": {"index": r["at"], "event": r["event"]}, "run": r["run"]})
    # binding self-test: deliver a stale version -> must be rejected at that event
    ev = vlib.read_ndjson(tpath)
    bad = {r["run_index"] for r in rej}
    good = [e for ri, run in enumerate(vlib.split_runs(ev)) if ri not in bad for e in run]
    k = next(i for i, e in enumerate(good) if e.get("ev") == "Deliver" and i > 10)
    ev2 = [dict(e) for e in good[:k + 60]]
    ev2[k]["v"] = ev2[k]["v"] + 1
    cpath = os.path.join(wd, "trace_corrupt.ndjson")
    vlib.write_ndjson(cpath, ev2)
    r2 = vlib.tlc_trace("C13", "SubsTrace.tla", "SubsTrace.cfg", cpath, tag="selftest")
    if r2["accepted"] or r2.get("rejected_at") != k + 1:
        raise vlib.ToolError("binding self-test failed: %s" % r2)
    quiets = sum(1 for e in ev if e.get("ev") == "Quiet")
    ck.cov.update({
        "states": mc["distinct"] + states, "transitions": mc["generated"] + gen_states,
        "traces_validated_against_impl": n_runs, "exhaustive": False,
        "design_model_runs": [{k2: mc[k2] for k2 in ("cfg", "generated", "distinct", "depth", "wall_s")}],
        "design_models_exhaustive": True,
        "generator": {"cfg": "GenSubs.cfg", "mode": "tlc -simulate", "schedules": len(beh), "ops_each": 40},
        "conformance": {k2: summ[k2] for k2 in ("steps", "matched_steps", "drift_samples", "runs_without_quiescence")},
        "trace_validation": {"spec": "SubsTrace.tla (Layer P = SubsProp.tla)", "events": len(ev), "states": states, "rejected_runs": len(rej), "quiescence_checks": quiets},
        "binding_selftest": {"corrupted_event": k + 1, "rejected_at": r2.get("rejected_at"), "ok": True},
        "samples": [beh[2][:10], ev[:12]],
    })
    ck.assumptions += ["level 1 drives the real Subscriptions table through the verif wrappers; the harness plays the reporter loop of im.rs (sweep, report while reportable, purge) and the priming path",
                       "quiescence is reached by letting every pending report succeed (a fair environment)"]
    return ck.finish()
