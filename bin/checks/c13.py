"""C13 - a subscriber eventually learns every change it subscribed to.

Level 1 (subscription table): TLC checks exhaustively that the table + reporter loop transcribed from
subscriptions.rs / im.rs (Subs.tla) refines Layer P (SubsProp.tla: NoLostUpdate, RetrySameContent, MinInterval,
EndsWithinMax, LivenessBeforeMax); TLC-simulated operation schedules are replayed on the real Subscriptions
object (harness plays the reporter loop and the priming path through the verif wrappers); the recorded trace is
validated by TLC against Layer P.
Level 2 (full stack): the same TLC behaviours projected onto what an environment controls (subscribe, change - also
while the priming report is being read -, time, lost datagrams) plus harness-made schedules run on a real device
(InteractionModel with its reporter task, default responder) and a real subscriber (ImClient establishment,
rs-matter's controller-side ReportDataHandler) over the simulated network; every run ends with more than the max
interval of silence; TLC validates the recorded trace against SubsE2eTrace.tla (values never from the future nor
older than told before, priming carries everything, MinInterval, LivenessBeforeMax, NoLostUpdate at quiescence)."""
import json, os
import vlib
from vlib import Check

def signature(r):
    e = r["event"]
    ev = e.get("ev")
    if ev == "Quiet":
        return "C13|table|lost-update-at-quiescence"
    if ev == "End":
        return "C13|table|report-content|" + e.get("r", "?")
    return "C13|table|" + str(ev)

PMAP = {1: [101, 0], 2: [101, 1], 3: [102, 3]}

def project(beh, variant):
    """A behaviour of Subs.tla -> a schedule of the full-stack world."""
    out, priming, n_sub, subscribed = [], None, 0, set()
    for o in beh:
        k = o.get("op")
        if k == "Subscribe":
            if o["s"] in subscribed:           # the model's re-subscription after an ended one: the real one is still alive
                continue
            subscribed.add(o["s"])
            n_sub += 1
            paths = [[-1, -1]] if (o["s"] + variant) % 2 == 1 else [[101, 0], [101, 1], [102, 0]]
            priming = {"op": "Sub", "s": o["s"], "paths": paths, "min": 1 if variant % 3 else 0, "max": 4, "keep": True}
            out.append(priming)
        elif k == "Change":
            pa = PMAP[o["p"]]
            if priming is not None and "change_mid" not in priming:
                priming["change_mid"] = pa
            else:
                out.append({"op": "Change", "cl": pa[0], "a": pa[1]})
        elif k == "End":
            if priming is not None and o.get("s") == priming["s"]:
                priming = None
            if o.get("r") == "fail":
                out.append({"op": "Lose", "n": 1 + variant % 3})
        elif k == "Tick":
            out.append({"op": "Wait", "ms": 1000})
    if n_sub == 0:
        return None
    return out + [{"op": "Quiet"}]

def made_e2e():
    S = lambda s, paths, **kw: dict({"op": "Sub", "s": s, "paths": paths, "min": 0, "max": 5, "keep": True}, **kw)
    C = lambda cl, a: {"op": "Change", "cl": cl, "a": a}
    W = lambda ms: {"op": "Wait", "ms": ms}
    Q = {"op": "Quiet"}
    out = []
    out.append([S(1, [[101, 0], [101, 1]]), C(101, 0), W(1500), C(101, 1), C(102, 0), Q])
    out.append([S(1, [[-1, -1]], min=1, max=10, change_mid=[101, 0]), W(500), Q])
    for mid in ([101, 0], [101, 2], [102, 0], [102, 2]):
        out.append([S(1, [[-1, -1]], change_mid=mid), Q])
        out.append([S(1, [[-1, -1]], min=2, change_mid=mid), C(mid[0], mid[1]), W(300), C(101, 1), Q])
        out.append([S(1, [[-1, -1]]), S(2, [[101, -1]], change_mid=mid), C(102, 1), Q])
    # bursts (the change table coalesces), changes of attributes nobody subscribed to
    out.append([S(1, [[101, 0], [102, 2]])] + [C(c, a) for c in (101, 102) for a in (0, 1, 2)] * 2 + [Q])
    out.append([S(1, [[101, 0]]), S(2, [[102, -1]])] + [C(c, a) for a in (0, 1, 2) for c in (101, 102)] + [W(700)] + [C(102, 1), C(101, 0)] + [Q])
    # a replaced subscription (keep = false), overlapping subscriptions
    out.append([S(1, [[101, -1]]), C(101, 1), S(2, [[-1, -1]], keep=False), C(101, 1), C(102, 1), Q])
    out.append([S(1, [[101, 1]]), S(2, [[101, 1], [102, 1]]), C(101, 1), W(100), C(101, 1), C(102, 1), Q])
    # lost datagrams: reports and their acknowledgements are retransmitted, nothing is lost for good
    for n in (1, 2, 3):
        out.append([S(1, [[-1, -1]]), {"op": "Lose", "n": n}, C(101, 0), W(200), C(102, 2), Q])
        out.append([S(1, [[101, 0], [101, 1]], min=1), C(101, 0), {"op": "Lose", "n": n}, W(1200), C(101, 1), W(3000), C(101, 0), Q])
    # events: a burst that needs several messages in one report, events before the subscription (primed), events and
    # changes mixed, with a datagram lost
    E = lambda n, size=500: {"op": "Emit", "n": n, "size": size}
    out.append([S(1, [[101, 0]], events=True), E(6), Q])
    out.append([E(3, 300), S(1, [[-1, -1]], events=True), E(2), W(500), E(7, 450), C(101, 1), Q])
    out.append([S(1, [[101, 0]], events=True, min=1), E(1, 10), E(9, 520), W(200), E(9, 520), {"op": "Lose", "n": 1}, E(2, 30), C(101, 0), Q])
    out.append([S(1, [[101, -1]], events=True), S(2, [[102, -1]]), E(12, 400), C(102, 0), W(1500), E(1, 900), Q])
    # the list attribute (3): a report that consists of nothing but a list longer than a message, alone, twice in a row,
    # next to scalars, primed, changed while the priming report is read, with a datagram lost
    out.append([S(1, [[102, 3]]), C(102, 3), Q])
    out.append([S(1, [[102, 3]]), C(102, 3), W(800), C(102, 3), W(100), C(102, 3), Q])
    out.append([S(1, [[-1, -1]]), C(101, 3), W(1500), C(102, 3), C(101, 0), Q])
    out.append([S(1, [[101, 3], [102, 3]], min=1), C(101, 3), C(102, 3), W(2500), C(101, 3), Q])
    out.append([S(1, [[-1, -1]], change_mid=[102, 3]), Q])
    out.append([S(1, [[101, -1]]), S(2, [[102, 3]]), C(102, 3), {"op": "Lose", "n": 1}, W(300), C(102, 3), C(101, 3), Q])
    out.append([S(1, [[102, 3]], events=True), E(3, 400), C(102, 3), Q])
    # changes spread over several max intervals
    out.append([S(1, [[-1, -1]], max=3), W(50000), C(101, 2), W(50000), C(102, 2), Q])
    return out

def e2e_signature(r):
    e = r["event"]
    ev = e.get("ev")
    if ev == "Quiet":
        return "C13|e2e|not-up-to-date-at-quiescence"
    if ev in ("Item", "PItem"):
        return "C13|e2e|value-in-report"
    return "C13|e2e|" + str(ev)

def level2(ck, beh, quick, seed):
    wd = ck.wd
    proj = []
    for bi, b in enumerate(beh):
        p = project(b, bi)
        if p is not None:
            proj.append(p)
    proj = proj[:150] if quick else proj[:1500]
    sched = made_e2e() + proj
    bpath = os.path.join(wd, "behaviours_e2e.ndjson")
    vlib.write_ndjson(bpath, sched)
    tpath = os.path.join(wd, "trace_e2e.ndjson")
    summ = vlib.harness(["c13e", "--behaviours", bpath, "--out", tpath], timeout=6000)
    states, n_runs, rej = vlib.validate_runs("C13", "SubsE2eTrace.tla", "SubsE2eTrace.cfg", tpath)
    for r in rej:
        ck.violation(e2e_signature(r), "real subscriber: event %s (no. %d of its run) is not allowed by SubsE2eTrace" % (json.dumps(r["event"])[:500], r["at"]),
                     {"schedule": sched[r["run_index"]] if r["run_index"] < len(sched) else None, "first_rejected": {"index": r["at"], "event": r["event"]}, "run": r["run"][:200]})
    ev = vlib.read_ndjson(tpath)
    # binding self-test: a report that carries a stale value must be rejected at that event
    bad = {r["run_index"] for r in rej}
    runs = [run for ri, run in enumerate(vlib.split_runs(ev)) if ri not in bad]
    pick = next(run for run in runs if any(e.get("ev") == "Item" and e.get("v", 0) >= 1 for e in run))
    k = next(i for i, e in enumerate(pick) if e.get("ev") == "Item" and e.get("v", 0) >= 1)
    ev2 = [dict(e) for e in pick]
    ev2[k]["v"] = ev2[k]["v"] + 1
    cpath = os.path.join(wd, "trace_e2e_corrupt.ndjson")
    vlib.write_ndjson(cpath, ev2)
    r2 = vlib.tlc_trace("C13", "SubsE2eTrace.tla", "SubsE2eTrace.cfg", cpath, tag="selftest_e2e")
    if r2["accepted"] or r2.get("rejected_at") != k + 1:
        raise vlib.ToolError("binding self-test (full stack) failed: %s" % r2)
    return {"schedules": len(sched), "harness_made": len(made_e2e()), "projected_from_the_model": len(proj), "runs": n_runs, "states": states, "rejected_runs": len(rej),
            "events": len(ev), "reports": sum(1 for e in ev if e.get("ev") == "Rep"), "changes": sum(1 for e in ev if e.get("ev") == "Change"),
            "changes_during_priming": sum(1 for s in sched for o in s if "change_mid" in o), "quiescence_checks": sum(1 for e in ev if e.get("ev") == "Quiet"),
            "binding_selftest": {"corrupted_event": k + 1, "rejected_at": r2.get("rejected_at"), "ok": True}, "replay": summ}

def run(tier, seed):
    ck = Check("C13", tier, seed)
    wd = ck.wd
    quick = tier != "thorough"
    mc = vlib.tlc_mc("C13", "MCSubs.tla", "MCSubsQuick.cfg" if quick else "MCSubs.cfg", workers=6 if quick else 14, timeout=3000)
    if not mc["ok"]:
        raise vlib.ToolError("Subs does not refine SubsProp (%s):\n%s" % (mc["violated"], mc["out_tail"]))
    num = 250 if quick else 6000
    beh, gen_states = vlib.tlc_sim("C13", "MCSubs.tla", "GenSubs.cfg", num=num, depth=45, seed=seed, timeout=2400)
    uniq, seen = [], set()
    for b in beh:
        k = json.dumps(b, sort_keys=True)
        if k not in seen:
            seen.add(k); uniq.append(b)
    beh = uniq
    # the two schedules TLC found as counterexamples for the unrepaired purge rule are always replayed first
    core = [
        [{"op": "Subscribe", "s": 1}, {"op": "Read", "s": 1, "p": 1, "d": True}, {"op": "Change", "p": 1}, {"op": "Read", "s": 1, "p": 2, "d": True},
         {"op": "Read", "s": 1, "p": 3, "d": True}, {"op": "PassStart"}, {"op": "PassEnd"}, {"op": "ReadEv", "s": 1}, {"op": "End", "s": 1, "r": "ok"}],
        [{"op": "Subscribe", "s": 1}, {"op": "Read", "s": 1, "p": 1, "d": True}, {"op": "Read", "s": 1, "p": 2, "d": True}, {"op": "Read", "s": 1, "p": 3, "d": True},
         {"op": "End", "s": 1, "r": "ok"}, {"op": "Subscribe", "s": 2}, {"op": "Read", "s": 2, "p": 1, "d": True}, {"op": "Change", "p": 1}, {"op": "Tick"},
         {"op": "PassStart"}, {"op": "Begin", "s": 1}, {"op": "Read", "s": 1, "p": 1, "d": True}, {"op": "Read", "s": 1, "p": 2, "d": False},
         {"op": "Read", "s": 1, "p": 3, "d": False}, {"op": "End", "s": 1, "r": "ok"}, {"op": "PassEnd"},
         {"op": "Read", "s": 2, "p": 2, "d": True}, {"op": "Read", "s": 2, "p": 3, "d": True}, {"op": "End", "s": 2, "r": "ok"}],
    ]
    beh = core + beh
    if len(beh) < num // 2:
        raise vlib.ToolError("generator produced only %d schedules" % len(beh))
    bpath = os.path.join(wd, "behaviours.ndjson")
    vlib.write_ndjson(bpath, beh)
    tpath = os.path.join(wd, "trace.ndjson")
    summ = vlib.harness(["c13", "--behaviours", bpath, "--out", tpath])
    states, n_runs, rej = vlib.validate_runs("C13", "SubsTrace.tla", "SubsTrace.cfg", tpath)
    for r in rej:
        ck.violation(signature(r), "real subscription table: event %s (no. %d of its run) is not allowed by Layer P" % (json.dumps(r["event"]), r["at"]),
                     {"behaviour_index": r["run"][0].get("run"), "first_rejected": {"index": r["at"], "event": r["event"]}, "run": r["run"]})
    # binding self-test: deliver a stale version -> must be rejected at that event
    ev = vlib.read_ndjson(tpath)
    bad = {r["run_index"] for r in rej}
    good = [e for ri, run in enumerate(vlib.split_runs(ev)) if ri not in bad for e in run]
    k = next(i for i, e in enumerate(good) if e.get("ev") == "Deliver" and i > 10)
    ev2 = [dict(e) for e in good[:k + 60]]
    ev2[k]["v"] = ev2[k]["v"] + 1
    cpath = os.path.join(wd, "trace_corrupt.ndjson")
    vlib.write_ndjson(cpath, ev2)
    r2 = vlib.tlc_trace("C13", "SubsTrace.tla", "SubsTrace.cfg", cpath, tag="selftest")
    if r2["accepted"] or r2.get("rejected_at") != k + 1:
        raise vlib.ToolError("binding self-test failed: %s" % r2)
    quiets = sum(1 for e in ev if e.get("ev") == "Quiet")
    l2 = level2(ck, beh, quick, seed)
    n_runs += l2["runs"]; states += l2["states"]
    ck.cov.update({
        "full_stack": l2,
        "states": mc["distinct"] + states, "transitions": mc["generated"] + gen_states,
        "traces_validated_against_impl": n_runs, "exhaustive": False,
        "design_model_runs": [{k2: mc[k2] for k2 in ("cfg", "generated", "distinct", "depth", "wall_s")}],
        "design_models_exhaustive": True,
        "generator": {"cfg": "GenSubs.cfg", "mode": "tlc -simulate", "schedules": len(beh), "ops_each": 40},
        "conformance": {k2: summ[k2] for k2 in ("steps", "matched_steps", "drift_samples", "runs_without_quiescence")},
        "trace_validation": {"spec": "SubsTrace.tla (Layer P = SubsProp.tla)", "events": len(ev), "states": states, "rejected_runs": len(rej), "quiescence_checks": quiets},
        "binding_selftest": {"corrupted_event": k + 1, "rejected_at": r2.get("rejected_at"), "ok": True},
        "samples": [beh[2][:10], ev[:12]],
    })
    ck.assumptions += ["level 1 drives the real Subscriptions table through the verif wrappers; the harness plays the reporter loop of im.rs (sweep, report while reportable, purge) and the priming path",
                       "quiescence is reached by letting every pending report succeed (a fair environment)",
                       "level 2: one controller with up to two subscriptions on one CASE session; at most 3 consecutive datagrams are lost (MRP recovers); events are not subscribed to at this level"]
    return ck.finish()
