#!/usr/bin/env python3
"""life_stats.py <trace.ndjson>: how often a Commission after a RemoveFabric succeeded (index re-use coverage)."""
import json, sys
ev=[json.loads(l) for l in open(sys.argv[1])]
runs=[];cur=[]
for e in ev:
    if e.get('ev')=='Reset':
        if cur: runs.append(cur)
        cur=[]
    cur.append(e)
runs.append(cur)
n=0;bad=0
for r in runs:
    ops=[e for e in r if e.get('ev')=='Op']
    seen=False
    for o in ops:
        if o.get('cmd')=='remove' and o.get('code')=='OK': seen=True
        if seen and o['op']=='Commission':
            n+=1
            if not o['ok']:
                bad+=1
                if '-v' in sys.argv: print([(x['op'],x.get('c'),x.get('cmd'),x.get('ok'),x.get('code')) for x in ops][:14])
print("commissionings after a removal:", n, "failed:", bad)
