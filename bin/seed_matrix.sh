#!/bin/bash
# seed_matrix.sh [ids...] : for every seeded change, apply it to /repo, rebuild the harness, run the quick check of its
# own property (plus the related ones named in RELATED), record the verdicts in seeded/<id>/check.json, undo the change.
# Never leaves /repo modified; rebuilds the harness from the clean tree at the end.
# SEED_VERIF / SEED_REPO select an isolated copy of /verif and a scratch worktree of /repo (so that other runs are
# not disturbed); the verdicts are always written to /verif/seeded/<id>/check.json.
V=${SEED_VERIF:-/verif}; R=${SEED_REPO:-/repo}
cd $V
declare -A RELATED=( [C14]="C13" [C01]="C19" [C15]="C09" [C07]="C08" [C08]="C07 C11" [C11]="C08" [C09]="C15" )
ids=("$@"); [ ${#ids[@]} -eq 0 ] && ids=($(ls /verif/seeded))
for sd in "${ids[@]}"; do
  d=/verif/seeded/$sd; prop=${sd%-*}; prop=${prop%r}
  [ -f "$d/patch.diff" ] || continue
  (cd $R && git apply "$d/patch.diff") || { echo "$sd: patch does not apply"; continue; }
  (cd harness && CARGO_NET_OFFLINE=true cargo build --offline >/dev/null 2>&1) || { echo "$sd: harness build failed"; git -C $R checkout -- .; continue; }
  res="{"; first=1
  for id in $prop ${RELATED[$prop]}; do
    out=$(./bin/check $id --tier quick --no-build 2>&1)
    if echo "$out" | grep -q "^VIOLATION"; then v="VIOLATION"; elif echo "$out" | grep -q "^OK"; then v="OK"; else v="TOOL-ERROR"; fi
    sig=$(echo "$out" | grep -m1 "signature:" | sed 's/.*signature: //' | tr -d '"' | cut -c1-120)
    [ $first -eq 0 ] && res="$res, "; first=0
    res="$res\"$id\": {\"verdict\": \"$v\", \"first_signature\": \"$sig\"}"
    echo "$sd $id $v $sig"
    [ "$v" = "VIOLATION" ] && [ "$id" = "$prop" ] && break
  done
  res="$res}"
  echo "{\"repo_head\": \"$(git -C $R rev-parse --short HEAD)\", \"quick_checks\": $res}" > $d/check.json
  git -C $R checkout -- .
done
(cd harness && CARGO_NET_OFFLINE=true cargo build --offline 2>&1 | tail -1)
