#!/bin/bash
# Runs the checks that go beyond the listed properties (spec growth): one line per check.
cd /verif
for id in BDX; do
  out=$(./bin/check $id --tier quick 2>&1 | grep -E "^(OK|VIOLATION|TOOL-ERROR)" | head -1)
  echo "$id ${out:-<no verdict>}"
done
