#!/bin/bash
# confirm_incrate.sh <seed dir> <source file to append the demo to> <test filter> : like confirm_seed.sh, for a
# demonstration that is an in-crate unit test (appended to a source file of rs-matter, not part of the patch).
set -u
D=$(readlink -f "$1"); SRC="$2"; FILTER="$3"; WT=/tmp/confirm_wt
if [ ! -d "$WT" ]; then git -C /repo worktree add --detach "$WT" HEAD >/dev/null 2>&1; fi
cd "$WT" && git checkout -q --detach "$(git -C /repo rev-parse HEAD)" && git checkout -q -- . && git clean -fdq rs-matter/tests
cat "$D/demo.rs" >> "$SRC"
cargo test -p rs-matter --lib --offline "$FILTER" > "$D/demo_without.log" 2>&1; W=$?
grep -q "test result: ok. [1-9]" "$D/demo_without.log" || W=97
git checkout -q -- . && git apply "$D/patch.diff" || { echo "patch does not apply"; exit 1; }
cat "$D/demo.rs" >> "$SRC"
cargo test -p rs-matter --lib --offline "$FILTER" > "$D/demo_with.log" 2>&1; C=$?
git checkout -q -- . && git apply "$D/patch.diff"
cargo test --workspace --no-fail-fast --offline 2>&1 | grep -E "^test result|FAILED|panicked|^error" > "$D/suite_with.log"
NOK=$(grep -c "test result: ok" "$D/suite_with.log"); NBAD=$(grep -v "test result: ok" "$D/suite_with.log" | grep -c .)
git checkout -q -- .
printf '{"demo_exit_without_change": %d, "demo_exit_with_change": %d, "suite_ok_lines_with_change": %d, "suite_bad_lines_with_change": %d, "repo_head": "%s", "note": "in-crate unit test appended to %s, run with cargo test -p rs-matter --lib %s"}\n' $W $C $NOK $NBAD "$(git -C /repo rev-parse --short HEAD)" "$SRC" "$FILTER" > "$D/confirm.json"
cat "$D/confirm.json"
