#!/usr/bin/env python3
"""mkprompt.py <property id> [n] : writes work/prompts/<id>.txt, the task text for an independent sub-agent that
seeds a defect (the agent gets only the property text and its own scratch worktree)."""
import json, sys, os
ROOT = os.path.dirname(os.path.dirname(os.path.abspath(__file__)))
props = {json.loads(l)['id']: json.loads(l) for l in open(os.path.join(ROOT, 'properties.jsonl'))}
T = open(os.path.join(ROOT, 'bin', 'seed_prompt_template.txt')).read()
pid = sys.argv[1]; n = int(sys.argv[2]) if len(sys.argv) > 2 else 2
p = props[pid]
s = T.format(pid=pid, title=p['title'], statement=p['statement'], quant=p['quantifier']['text'], files=', '.join(p['anchors']['files']),
             wt='/tmp/mut_%s' % pid.lower(), out='/tmp/mutout_%s' % pid.lower(), n=n)
os.makedirs(os.path.join(ROOT, 'work', 'prompts'), exist_ok=True)
open(os.path.join(ROOT, 'work', 'prompts', pid + '.txt'), 'w').write(s)
print(os.path.join(ROOT, 'work', 'prompts', pid + '.txt'))
