#!/bin/bash
# confirm_all.sh : runs confirm_seed.sh for every seed directory that has no confirm.json yet (sequentially, low priority).
cd /verif
for d in seeded/*/; do
  d=${d%/}
  [ -f "$d/confirm.json" ] && continue
  echo "== $d $(date +%H:%M)"
  nice -n 10 bin/confirm_seed.sh "$d" 2>&1 | tail -1
done
git -C /repo worktree remove --force /tmp/confirm_wt 2>/dev/null
echo ALLDONE
