#!/usr/bin/env python3
"""Regenerates /verif/MANIFEST.json from the table below (keeps it valid against /root/.vp/MANIFEST.schema.json)."""
import json, os, subprocess
ROOT = os.path.dirname(os.path.dirname(os.path.abspath(__file__)))

HOOK_COMMITS = subprocess.run(["git", "-C", "/repo", "log", "--format=%h %s", "--grep=^verif:"], capture_output=True, text=True).stdout.strip().splitlines()

TITLES = {l["id"]: l["title"] for l in map(json.loads, open(os.path.join(ROOT, "properties.jsonl")))}

# id -> (category, level text, level note, technique, design_ref)
CHECKS = {
 "C04": ("model_checking",
         "TLC proves, exhaustively on a small ring (window 3, ring 16, all histories of 7 counters; group table of 2 with 3 senders; window 5 / ring 64 in the thorough tier), that the window algorithm transcribed from dedup.rs (Layer I) only ever gives verdicts the property spec DedupProp (Layer P) allows; TLC-simulated behaviours of the same Layer I at the real scale (32-bit counters, window 16, 16+2 group senders) are replayed on the real Session::post_recv / GroupCtrStore and every observed (counter, verdict) is validated by TLC against Layer P. Right level: the property quantifies over all receive histories, which the small model exhausts and the replay carries to the real constants.",
         "Trusted: TLC; the transcription is checked by the replay (matched_steps). Secure unicast counters do not roll over within a session. The secure-session behaviours are replayed twice: at Session::post_recv and end to end as encrypted datagrams through Matter::run of a real node.",
         "TLA+ refinement check (TLC) + TLC-generated behaviours replayed on the real code + TLC trace validation", "DESIGN.md section 4 C04"),
 "C12": ("model_checking",
         "TLC proves exhaustively (ring 32, epoch 3, up to 12-16 operations, up to 3-4 power cuts between any two steps, start boundaries next to the wrap) that the three counter machines transcribed from the code refine Layer P (NoReuse, CoveredBeforeUse); TLC-simulated schedules are replayed on the real Sessions / Events / Icd objects over a recording key-value store with the real epochs, and the recorded Store/Use/Restart traces are validated by TLC against Layer P.",
         "Trusted: TLC; the harness stores the group boundary exactly where Exchange::initiate_group does (the real call site is additionally exercised by the C12 end-to-end scenario when present). Store operations are assumed not to fail (outside the property's quantifier).",
         "TLA+ refinement check (TLC) + TLC-generated schedules replayed on the real code + TLC trace validation", "DESIGN.md section 4 C12"),
 "C13": ("model_checking",
         "Level 1 (subscription table): TLC proves exhaustively (2 subscribers, 3 paths in 2 clusters, change table of 2 with coalescing, up to 2-3 changes, one failed report, every interleaving of changes with multi-step priming, reporter passes, purge and time) that the table + reporter loop transcribed from subscriptions.rs / im.rs refine Layer P (NoLostUpdate at quiescence, RetrySameContent, MinInterval, EndsWithinMax, LivenessBeforeMax); TLC-simulated schedules are replayed on the real Subscriptions object through the verif wrappers (the harness plays the reporter loop and the priming path) and the recorded traces are validated by TLC against Layer P, every run ending with a quiescence check.",
         "Trusted: TLC; the harness' rendering of the reporter loop of im.rs (sweep, report while reportable, purge) - the loop itself is exercised by the full-stack level when present. Timing rules are checked with the table's own notion of time (the `now` passed in).",
         "TLA+ refinement check (TLC) + TLC-generated schedules replayed on the real code + TLC trace validation", "DESIGN.md section 4 C13"),
 "C18": ("model_checking",
         "TLC proves exhaustively (window 3, up to 2-3 messages of 1 or 3 segments per end, every order of send / poll / deliver / fetch / ack-timer steps of the two ends) that the two BTP ends transcribed from btp.rs and btp/session.rs refine Layer P (exactly-once in-order delivery, window never exceeded, never a panic) ; TLC-simulated step schedules - well-behaved, or ending in a hostile segment of one of 15 classes - plus harness-made long runs across the 8-bit sequence wrap and window-overrun runs are replayed on two real Btp objects, and TLC validates the recorded wire/app traces against Layer P (including: protocol-violating segments are refused with an error, acknowledgements go out before the deadline, no corrupted delivery after an accepted hostile segment).",
         "Trusted: TLC; GATT modelled as ordered lossless byte channels; window 3 / payload MTU 20 (other sizes only in the thorough tier's harness runs). Byte-level segment fidelity is checked by comparing the fetched bytes with the submitted ones.",
         "TLA+ refinement check (TLC) + TLC-generated schedules replayed on the real code + TLC trace validation", "DESIGN.md section 4 C18"),
 "C05": ("model_checking",
         "The Matter access-control decision is written as a TLA+ operator (Acl.tla: Allow, Reach) from the property text; TLC draws tens of thousands (quick) to hundreds of thousands (thorough) of configurations - fabrics 1/2 present or not with 0-2 entries each (5 privileges x 2 auth modes x null / empty / node / CAT-with-version / group subject lists x null / empty / endpoint / cluster / device-type target lists), group tables, accessors of every mode with fabric index 0..3 (0 and a non-existent one included), read / write requests on elements with 7 access declarations - evaluates the reference and two sanity invariants on each, and the harness evaluates the real AccessReq::allow / Accessor::is_endpoint_accessible on a real Matter built with the same configuration. The property is an iff, so any disagreement is a violation.",
         "Trusted: the reference operator as the reading of the specification (sanity-checked by TLC invariants FabricSeparation / NoFabricNoAccess). The provisional AUXILIARY feature is off. Sampling, not exhaustive, over the stated universe.",
         "TLA+ reference operator evaluated by TLC on TLC-drawn configurations vs the real decision function", "DESIGN.md section 4 C05"),
 "C19": ("model_checking",
         "The chain-validity rules are a TLA+ predicate over abstract certificates (CertChain.tla: Valid), written from the property text. TLC enumerates exhaustively ~1900 cases: 2- and 3-certificate chains x 35 single-respect mutations (each signature, each name link, key identifiers, each date, CA flags, key usages, extended key usages, path lengths, critical extension, missing / foreign node and fabric ids, RCAC in the ICAC slot, untrusted root, swapped / repeated / leaf-as-authority, key not the CSR key, fabric already present) x a second independent mutation from a short list x reliable / last-known-good clock x purpose (bare verification, CASE against a fabric, AddNOC). For each, the harness builds the concrete Matter-TLV certificates with real P-256 keys, signs them over the implementation's own X.509 rendering, and compares the real verdict (CertVerifier, CASE chain validation, FailSafe::add_noc) with the reference. Iff: any disagreement or panic is a violation.",
         "Trusted: the reference predicate; ECDSA / P-256; the harness' certificate writer (its unmutated chains are accepted by the real verifier, which checks the writer). UpdateNOC rules are covered by C08.",
         "TLA+ reference predicate enumerated by TLC vs the real verifier on concrete certificates", "DESIGN.md section 4 C19"),
 "C16": ("model_checking",
         "The Matter TLV grammar is a TLA+ module (Tlv.tla): Bytes is the reference encoder, Parse the reference decoder (recursive descent, depth limit, 64-bit lengths as byte lists so 2^64-1 is representable). TLC enumerates every value tree of the universe (all tag forms, integer widths and extremes, floats, booleans, nulls, UTF-8 / octet strings with 1-, 2-, 4- and 8-byte length fields, containers of up to two children with one nesting level; the full universe in the thorough tier), checks Parse(Bytes(e)) = e, and emits every encoding with the reference verdict of every mutation (each truncation; each byte replaced by 0, 1, 0x18, 0xff, +1; a byte appended). The harness writes each tree with the real writer (byte-equal to the reference), pokes every public accessor of the real reader on every input under a panic guard and an iteration budget, and re-encodes what it decoded (byte-equal wherever the reference says well-formed).",
         "Trusted: the reference grammar (sanity: TLC's RoundTrip invariant). Values come from a palette, not all 2^64. Derived ToTLV/FromTLV encoders of wire structures are exercised indirectly by the full-stack checks only.",
         "TLA+ reference grammar enumerated by TLC (values + mutations with verdicts) vs the real codec", "DESIGN.md section 4 C16"),
 "C09": ("model_checking",
         "TLC proves exhaustively (one request/response round on one exchange, 2-3 retransmissions, up to 8-9 adversary deliveries, arbitrary loss, duplication and reordering, lazy or eager applications, one retransmission lingering in the single TX buffer behind a slow network send while the next back-off fires) that the MRP machine transcribed from mrp.rs / exchange.rs / session.rs / transport.rs keeps SuccessIsTrue, AtMostOnceInOrder, RetransIdentical and the transmission budget. Adversary schedules - TLC simulations of the same machine with the real budget (5 retransmissions) over two rounds, plus every schedule with up to two (thorough: three) drop / duplicate faults among the first datagrams, plus slow-network-send x held-back-acknowledgement schedules - are replayed on two real Matter stacks (planted CASE session, two applications using Exchange::send / recv / acknowledge) under the virtual clock; TLC validates the recorded application events and wire tap against Layer P (at-most-once in order, success only if delivered, failure only as TxTimeout within the budget horizon and never when a transmission and an ack both got through, no retransmission before the back-off, at most 6 transmissions, every duplicate asking for an ack is acknowledged again, every send call returns).",
         "Trusted: TLC; the tap decodes datagrams with rs-matter's own PacketHdr. One exchange on one CASE session; other session kinds and concurrent exchanges are covered by C10 / C03.",
         "TLA+ model checking (TLC) + TLC-generated and enumerated fault schedules replayed on the real stacks + TLC trace validation", "DESIGN.md section 4 C09"),
 "C15": ("model_checking",
         "Layer P rules on the wire tap (MrpProp.tla TxOk / AllocOk): new messages of a sender on a session carry strictly increasing counters, a datagram with a counter seen before is bit-identical to the first one (so no two plaintexts under one nonce), freshly chosen session / exchange ids are not ids of live sessions / exchanges. TLC proves RetransIdentical on the MRP model (the piggy-backed ack of a rebuilt retransmission cannot differ with a conforming peer) and validates the tap of all C09 schedules (hundreds of runs forcing retransmissions of requests, responses and ack-carrying messages) plus a sweep of more than 2^16 exchange-id and session-id allocations with live exchanges and sessions.",
         "Trusted: TLC; byte identity is checked on interned datagram bytes. Handshake messages (Sigma / PAKE) are added by the C01 / C02 taps when those checks are present.",
         "TLA+ model checking (TLC) + TLC trace validation of the wire tap of fault schedules replayed on the real stacks", "DESIGN.md section 4 C15"),
 "C03": ("model_checking",
         "The receive side is a TLA+ reference (Packet.tla: a datagram is accepted iff a session is found by its id and encryption kind, it decrypts under that session's receive key with the session's stored peer identity in the nonce and the complete received header as associated data, and its counter is fresh); TLC enumerates session mode x message shape x payload length x 14 mutation classes and checks AcceptOnlyAuthentic on the reference. For each case the harness captures genuine datagrams from the real encoder, builds the concrete mutant (bit flips per header field / ciphertext / tag, truncation, extension, header transplant, re-addressing to another session, reflection, another source node, replay), injects it into the real receive path of a real node and checks: delivered iff authentic, a rejected datagram leaves the targeted session's snapshot (send counter, receive window, exchanges, key fingerprints) unchanged, and the genuine datagrams are still delivered with identical payload; plus every single-bit flip of a genuine datagram per mode and shape. Group data messages: a device with a real fabric, one group key set mapped to two groups; the reference additionally covers the header's source node id and destination group id (flipped, transplanted to the other group, another source identity in the nonce) and a second genuine sender while the first sender's ephemeral session is alive (every delivered message must arrive on a session whose peer is the sender it names).",
         "Trusted: the AEAD primitive; the snapshot hook. Unicast sessions with planted keys (CASE, PASE); group data messages (group control / MCSP messages are not injected).",
         "TLA+ reference receiver enumerated by TLC vs injection into the real receive path with before/after snapshots", "DESIGN.md section 4 C03"),
 "C10": ("model_checking",
         "TLC proves exhaustively (2 sessions x 2 exchange ids - the same id may be live on both -, 2 responder handlers, 3-4 peer datagrams with any session / exchange id / initiator flag / reliable flag, a stray datagram, every handler policy reply / drop / hold / answer-reliably-and-drop, the last of which makes the device close the whole session) that the receive-slot machine transcribed from transport.rs / exchange.rs (RxSlot.tla) hands a message only to the owner of its (session, exchange), opens an exchange only for an allowed first message, and - under fairness of the sweepers and the owners - always frees the single receive slot and ends with no exchange left (liveness: SlotEventuallyFree, EventuallyClean). TLC-simulated disturbance schedules (2 sessions x 3 exchange ids, 8 datagrams, random policies) plus harness-made ones (unsecured strays, colliding exchange ids across sessions with a waiting owner, a message parked for accept while its session is closed under it) are replayed against a real device Matter with two policy-driven handlers; the peer is a raw injector holding the keys of three planted sessions; after the recovery horizon a fresh request on the third session must be answered, no exchange may be left, and a session the device gave up must have been closed with a CloseSession on the wire. TLC validates the recorded Inj / AppRx / Tx / Probe / End traces against Layer P (RxSlotProp.tla); handlers report the (session, exchange) they own from the device's own tables.",
         "Trusted: TLC; liveness is decided on the model and observed on the real stack only as the bounded probe (answered within the recovery horizon, zero exchanges left). One device, three sessions.",
         "TLA+ model checking incl. liveness (TLC) + TLC-generated disturbance schedules replayed on the real stack + TLC trace validation", "DESIGN.md section 4 C10"),
 "C02": ("model_checking",
         "TLC proves exhaustively (2 initiators that know / do not know the passcode and may garble any one of their three messages, window opened / closed by the administrator, ~70 s passing, the device handling the initiators' messages one at a time in every interleaving, revocation at 3 failures, up to 12 operations) that the device-side PASE machine transcribed from sc/pase/responder.rs and sc/pase.rs (Pase.tla) creates a session only with the window open and only for a proof that verifies, counts every failed proof and revokes the window at the limit; the same model without the window check at Pake3 (the code as found) must violate SessionOnlyWhileOpen. Every behaviour of the one-initiator model of 7 operations (thorough; a deterministic sample in the quick tier), TLC simulations of the two-initiator model and harness-made schedules (20 wrong passcodes in a row, window expiring or closed while Pake3 / Pake1 is held back in the network, window re-opened, concurrent second initiator, device answers lost after the k-th, garbled device answers) are replayed in the handshake world: a real device (full stack) and real PaseInitiators on the simulated network, handshake messages released one by one as the schedule says. TLC validates the recorded traces (window events, attempts, the device's session table as it changes, failure counter, what mdns_services advertises) against Layer P (PaseProp.tla).",
         "Trusted: TLC; the SPAKE2+ primitive. 'Mutated message' = a byte flipped in the TLV payload of one handshake message (every index, both directions); invalid curve points only as far as such flips produce them. The expiry polling period is taken as 1.5 s.",
         "TLA+ model checking (TLC) + TLC-generated (exhaustive and simulated) schedules replayed on the real stacks + TLC trace validation", "DESIGN.md section 4 C02"),
}

NOT_YET = "check not built yet in this tree (see DESIGN.md section 7 for the build order); not claimed"
NA_REASONS = {}

def main():
    checks = []
    for pid in sorted(CHECKS):
        cat, text, note, tech, ref = CHECKS[pid]
        checks.append({
            "property_id": pid,
            "quick_cmd": "./bin/check %s --tier quick" % pid,
            "thorough_cmd": "./bin/check %s --tier thorough" % pid,
            "evidence_file": "/verif/evidence/%s.json" % pid,
            "replay_cmd_template": "./bin/check replay {path}",
            "engine": "tlc+verif-harness",
            "level_claimed": {"category": cat, "text": text, "design_ref": ref},
            "level_note": note,
            "technique": tech,
        })
    na = [{"property_id": pid, "reason": NA_REASONS.get(pid, NOT_YET)} for pid in sorted(TITLES) if pid not in CHECKS]
    m = {
        "version": 1,
        "setup_cmd": "cd /verif/harness && CARGO_NET_OFFLINE=true cargo build --offline",
        "hooks": {
            "guard": "rs_matter_verif",
            "enable": "rustc --cfg rs_matter_verif, set for the harness build by /verif/harness/.cargo/config.toml ([build] rustflags); the harness depends on /repo/rs-matter by path, so every check rebuilds rs-matter from /repo's working tree with the hooks on",
            "baseline_off_cmd": "cd /repo && (cargo nextest run --workspace --no-fail-fast --tool-config-file pb:/w/lib/nextest.toml --profile pb --test-threads 8 --offline || cargo test --workspace --no-fail-fast --offline)",
            "source_commits": [c.split()[0] for c in HOOK_COMMITS],
            "add_only": True,
        },
        "engines": [
            {"name": "tlc", "path": "/opt/veriftools/tla/tla2tools.jar", "serves_properties": sorted(CHECKS),
             "kind_free_text": "TLC 1.8 explicit-state model checker: exhaustive refinement checks of the implementation-shaped specs against the property specs, behaviour generation (-simulate / exhaustive), trace validation of traces recorded from the real code"},
            {"name": "verif-harness", "path": "/verif/harness", "serves_properties": sorted(CHECKS),
             "kind_free_text": "Rust crate (path dependency on /repo/rs-matter, --cfg rs_matter_verif): replays TLC behaviours on the real objects / real Matter stacks under a virtual clock and a simulated network, records ndjson traces"},
        ],
        "checks": checks,
        "notes": "Technique: explicit TLA+ specifications (specs/: Layer I = implementation-shaped, Layer P = property), checked with TLC, bound to the code by replay of TLC-generated behaviours into the real code and TLC trace validation of what the real code did. Only Layer P decides a verdict. Genuine defects found and repaired are listed in known_findings.txt. See DESIGN.md.",
        "not_applicable": na,
    }
    json.dump(m, open(os.path.join(ROOT, "MANIFEST.json"), "w"), indent=1)
    print("MANIFEST.json: %d checks, %d not claimed" % (len(checks), len(na)))

if __name__ == "__main__":
    main()
