"""Shared machinery for the /verif checks: building the harness, running TLC (model checking,
behaviour generation, trace validation), known findings, evidence files.

Exit codes of a check: 0 = property held on everything explored, 1 = violation (a line
`VIOLATION property=<id> replay=<path>` was printed), 2 = tool error / timeout (no verdict)."""
import json, os, re, subprocess, sys, time, shutil, hashlib

ROOT = os.path.dirname(os.path.dirname(os.path.abspath(__file__)))
SPECS = os.path.join(ROOT, "specs")
HARNESS = os.path.join(ROOT, "harness")
VH = os.path.join(HARNESS, "target", "debug", "vh")
WORK = os.path.join(ROOT, "work")
EVID = os.path.join(ROOT, "evidence")
KNOWN = os.path.join(ROOT, "known_findings.txt")

class ToolError(Exception):
    pass

def log(*a):
    print(*a, flush=True)

def workdir(pid):
    d = os.path.join(WORK, pid)
    os.makedirs(d, exist_ok=True)
    return d

def sh(cmd, cwd=None, env=None, timeout=None, check=True):
    e = dict(os.environ)
    if env:
        e.update(env)
    try:
        p = subprocess.run(cmd, cwd=cwd, env=e, timeout=timeout, stdout=subprocess.PIPE,
                           stderr=subprocess.STDOUT, text=True, errors="replace")
    except subprocess.TimeoutExpired as ex:
        raise ToolError("timeout after %ss: %s" % (timeout, " ".join(cmd[:6])))
    if check and p.returncode != 0:
        raise ToolError("command failed (%d): %s\n%s" % (p.returncode, " ".join(cmd[:8]), p.stdout[-4000:]))
    return p

# ------------------------------------------------------------------ harness

def build_harness():
    """Rebuild the harness (and with it rs-matter from /repo's current working tree, hooks on)."""
    t = time.time()
    env = {"CARGO_NET_OFFLINE": "true"}
    p = sh(["cargo", "build", "--offline"], cwd=HARNESS, env=env, timeout=3600, check=False)
    if p.returncode != 0:
        raise ToolError("harness build failed:\n" + p.stdout[-6000:])
    return time.time() - t

def harness(args, timeout=1800, env=None):
    """Run the harness binary; returns the parsed JSON summary printed on its last stdout line."""
    p = sh([VH] + [str(a) for a in args], cwd=ROOT, timeout=timeout, env=env, check=False)
    if p.returncode != 0:
        raise ToolError("harness %s exited %d:\n%s" % (args[0], p.returncode, p.stdout[-4000:]))
    lines = [l for l in p.stdout.strip().splitlines() if l.startswith("{")]
    if not lines:
        raise ToolError("harness %s printed no summary:\n%s" % (args[0], p.stdout[-2000:]))
    return json.loads(lines[-1])

# ------------------------------------------------------------------ TLC

TLC_JAR = "/opt/veriftools/tla/tla2tools.jar"

def _tlc_cmd(module, cfg, metadir, workers, extra):
    return ["tlc", "-workers", str(workers), "-metadir", metadir, "-cleanup", "-noGenerateSpecTE",
            "-config", cfg] + extra + [module]

def tlc_mc(pid, module, cfg, workers=4, timeout=900, tag=None):
    """Exhaustive model checking. Returns dict(ok, generated, distinct, depth, violated, out)."""
    tag = tag or os.path.splitext(cfg)[0]
    metadir = os.path.join(workdir(pid), "meta_" + tag)
    shutil.rmtree(metadir, ignore_errors=True)
    t = time.time()
    p = sh(_tlc_cmd(module, cfg, metadir, workers, []), cwd=SPECS, timeout=timeout, check=False)
    out = p.stdout
    shutil.rmtree(metadir, ignore_errors=True)
    m = re.search(r"(\d+) states generated, (\d+) distinct states found, (\d+) states left on queue", out)
    res = {"cfg": cfg, "module": module, "wall_s": round(time.time() - t, 1),
           "generated": int(m.group(1)) if m else 0, "distinct": int(m.group(2)) if m else 0,
           "left": int(m.group(3)) if m else -1}
    d = re.search(r"depth of the complete state graph search is (\d+)", out)
    res["depth"] = int(d.group(1)) if d else 0
    v = re.search(r"Error: Invariant (\w+) is violated", out) or re.search(r"Error: (Temporal properties were violated|Deadlock reached|Action property \w+ is violated)", out)
    res["violated"] = v.group(1) if v else None
    res["ok"] = (p.returncode == 0 and m is not None and res["left"] == 0 and v is None)
    if not res["ok"] and v is None:
        raise ToolError("TLC failed on %s/%s (exit %d):\n%s" % (module, cfg, p.returncode, out[-3000:]))
    res["out_tail"] = out[-3000:]
    return res

_REPLAY = re.compile(r'^<<"REPLAY", "(.*)">>\s*$')

def _unquote_tla(s):
    # TLC prints the string with \" and \\ escapes
    return json.loads('"' + s + '"')

def tlc_sim(pid, module, cfg, num, depth, seed, timeout=900, tag=None, workers=1):
    """Behaviour generation by simulation: collects the JSON payload of every <<"REPLAY", json>> line."""
    tag = tag or os.path.splitext(cfg)[0]
    metadir = os.path.join(workdir(pid), "meta_" + tag)
    shutil.rmtree(metadir, ignore_errors=True)
    extra = ["-simulate", "num=%d" % num, "-depth", str(depth), "-seed", str(seed)]
    p = sh(_tlc_cmd(module, cfg, metadir, workers, extra), cwd=SPECS, timeout=timeout, check=False)
    shutil.rmtree(metadir, ignore_errors=True)
    out = p.stdout
    beh = []
    for line in out.splitlines():
        m = _REPLAY.match(line)
        if m:
            beh.append(json.loads(_unquote_tla(m.group(1))))
    if re.search(r"Error: Invariant (\w+) is violated", out):
        raise ToolError("generator spec violates its own invariant:\n" + out[-3000:])
    if p.returncode != 0 and not beh:
        raise ToolError("TLC simulation failed (%d):\n%s" % (p.returncode, out[-3000:]))
    m = re.search(r"The number of states generated: (\d+)", out)
    return beh, (int(m.group(1)) if m else 0)

def tlc_collect(pid, module, cfg, workers=4, timeout=900, tag=None):
    """Exhaustive run of a generator spec that prints <<"REPLAY", json>> lines (one per behaviour/vector)."""
    tag = tag or os.path.splitext(cfg)[0]
    metadir = os.path.join(workdir(pid), "meta_" + tag)
    shutil.rmtree(metadir, ignore_errors=True)
    p = sh(_tlc_cmd(module, cfg, metadir, workers, []), cwd=SPECS, timeout=timeout, check=False)
    shutil.rmtree(metadir, ignore_errors=True)
    out = p.stdout
    beh = []
    for line in out.splitlines():
        m = _REPLAY.match(line)
        if m:
            beh.append(json.loads(_unquote_tla(m.group(1))))
    m = re.search(r"(\d+) states generated, (\d+) distinct states found, (\d+) states left on queue", out)
    if p.returncode != 0 or not m:
        raise ToolError("TLC generator run failed (%d):\n%s" % (p.returncode, out[-3000:]))
    return beh, int(m.group(1)), int(m.group(2))

_REJ = re.compile(r'^<<"REJECTED", (\d+), "(.*)">>')

def tlc_trace(pid, module, cfg, trace_path, timeout=900, tag="trace", extra_env=None):
    """Trace validation. Returns dict(accepted, states, rejected_at (1-based event index), event)."""
    metadir = os.path.join(workdir(pid), "meta_" + tag)
    shutil.rmtree(metadir, ignore_errors=True)
    env = {"TRACE": trace_path,
           "JAVA_TOOL_OPTIONS": "-Xss1g -Xmx4g -Dtlc2.tool.queue.IStateQueue=StateDeque"}
    if extra_env:
        env.update(extra_env)
    p = sh(_tlc_cmd(module, cfg, metadir, 1, []), cwd=SPECS, env=env, timeout=timeout, check=False)
    shutil.rmtree(metadir, ignore_errors=True)
    out = p.stdout
    m = re.search(r"(\d+) states generated, (\d+) distinct states found", out)
    states = int(m.group(2)) if m else 0
    rej = None
    for line in out.splitlines():
        r = _REJ.match(line)
        if r:
            rej = (int(r.group(1)), json.loads(_unquote_tla(r.group(2))))
    if rej:
        return {"accepted": False, "states": states, "rejected_at": rej[0], "event": rej[1]}
    if p.returncode == 0 and m:
        return {"accepted": True, "states": states}
    raise ToolError("trace validation tool failure (%d):\n%s" % (p.returncode, out[-3000:]))

def read_ndjson(path):
    with open(path) as f:
        return [json.loads(l) for l in f if l.strip()]

def write_ndjson(path, rows):
    with open(path, "w") as f:
        for r in rows:
            f.write(json.dumps(r, separators=(",", ":")) + "\n")

def split_runs(events):
    """Split a trace into runs at {"ev":"Reset"} events (the Reset opens its run)."""
    runs, cur = [], []
    for e in events:
        if e.get("ev") == "Reset" and cur:
            runs.append(cur)
            cur = []
        cur.append(e)
    if cur:
        runs.append(cur)
    return runs

def validate_runs(pid, module, cfg, trace_path, max_rejections=25, timeout=900, extra_env=None):
    """Validate a multi-run trace; on a rejection, record it, cut the offending run out and go on so
    that the rest of the trace is still checked. Returns (states, n_runs, rejections) where each
    rejection is dict(run_index, run (events), at (index inside the run), event)."""
    events = read_ndjson(trace_path)
    runs = split_runs(events)
    alive = list(range(len(runs)))
    total_states = 0
    rejections = []
    wd = workdir(pid)
    cur_path = trace_path
    rounds = 0
    while True:
        r = tlc_trace(pid, module, cfg, cur_path, timeout=timeout, extra_env=extra_env)
        total_states += r["states"]
        if r["accepted"]:
            break
        # locate the run containing event number rejected_at (1-based over the concatenation)
        k = r["rejected_at"]
        pos = 0
        hit = None
        for ri in alive:
            if pos < k <= pos + len(runs[ri]):
                hit = (ri, k - pos)
                break
            pos += len(runs[ri])
        if hit is None:
            raise ToolError("cannot locate rejected event %d" % k)
        rejections.append({"run_index": hit[0], "run": runs[hit[0]], "at": hit[1], "event": r["event"]})
        alive.remove(hit[0])
        rounds += 1
        if rounds >= max_rejections or not alive:
            break
        cur_path = os.path.join(wd, "trace_rest_%d.ndjson" % rounds)
        write_ndjson(cur_path, [e for ri in alive for e in runs[ri]])
    return total_states, len(runs), rejections

# ------------------------------------------------------------------ known findings

def known_findings(pid):
    """Lines of known_findings.txt for property pid: list of dict(status, signature, text)."""
    res = []
    if not os.path.exists(KNOWN):
        return res
    for line in open(KNOWN):
        line = line.strip()
        if not line or line.startswith("#"):
            continue
        m = re.match(r"^(open|fixed): property=(\w+) (.*)$", line)
        if not m or m.group(2) != pid:
            continue
        rest = m.group(3)
        sig = None
        sm = re.match(r"^signature=(\S+) (.*)$", rest)
        if sm:
            sig, rest = sm.group(1), sm.group(2)
        res.append({"status": m.group(1), "signature": sig, "text": rest})
    return res

# ------------------------------------------------------------------ result / evidence

class Check:
    def __init__(self, pid, tier, seed, level="model_checking"):
        self.pid, self.tier, self.seed, self.level = pid, tier, seed, level
        self.t0 = time.time()
        self.cov = {"samples": []}
        self.assumptions = []
        self.violations = []      # list of (signature, description, replay dict)
        self.known = [k for k in known_findings(pid) if k["status"] == "open"]
        self.known_seen = {}
        self.wd = workdir(pid)
        for f in os.listdir(self.wd):
            if f.startswith("violation-"):
                os.remove(os.path.join(self.wd, f))

    def violation(self, signature, what, replay):
        """Report a property violation observed on the real code. Known (open) findings are matched by
        signature and only echoed; anything else becomes a VIOLATION line."""
        for k in self.known:
            if k["signature"] == signature:
                if signature not in self.known_seen:
                    self.known_seen[signature] = k
                    log("KNOWN-FINDING: property=%s %s" % (self.pid, k["text"]))
                return
        path = os.path.join(self.wd, "violation-%d.json" % len(self.violations))
        head = sh(["git", "-C", "/repo", "rev-parse", "HEAD"], check=False).stdout.strip()
        with open(path, "w") as f:
            json.dump({"property": self.pid, "tier": self.tier, "seed": self.seed, "signature": signature,
                       "what": what, "repo_head": head, **replay}, f, indent=1)
        self.violations.append((signature, what, path))
        log("VIOLATION property=%s replay=%s" % (self.pid, path))
        log("  signature: %s" % signature)
        log("  what: %s" % what)

    def finish(self):
        cov = self.cov
        cov.setdefault("exhaustive", False)
        if not cov["samples"]:
            cov["samples"] = ["(no sample recorded)"]
        ev = {"property_id": self.pid, "tier": self.tier, "seed": self.seed, "level": self.level,
              "coverage": cov, "assumptions": self.assumptions,
              "wall_s": round(time.time() - self.t0, 1), "violations": len(self.violations),
              "known_findings_seen": sorted(self.known_seen.keys())}
        # checks beyond the listed properties (ids not of the form Cnn) keep their evidence apart
        evdir = EVID if re.fullmatch(r"C\d\d", self.pid) else os.path.join(EVID, "extra")
        os.makedirs(evdir, exist_ok=True)
        with open(os.path.join(evdir, self.pid + ".json"), "w") as f:
            json.dump(ev, f, indent=1)
        if self.violations:
            return 1
        log("OK property=%s tier=%s wall=%.1fs" % (self.pid, self.tier, time.time() - self.t0))
        return 0
