#!/bin/bash
# Runs every registered quick check once (as `vp check` does) and prints one line per check.
cd /verif
(cd harness && CARGO_NET_OFFLINE=true cargo build --offline 2>&1 | tail -1)
for id in $(python3 -c "import json; print(' '.join(c['property_id'] for c in json.load(open('/verif/MANIFEST.json'))['checks']))"); do
  out=$(./bin/check $id --tier quick --no-build 2>&1 | grep -E "^(OK|VIOLATION|TOOL-ERROR)" | head -1)
  echo "$id ${out:-<no verdict>}"
done
