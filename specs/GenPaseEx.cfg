\* exhaustive schedule generator: one initiator, every behaviour of 7 operations
SPECIFICATION Spec
CONSTANTS
  Inits = {1}
  MaxFail = 20
  MaxOps = 7
  Garbles = {0, 3}
  Variant = "fixed"
INVARIANTS SessionOnlyWhileOpen SessionOnlyWithPasscode FailuresCounted RevokedAtLimit EmitAtEnd
CHECK_DEADLOCK FALSE
