--------------------------------- MODULE Pase ---------------------------------
(***************************************************************************)
(* Layer I for C02: the device side of PASE, transcribed from              *)
(* sc/pase/responder.rs (PaseResponder::handle / handle_inner: reserve a   *)
(* session slot, the single "establishment in progress" marker, the        *)
(* window re-check at PBKDFParamRequest and at Pake1, cA verification at   *)
(* Pake3, failure accounting on every Err / Ok(false) exit) and sc/pase.rs *)
(* (open / close / expiry of the commissioning window, record_pake_failure *)
(* with revocation at MaxFail).  The environment: an administrator opening *)
(* and closing the window, time passing, up to two initiators that know or *)
(* do not know the passcode, may garble one of their messages, may stop,   *)
(* and whose messages reach the device one at a time in any interleaving   *)
(* (the harness releases them one by one).                                 *)
(* Variant "orig": Pake3 is processed without looking at the window        *)
(* (the code as found); "fixed": the window is re-checked there too.       *)
(***************************************************************************)
EXTENDS Integers, Sequences, FiniteSets, TLC, Json
CONSTANTS Inits, MaxFail, MaxOps, Variant, Garbles

NoMark == 0
VARIABLES win,      \* [open, fails]
          marker,   \* initiator whose handshake holds the marker, or 0;  stale: 60 s have passed since it was set
          stale,
          dev,      \* per initiator: "none" | "w1" (PBKDFParamResponse sent) | "w3" (Pake2 sent)
          ini,      \* per initiator: [st, pass, garble]   st: "idle" | "m1" | "m2" | "m3" (that message is on its way) | "wait" | "ok" | "fail"
          sess,     \* initiators for which the device holds a PASE session
          created,  \* history of session creations: [i, open, pass, garbled]
          proofs,   \* failed proofs presented to the device while the window was open
          counted,  \* failures the device has counted (over all windows)
          h, nops
vars == <<win, marker, stale, dev, ini, sess, created, proofs, counted, h, nops>>
view == <<win, marker, stale, dev, ini, sess, created, proofs, counted>>

Idle == [st |-> "idle", pass |-> TRUE, garble |-> 0]
Init == /\ win = [open |-> FALSE, fails |-> 0] /\ marker = NoMark /\ stale = FALSE
        /\ dev = [i \in Inits |-> "none"] /\ ini = [i \in Inits |-> Idle]
        /\ sess = {} /\ created = {} /\ proofs = 0 /\ counted = 0 /\ h = <<>> /\ nops = 0
Log(op) == h' = Append(h, op) /\ nops' = nops + 1

\* Pase::record_pake_failure: clears the marker, counts against an open window, revokes it at MaxFail
Failure(w) == IF w.open THEN (IF w.fails + 1 >= MaxFail THEN [open |-> FALSE, fails |-> 0] ELSE [w EXCEPT !.fails = @ + 1]) ELSE w
CountIf(w) == IF w.open THEN 1 ELSE 0

Open == /\ ~win.open /\ win' = [open |-> TRUE, fails |-> 0] /\ Log([op |-> "Open", timeout |-> 900])
        /\ UNCHANGED <<marker, stale, dev, ini, sess, created, proofs, counted>>
Close == /\ win.open /\ win' = [open |-> FALSE, fails |-> 0] /\ Log([op |-> "Close"])
         /\ UNCHANGED <<marker, stale, dev, ini, sess, created, proofs, counted>>
\* an initiator begins an attempt: knows the passcode or not, garbles its g-th message (0 = none)
Start(i, pass, g) == /\ ini[i].st \in {"idle", "ok", "fail"} /\ dev[i] = "none"
                     /\ ini' = [ini EXCEPT ![i] = [st |-> "m1", pass |-> pass, garble |-> g]]
                     /\ Log([op |-> "Pase", i |-> i, pass |-> IF pass THEN "ok" ELSE "bad", garble |-> IF g = 0 THEN <<>> ELSE <<TRUE, g>>, locked |-> TRUE])
                     /\ UNCHANGED <<win, marker, stale, dev, sess, created, proofs, counted>>

MarkerFor(i) == marker = i \/ marker = NoMark \/ stale
\* the device handles the next message of initiator i
Step(i) ==
  /\ ini[i].st \in {"m1", "m2", "m3"} /\ Log([op |-> "Step", i |-> i])
  /\ LET a == ini[i]  garbled == (a.garble = (CASE a.st = "m1" -> 1 [] a.st = "m2" -> 2 [] OTHER -> 3)) IN
     CASE a.st = "m1" ->       \* PBKDFParamRequest: reserve, marker (new), window, parse
          IF ~(marker = NoMark \/ stale \/ marker = i)
          THEN /\ ini' = [ini EXCEPT ![i].st = "fail"]                                      \* Busy: not a failed proof
               /\ UNCHANGED <<win, marker, stale, dev, sess, created, proofs, counted>>
          ELSE IF ~win.open
          THEN /\ ini' = [ini EXCEPT ![i].st = "wait"] /\ marker' = NoMark /\ stale' = FALSE  \* silently dropped
               /\ UNCHANGED <<win, dev, sess, created, proofs, counted>>
          ELSE IF garbled
          THEN /\ ini' = [ini EXCEPT ![i].st = "wait"] /\ marker' = NoMark /\ stale' = FALSE  \* parse error: counted
               /\ win' = Failure(win) /\ counted' = counted + 1 /\ UNCHANGED <<dev, sess, created, proofs>>
          ELSE /\ marker' = i /\ stale' = FALSE /\ dev' = [dev EXCEPT ![i] = "w1"] /\ ini' = [ini EXCEPT ![i].st = "m2"]
               /\ UNCHANGED <<win, sess, created, proofs, counted>>
       [] a.st = "m2" ->       \* Pake1: marker (same exchange), window re-check, point validation
          IF dev[i] # "w1" THEN /\ ini' = [ini EXCEPT ![i].st = "fail"] /\ UNCHANGED <<win, marker, stale, dev, sess, created, proofs, counted>>
          ELSE IF ~(marker = i /\ ~stale)
          THEN /\ dev' = [dev EXCEPT ![i] = "none"] /\ ini' = [ini EXCEPT ![i].st = "fail"]   \* SessionNotFound / Busy status
               /\ marker' = IF stale THEN NoMark ELSE marker /\ stale' = FALSE
               /\ UNCHANGED <<win, sess, created, proofs, counted>>
          ELSE IF ~win.open
          THEN /\ dev' = [dev EXCEPT ![i] = "none"] /\ ini' = [ini EXCEPT ![i].st = "wait"] /\ marker' = NoMark
               /\ UNCHANGED <<win, stale, sess, created, proofs, counted>>
          ELSE IF garbled
          THEN /\ dev' = [dev EXCEPT ![i] = "none"] /\ ini' = [ini EXCEPT ![i].st = "fail"] /\ marker' = NoMark
               /\ win' = Failure(win) /\ counted' = counted + 1 /\ proofs' = proofs + 1 /\ UNCHANGED <<stale, sess, created>>
          ELSE /\ dev' = [dev EXCEPT ![i] = "w3"] /\ ini' = [ini EXCEPT ![i].st = "m3"]
               /\ UNCHANGED <<win, marker, stale, sess, created, proofs, counted>>
       [] OTHER ->             \* Pake3 (or the initiator's failure report when cB did not verify): marker, verify cA
          IF dev[i] # "w3" THEN /\ ini' = [ini EXCEPT ![i].st = "fail"] /\ UNCHANGED <<win, marker, stale, dev, sess, created, proofs, counted>>
          ELSE IF ~(marker = i /\ ~stale)
          THEN /\ dev' = [dev EXCEPT ![i] = "none"] /\ ini' = [ini EXCEPT ![i].st = "fail"]
               /\ marker' = IF stale THEN NoMark ELSE marker /\ stale' = FALSE
               /\ UNCHANGED <<win, sess, created, proofs, counted>>
          ELSE IF Variant = "fixed" /\ ~win.open
          THEN /\ dev' = [dev EXCEPT ![i] = "none"] /\ ini' = [ini EXCEPT ![i].st = "wait"] /\ marker' = NoMark
               /\ UNCHANGED <<win, stale, sess, created, proofs, counted>>
          ELSE IF a.pass /\ ~garbled
          THEN /\ sess' = sess \cup {i} /\ created' = created \cup {[i |-> i, open |-> win.open, pass |-> a.pass, garbled |-> a.garble # 0]}
               /\ dev' = [dev EXCEPT ![i] = "none"] /\ ini' = [ini EXCEPT ![i].st = "ok"] /\ marker' = NoMark
               /\ UNCHANGED <<win, stale, proofs, counted>>
          ELSE /\ dev' = [dev EXCEPT ![i] = "none"] /\ ini' = [ini EXCEPT ![i].st = "fail"] /\ marker' = NoMark
               /\ win' = Failure(win) /\ counted' = counted + CountIf(win) /\ proofs' = proofs + CountIf(win)
               /\ UNCHANGED <<stale, sess, created>>

\* about 70 s pass: initiators give up, the device's handshakes in progress time out (each is a counted failure),
\* the marker expires
WaitMid == /\ \E i \in Inits : ini[i].st \notin {"idle", "ok", "fail"} \/ dev[i] # "none" \/ marker # NoMark
           /\ LET act == {i \in Inits : dev[i] # "none"}
                  RECURSIVE Rep(_, _)
                  Rep(w, n) == IF n = 0 THEN w ELSE Rep(Failure(w), n - 1) IN
              /\ win' = Rep(win, Cardinality(act))
              /\ counted' = counted + (IF win.open THEN Cardinality(act) ELSE 0)    \* (a revocation half way stops the counting; bounded by MaxFail in the model's runs)
           /\ dev' = [i \in Inits |-> "none"]
           /\ ini' = [i \in Inits |-> IF ini[i].st \in {"idle", "ok", "fail"} THEN ini[i] ELSE [ini[i] EXCEPT !.st = "fail"]]
           /\ marker' = NoMark /\ stale' = FALSE
           /\ Log([op |-> "Wait", ms |-> 70000]) /\ UNCHANGED <<sess, created, proofs>>

Next == /\ nops < MaxOps
        /\ \/ Open \/ Close \/ WaitMid
           \/ \E i \in Inits, p \in BOOLEAN, g \in Garbles : Start(i, p, g)
           \/ \E i \in Inits : Step(i)
Spec == Init /\ [][Next]_vars

(* ---- the property on the model ---- *)
\* SessionOnlyWhileOpen / SessionOnlyWithPasscode
SessionOnlyWhileOpen == \A c \in created : c.open
SessionOnlyWithPasscode == \A c \in created : c.pass /\ ~c.garbled
\* FailuresCounted: every failed proof presented to an open window was counted
FailuresCounted == counted >= proofs
\* RevokedAtLimit: an open window never carries MaxFail failures
RevokedAtLimit == win.open => win.fails < MaxFail

EmitAtEnd == nops = MaxOps => PrintT(<<"REPLAY", ToJson(h)>>)
=============================================================================
