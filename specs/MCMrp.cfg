\* one request/response round, 2 retransmissions, up to 8 deliveries, arbitrary loss and duplication
SPECIFICATION Spec
CONSTANTS
  MaxRetrans = 2
  MaxDeliveries = 8
  Rounds = 1
  MaxOps = 40
VIEW view
INVARIANTS SuccessIsTrue AtMostOnceInOrder RetransIdentical Budget
CHECK_DEADLOCK FALSE
