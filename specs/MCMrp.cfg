\* one request/response round, 2 retransmissions, up to 7 deliveries, one slow send, arbitrary loss and duplication
SPECIFICATION Spec
CONSTANTS
  MaxRetrans = 2
  MaxDeliveries = 7
  Rounds = 1
  MaxSlow = 1
  Recheck = TRUE
  MaxOps = 40
VIEW view
INVARIANTS SuccessIsTrue AtMostOnceInOrder RetransIdentical Budget
CHECK_DEADLOCK FALSE
