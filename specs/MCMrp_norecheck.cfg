\* sensitivity: the sender does not re-check after queueing for the TX buffer - TLC must find a duplicate delivery
\* one request/response round, 2 retransmissions, up to 8 deliveries, arbitrary loss and duplication
SPECIFICATION Spec
CONSTANTS
  MaxRetrans = 2
  MaxDeliveries = 8
  Rounds = 1
  MaxSlow = 1
  Recheck = FALSE
  MaxOps = 40
VIEW view
INVARIANTS SuccessIsTrue AtMostOnceInOrder RetransIdentical Budget
CHECK_DEADLOCK FALSE
