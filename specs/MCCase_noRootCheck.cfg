\* B on fabrics 1 and 2, the attacker is a member of fabric 2 and knows fabric 1's IPK; check left out: noRootCheck
SPECIFICATION Spec
CONSTANTS
  BFabs = {1, 2}
  Leak = TRUE
  Insider = FALSE
  Bug = "noRootCheck"
INVARIANTS RespAuth InitAuth KeyAgreement
CHECK_DEADLOCK FALSE
