----------------------------- MODULE RxSlotProp -----------------------------
(***************************************************************************)
(* Layer P for C10, written from the property text.  One device under test *)
(* and its peer(s).  Observable events (t in ms):                          *)
(*  Inj(kind, s, e, init, rel, t)  the peer's datagram reached the device: *)
(*        kind "data" (secured, on session s / exchange e, with initiator  *)
(*        and reliable flags; the device has that session),                *)
(*        "dataNoSession" (secured, for a session the device does not have *)
(*        (any more)), "unsecStatus" (an unsecured status report that      *)
(*        belongs to no session or exchange)                               *)
(*  DevInit(s, e)  the device's own application opened exchange e on       *)
(*        session s (the device is its initiator) and sent a message on it *)
(*  AppRx(x, role, opening, waited, minit, s, ex, ts, tag, t)  handler x   *)
(*        (opening: this is the message that opened the exchange; waited:  *)
(*        ms the message had been in the device's receive buffer) on the   *)
(*        accepted (role "rsp") - or the device's own application on the   *)
(*        exchange it initiated (role "ini") -, session s, id ex, received *)
(*        a message that was sent on session ts, exchange tag, with        *)
(*        (minit) or without the initiator flag                            *)
(*  Tx(kind, s, e, secured, gone, t) the device sent: "sack" stand-alone   *)
(*        ack (gone = sessions the device has removed by then),            *)
(*        "reply", "status" (status report), "close" (CloseSession),       *)
(*        "other"                                                          *)
(*  ProbeSent(t) / ProbeAnswered(t)  a fresh request after the disturbance *)
(*  End(left, gone)  everything ran out; left = exchange slots still       *)
(*        occupied on the device's live sessions; gone = the sessions the  *)
(*        device has removed on its own                                    *)
(***************************************************************************)
EXTENDS Integers, FiniteSets, Sequences
CONSTANTS TRecover,      \* ms within which a fresh request must be answered after the disturbance
          AcceptDeadline \* ms: a message that opens an exchange and is not accepted by then is discarded (with a margin)

Fresh == [devInit |-> {},           \* <<session, exchange id>> of the exchanges the device itself initiated
          opened |-> {},            \* <<session, exchange id>> for which a secured initiator message arrived
          relOwed |-> {},           \* <<session, exchange id>> on which some message asked for an acknowledgement
          noSess |-> 0,             \* secured datagrams for a session the device never had
          inj |-> [x \in 1..4 |-> 0], \* secured datagrams injected per session
          statusSent |-> 0,         \* unsecured status reports the device sent
          closeSeen |-> {},         \* sessions on which the device sent CloseSession
          probeAt |-> -1, probeOk |-> FALSE]

InjOk(kind, ss, e, init, rel, t, s) == TRUE
AfterInj(kind, ss, e, init, rel, t, s) ==
  [s EXCEPT !.opened = IF kind = "data" /\ init THEN @ \cup {<<ss, e>>} ELSE @,
            !.relOwed = IF kind = "data" /\ rel THEN @ \cup {<<ss, e>>} ELSE @,
            !.noSess = IF kind = "dataNoSession" THEN @ + 1 ELSE @,
            !.inj = IF kind = "data" THEN [@ EXCEPT ![ss] = @ + 1] ELSE @]

\* RightExchangeOnly + OpensOnlyIfAllowed: the message was sent on exactly this session and exchange, and that exchange
\* was opened by an initiator message
\* ... and the role: a message with the initiator flag belongs to an exchange the peer opened (we are its responder),
\* one without it to an exchange we opened - the same id may be in use in both roles on one session
AppRxOk(x, role, opening, waited, minit, ss, ex, ts, tag, t, s) ==
  /\ ts = ss /\ tag = ex
  /\ opening => waited <= AcceptDeadline          \* UnclaimedIsDiscarded: not accepted within the deadline = never delivered
  /\ IF role = "rsp" THEN <<ss, ex>> \in s.opened /\ minit
     ELSE <<ss, ex>> \in s.devInit /\ ~minit
DevInitOk(ss, e, s) == TRUE
AfterDevInit(ss, e, s) == [s EXCEPT !.devInit = @ \cup {<<ss, e>>}]
\* UnknownAnswersDropped: on an exchange no initiator message opened, the device sends nothing but the stand-alone
\* ack a reliable message asked for (or its own CloseSession); an unsecured status report that belongs to nothing is never
\* answered; the (unsecured) SessionNotFound answer is only for a secured message that found no session
RECURSIVE SumOver(_, _)
SumOver(f, S) == IF S = {} THEN 0 ELSE LET x == CHOOSE y \in S : TRUE IN f[x] + SumOver(f, S \ {x})
\* the (unsecured) SessionNotFound answer: at most one per secured datagram that found no session - one for a session the
\* device never had, or one that was still waiting to be read when the device removed its session
TxOk(kind, ss, e, secured, gone, t, s) ==
  /\ (secured /\ <<ss, e>> \notin s.opened /\ e # 900) => ((kind = "sack" /\ <<ss, e>> \in s.relOwed) \/ kind = "close" \/ (kind = "own" /\ <<ss, e>> \in s.devInit))
  /\ kind = "own" => <<ss, e>> \in s.devInit
  /\ (~secured) => (kind = "status" /\ s.statusSent < s.noSess + SumOver(s.inj, gone \cap (1..4)))
AfterTx(kind, ss, e, secured, gone, t, s) ==
  IF ~secured THEN [s EXCEPT !.statusSent = @ + 1]
  ELSE IF kind = "close" THEN [s EXCEPT !.closeSeen = @ \cup {ss}] ELSE s
ProbeSentOk(t, s) == TRUE
AfterProbeSent(t, s) == [s EXCEPT !.probeAt = t, !.opened = @ \cup {<<3, 900>>}]
\* NoWedge: other traffic keeps flowing
ProbeAnsweredOk(t, s) == s.probeAt # -1 /\ t - s.probeAt <= TRecover
AfterProbeAnswered(t, s) == [s EXCEPT !.probeOk = TRUE]
\* UnclaimedIsDiscarded: nothing is left behind, the probe was answered, and a session the device gave up because an
\* exchange could not be closed cleanly was closed with a CloseSession on the wire ("a session close as required")
EndOk(left, gone, s) == left = 0 /\ (s.probeAt # -1 => s.probeOk) /\ (\A g \in gone : g \in s.closeSeen)
=============================================================================
