----------------------------- MODULE RxSlotProp -----------------------------
(***************************************************************************)
(* Layer P for C10, written from the property text.  One device under test *)
(* and its peer.  Observable events (t in ms):                             *)
(*  Inj(kind, e, init, rel, t)  the peer's datagram reached the device:    *)
(*        kind "data" (secured, on exchange e, with initiator / reliable   *)
(*        flags), "dataNoSession" (secured, for a session the device no    *)
(*        longer has), "unsecStatus" (an unsecured status report that      *)
(*        belongs to no session or exchange), "close" (CloseSession)       *)
(*  AppRx(x, ex, tag, t)   handler x, on the exchange it accepted for id   *)
(*        ex, received a message that was sent on exchange tag             *)
(*  Tx(kind, e, secured, t) the device sent: "sack" stand-alone ack,       *)
(*        "reply", "status" (status report), "other"                       *)
(*  ProbeSent(t) / ProbeAnswered(t)  a fresh request after the disturbance *)
(*  End(left)              everything ran out; left = exchange slots still *)
(*        occupied on the device's live sessions                           *)
(***************************************************************************)
EXTENDS Integers, FiniteSets, Sequences
CONSTANT TRecover       \* ms within which a fresh request must be answered after the disturbance

Fresh == [opened |-> {},            \* exchange ids for which a secured initiator message arrived
          relOwed |-> {},           \* exchange ids on which some message asked for an acknowledgement
          noSess |-> 0,             \* secured datagrams for a missing session not answered yet
          closed |-> FALSE,
          probeAt |-> -1, probeOk |-> FALSE]

InjOk(kind, e, init, rel, t, s) == TRUE
AfterInj(kind, e, init, rel, t, s) ==
  [s EXCEPT !.opened = IF kind = "data" /\ init /\ ~s.closed THEN @ \cup {e} ELSE @,
            !.relOwed = IF kind = "data" /\ rel THEN @ \cup {e} ELSE @,
            !.noSess = IF kind = "dataNoSession" THEN @ + 1 ELSE @,
            !.closed = @ \/ kind = "close"]

\* RightExchangeOnly + OpensOnlyIfAllowed
AppRxOk(x, ex, tag, t, s) == tag = ex /\ tag \in s.opened
\* UnknownAnswersDropped: on an exchange no initiator message opened, the device sends nothing but the stand-alone
\* ack a reliable message asked for; an unsecured status report that belongs to nothing is never answered;
\* the (unsecured) SessionNotFound answer is only for a secured message that found no session
TxOk(kind, e, secured, t, s) ==
  /\ (secured /\ e \notin s.opened /\ e # 0) => (kind = "sack" /\ e \in s.relOwed)
  /\ (~secured) => (kind = "status" /\ s.noSess > 0)
AfterTx(kind, e, secured, t, s) == IF ~secured THEN [s EXCEPT !.noSess = @ - 1] ELSE s
ProbeSentOk(t, s) == TRUE
AfterProbeSent(t, s) == [s EXCEPT !.probeAt = t, !.opened = @ \cup {900}]
\* NoWedge: other traffic keeps flowing
ProbeAnsweredOk(t, s) == s.probeAt # -1 /\ t - s.probeAt <= TRecover
AfterProbeAnswered(t, s) == [s EXCEPT !.probeOk = TRUE]
\* UnclaimedIsDiscarded: nothing is left behind, and the probe was answered
EndOk(left, s) == left = 0 /\ (s.probeAt # -1 => s.probeOk)
=============================================================================
