\* unicast windows with a larger window and ring: ring of 64, window 5, histories of 5 counters
SPECIFICATION Spec
CONSTANTS
  B = 8
  W = 5
  K = 2
  Variant = "fixed"
  Senders = {}
  MaxSteps = 5
  Directed = FALSE
  Kinds = {"sec", "plain"}
VIEW view
INVARIANTS Refines TypeOK
CHECK_DEADLOCK FALSE
