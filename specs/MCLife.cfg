\* 2 administrators, 2 fabric slots, 3 incarnations, up to 13 operations; the repaired variant
SPECIFICATION Spec
CONSTANTS
  Ctl = {1, 2}
  MaxIdx = 2
  MaxGen = 3
  MaxOps = 13
  Variant = "fixed"
  StoreFaults = FALSE
VIEW view
INVARIANTS NoOldSessionOnNewFabric NoOldResumptionOnNewFabric NeverStuck RollbackRestores CommittedSurvives
CHECK_DEADLOCK FALSE
