--------------------------- MODULE SubsE2eTrace ---------------------------
(* C13, full stack: Layer P of SubsProp.tla restated on what a real subscriber observes.  A device with attributes
   <<cluster, attr>> carrying version numbers; one controller holding subscriptions s = 1, 2 (real ImClient
   establishment; reports through rs-matter's controller-side ReportDataHandler).
     Change(cl, a, v)                     the attribute now has version v
     SubReq(s, paths, min, max, keep)     subscribe request (paths: <<cl, a>>, -1 = wildcard; keep = FALSE ends the
                                          controller's other subscriptions)
     Prime(s, ..) / PItem(s, cl, a, v)    a message of the priming report / one value in it
     Est(s, id, max)                      SubscribeResponse: established with this id and max interval (seconds)
     Rep(id, n, more, t) / Item(id, ..)   a report message on subscription id, as the controller's handler sees it
     Emit(no, len)                        event number no with len bytes of data occurred (cluster 101)
     PEvent(s, evno, len) / Event(id, evno, len)   an event in the priming report / in a later report; a subscription
                                          with events = TRUE must be told every event exactly once, in order
     Lose(n)                              the next n datagrams of the device are lost (arrival times of reports then say
                                          nothing about when they were sent: MinInterval is not judged after that)
     Quiet(ver, dev_subs, t)              more than the max interval passed undisturbed; current versions; the ids the
                                          device still holds
   Rules: a value is never from the future and never older than what the subscriber was told before; the priming report
   carries every selected attribute; reports respect the min interval and come before the max interval elapses
   (LivenessBeforeMax); at Quiet every live subscriber knows the current version of every attribute it subscribed to
   (NoLostUpdate) and the device still holds the subscription. *)
EXTENDS Integers, Sequences, FiniteSets, TLC, Json, IOUtils
CONSTANTS Clusters, Attrs, TolMs, SlackMs
Rec == ndJsonDeserialize(IOEnv.TRACE)
All == Clusters \X Attrs
Sel(paths) == {p \in All : \E k \in 1..Len(paths) : (paths[k][1] \in {-1, p[1]}) /\ (paths[k][2] \in {-1, p[2]})}
NoSub == [live |-> FALSE, ending |-> FALSE, est |-> FALSE, sel |-> {}, min |-> 0, max |-> 0, id |-> -1, last |-> 0, mid |-> FALSE, got |-> {}, wantEv |-> FALSE, evNext |-> 1, known |-> [p \in All |-> -1]]
VARIABLES i, ver, sub, lossy, emitted      \* emitted: the events that occurred, in order: <<number, length>>
vars == <<i, ver, sub, lossy, emitted>>
Init == i = 1 /\ ver = [p \in All |-> 0] /\ sub = [s \in 1..2 |-> NoSub] /\ lossy = FALSE /\ emitted = <<>>
IsEvent(x) == i <= Len(Rec) /\ Rec[i].ev = x /\ i' = i + 1
R == Rec[i]
P == <<R.cl, R.a>>
ById(id) == {s \in 1..2 : sub[s].live /\ sub[s].est /\ sub[s].id = id}
Reset == IsEvent("Reset") /\ ver' = [p \in All |-> 0] /\ sub' = [s \in 1..2 |-> NoSub] /\ lossy' = FALSE /\ emitted' = <<>>
Emit == IsEvent("Emit") /\ emitted' = Append(emitted, <<R.no, R.len>>) /\ UNCHANGED <<ver, sub, lossy>>
\* the next event this subscriber has not been told yet, with its data
EventOk(s, evno, len) == /\ sub[s].wantEv /\ sub[s].evNext <= Len(emitted)
                         /\ emitted[sub[s].evNext] = <<evno, len>>
PEvent == IsEvent("PEvent") /\ sub[R.s].live /\ ~sub[R.s].est /\ EventOk(R.s, R.evno, R.len)
          /\ sub' = [sub EXCEPT ![R.s].evNext = @ + 1] /\ UNCHANGED <<ver, lossy, emitted>>
Event == IsEvent("Event") /\ UNCHANGED <<ver, lossy, emitted>>
         /\ \E s \in ById(R.id) : EventOk(s, R.evno, R.len) /\ sub' = [sub EXCEPT ![s].evNext = @ + 1]
Change == IsEvent("Change") /\ R.v = ver[P] + 1 /\ ver' = [ver EXCEPT ![P] = R.v] /\ UNCHANGED <<sub, lossy, emitted>>
\* keep = FALSE: the other subscriptions end when the device handles the request - at the latest when it answers it
SubReq == IsEvent("SubReq") /\ UNCHANGED <<ver, lossy, emitted>>
          /\ sub' = [s \in 1..2 |-> IF s = R.s THEN [NoSub EXCEPT !.live = TRUE, !.sel = Sel(R.paths), !.min = R.min, !.wantEv = ("events" \in DOMAIN R /\ R.events)]
                                   ELSE IF ~R.keep THEN [sub[s] EXCEPT !.ending = TRUE] ELSE sub[s]]
Lose == IsEvent("Lose") /\ lossy' = TRUE /\ UNCHANGED <<ver, sub, emitted>>
Prime == IsEvent("Prime") /\ R.malformed = "" /\ sub[R.s].live /\ ~sub[R.s].est /\ UNCHANGED <<ver, sub, lossy, emitted>>
ValueOk(s, p, v) == p \in sub[s].sel /\ v >= 0 /\ v <= ver[p] /\ v >= sub[s].known[p]
\* (C14 on the priming report: every selected attribute exactly once)
PItem == IsEvent("PItem") /\ sub[R.s].live /\ ~sub[R.s].est /\ ValueOk(R.s, P, R.v) /\ P \notin sub[R.s].got
         /\ sub' = [sub EXCEPT ![R.s].known[P] = R.v, ![R.s].got = @ \cup {P}] /\ UNCHANGED <<ver, lossy, emitted>>
Est == IsEvent("Est") /\ sub[R.s].live /\ ~sub[R.s].est
       /\ sub[R.s].got = sub[R.s].sel                                       \* the priming report carried everything
       /\ R.max >= sub[R.s].min
       /\ sub' = [s \in 1..2 |-> IF s = R.s THEN [sub[s] EXCEPT !.est = TRUE, !.id = R.id, !.max = R.max, !.last = R.t]
                                   ELSE IF sub[s].ending THEN NoSub ELSE sub[s]]
       /\ UNCHANGED <<ver, lossy, emitted>>
SubFailed == IsEvent("SubFailed") /\ FALSE /\ UNCHANGED vars                                   \* no schedule of this world makes a subscription fail
Rep == IsEvent("Rep") /\ R.malformed = "" /\ UNCHANGED <<ver, lossy, emitted>>
       /\ \E s \in ById(R.id) :
            /\ (~sub[s].mid /\ ~lossy => R.t + TolMs >= sub[s].last + sub[s].min * 1000)      \* MinInterval
            /\ R.t <= sub[s].last + sub[s].max * 1000 + SlackMs                      \* LivenessBeforeMax
            /\ sub' = [sub EXCEPT ![s].mid = R.more, ![s].last = IF R.more THEN @ ELSE R.t]
Item == IsEvent("Item") /\ UNCHANGED <<ver, lossy, emitted>>
        /\ \E s \in ById(R.id) : ValueOk(s, P, R.v) /\ sub' = [sub EXCEPT ![s].known[P] = R.v]
Quiet == IsEvent("Quiet") /\ UNCHANGED <<ver, sub, lossy, emitted>>
         /\ \A s \in 1..2 : (sub[s].live /\ ~sub[s].ending) =>
              /\ sub[s].est /\ ~sub[s].mid
              /\ \E k \in 1..Len(R.dev_subs) : R.dev_subs[k] = sub[s].id                \* the device still holds it
              /\ \A p \in sub[s].sel : sub[s].known[p] = ver[p]                          \* NoLostUpdate
              /\ sub[s].wantEv => sub[s].evNext = Len(emitted) + 1                       \* ... and every event
              /\ R.t <= sub[s].last + sub[s].max * 1000 + SlackMs                        \* and it is being kept alive
End == IsEvent("End") /\ R.done /\ UNCHANGED <<ver, sub, lossy, emitted>>
Other == i <= Len(Rec) /\ Rec[i].ev \notin {"Reset", "Change", "SubReq", "Lose", "Emit", "PEvent", "Event", "Prime", "PItem", "Est", "SubFailed", "Rep", "Item", "Quiet", "End"} /\ i' = i + 1 /\ UNCHANGED <<ver, sub, lossy, emitted>>
Next == Reset \/ Change \/ SubReq \/ Lose \/ Emit \/ PEvent \/ Event \/ Prime \/ PItem \/ Est \/ SubFailed \/ Rep \/ Item \/ Quiet \/ End \/ Other
Spec == Init /\ [][Next]_vars
TraceAccepted ==
  LET d == TLCGet("stats").diameter IN
  IF d - 1 = Len(Rec) THEN TRUE ELSE Print(<<"REJECTED", d, ToJson(Rec[d])>>, FALSE)
=============================================================================
