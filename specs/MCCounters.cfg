\* ring 32, epoch 3, up to 12 operations with up to 3 crashes, starting from no key / boundaries near the wrap
SPECIFICATION Spec
CONSTANTS
  R = 32
  EPOCH = 3
  Seeds = {5, 30}
  Kinds = {"grp", "evt", "chk"}
  Starts <- StartsNearWrap
  MaxOps = 12
  MaxCrashes = 3
  Deltas = {1, 2, 4}
VIEW view
INVARIANTS Refines
CONSTRAINT WithinLap
CHECK_DEADLOCK FALSE
