---------------------------------- MODULE Tlv ----------------------------------
EXTENDS Integers, Sequences, FiniteSets, TLC, Json
CONSTANT Full      \* TRUE: the whole universe (thorough tier); FALSE: two tag forms on containers (quick tier)
(* C16: reference grammar of Matter TLV (Matter Core specification, appendix A), written from the specification,
   not from the code.  The module is the reference (Bytes / Parse) and the generator of the C16 test inputs. *)
\* A value is a tree; Bytes(e) is its encoding; Parse(b) the reference decoder (value or "malformed").
\* 64-bit quantities never appear as TLC integers: integer payloads and lengths are little-endian byte lists.

\* ---- tags ----
TagCtl(t) == CASE t.f = "anon" -> 0 [] t.f = "ctx" -> 1 [] t.f = "com2" -> 2 [] t.f = "com4" -> 3
               [] t.f = "imp2" -> 4 [] t.f = "imp4" -> 5 [] t.f = "fq6" -> 6 [] t.f = "fq8" -> 7
TagLen(c) == CASE c = 0 -> 0 [] c = 1 -> 1 [] c = 2 -> 2 [] c = 3 -> 4 [] c = 4 -> 2 [] c = 5 -> 4 [] c = 6 -> 6 [] c = 7 -> 8
TagForm(c) == CASE c = 0 -> "anon" [] c = 1 -> "ctx" [] c = 2 -> "com2" [] c = 3 -> "com4" [] c = 4 -> "imp2" [] c = 5 -> "imp4" [] c = 6 -> "fq6" [] c = 7 -> "fq8"
\* ---- element types (low 5 bits of the control byte) ----
\* kind, width-of-value-or-length-field
TypeCode(k, w) ==
  LET wi == CASE w = 1 -> 0 [] w = 2 -> 1 [] w = 4 -> 2 [] w = 8 -> 3 [] OTHER -> 0 IN
  CASE k = "int" -> wi [] k = "uint" -> 4 + wi [] k = "false" -> 8 [] k = "true" -> 9
    [] k = "f32" -> 10 [] k = "f64" -> 11 [] k = "utf8" -> 12 + wi [] k = "bytes" -> 16 + wi
    [] k = "null" -> 20 [] k = "struct" -> 21 [] k = "array" -> 22 [] k = "list" -> 23
IsContainer(k) == k \in {"struct", "array", "list"}
\* little-endian length field of width w for a length n < 2^31 (larger ones only appear in mutated inputs, as byte lists)
LE(n, w) == [i \in 1..w |-> IF i <= 4 THEN (n \div (256 ^ (i - 1))) % 256 ELSE 0]
\* value of a little-endian byte list, or -1 if it does not fit 31 bits
LEVal(bs) == IF \E i \in 1..Len(bs) : i > 4 /\ bs[i] # 0 THEN -1
             ELSE IF Len(bs) >= 4 /\ bs[4] >= 128 THEN -1
             ELSE LET S[i \in 0..Len(bs)] == IF i = 0 THEN 0 ELSE S[i-1] + (IF i <= 4 THEN bs[i] * (256 ^ (i - 1)) ELSE 0) IN S[Len(bs)]

RECURSIVE Bytes(_), BytesSeq(_)
BytesSeq(es) == IF es = <<>> THEN <<>> ELSE Bytes(Head(es)) \o BytesSeq(Tail(es))
Bytes(e) ==
  LET ctl == TagCtl(e.tag) * 32 + TypeCode(e.k, e.w) IN
  <<ctl>> \o e.tag.b \o
  (CASE e.k \in {"int", "uint", "f32", "f64"} -> e.v
     [] e.k \in {"utf8", "bytes"} -> LE(Len(e.v), e.w) \o e.v
     [] IsContainer(e.k) -> BytesSeq(e.ch) \o <<24>>
     [] OTHER -> <<>>)

\* ---- reference parser: returns [ok |-> TRUE, e |-> element, n |-> next position] or [ok |-> FALSE] ----
Bad == [ok |-> FALSE]
RECURSIVE ParseAt(_, _, _), ParseChildren(_, _, _, _)
ParseChildren(b, p, depth, acc) ==
  IF p > Len(b) THEN Bad
  ELSE IF b[p] = 24 THEN [ok |-> TRUE, ch |-> acc, n |-> p + 1]
  ELSE LET r == ParseAt(b, p, depth) IN
       IF ~r.ok THEN Bad ELSE ParseChildren(b, r.n, depth, Append(acc, r.e))
ParseAt(b, p, depth) ==
  IF p > Len(b) \/ depth > 4 THEN Bad ELSE
  LET ctl == b[p]  tc == ctl \div 32  ty == ctl % 32  tl == TagLen(tc) IN
  IF ty > 23 \/ (p + tl > Len(b)) THEN Bad ELSE
  LET tag == [f |-> TagForm(tc), b |-> SubSeq(b, p + 1, p + tl)]
      q == p + 1 + tl      \* first byte after the tag
      fixed(k, w) == IF q + w - 1 > Len(b) THEN Bad
                     ELSE [ok |-> TRUE, n |-> q + w, e |-> [tag |-> tag, k |-> k, w |-> w, v |-> SubSeq(b, q, q + w - 1), ch |-> <<>>]]
      str(k, w) == IF q + w - 1 > Len(b) THEN Bad
                   ELSE LET n == LEVal(SubSeq(b, q, q + w - 1)) IN
                        IF n < 0 \/ q + w + n - 1 > Len(b) THEN Bad
                        ELSE IF k = "utf8" /\ \E i \in (q + w)..(q + w + n - 1) : b[i] >= 128 THEN Bad   \* not UTF-8 (a lone byte >= 128)
                        ELSE [ok |-> TRUE, n |-> q + w + n, e |-> [tag |-> tag, k |-> k, w |-> w, v |-> SubSeq(b, q + w, q + w + n - 1), ch |-> <<>>]]
      simple(k) == [ok |-> TRUE, n |-> q, e |-> [tag |-> tag, k |-> k, w |-> 0, v |-> <<>>, ch |-> <<>>]]
      cont(k) == LET r == ParseChildren(b, q, depth + 1, <<>>) IN
                 IF ~r.ok THEN Bad ELSE [ok |-> TRUE, n |-> r.n, e |-> [tag |-> tag, k |-> k, w |-> 0, v |-> <<>>, ch |-> r.ch]]
      W(i) == CASE i = 0 -> 1 [] i = 1 -> 2 [] i = 2 -> 4 [] i = 3 -> 8 IN
  CASE ty <= 3 -> fixed("int", W(ty)) [] ty <= 7 -> fixed("uint", W(ty - 4))
    [] ty = 8 -> simple("false") [] ty = 9 -> simple("true")
    [] ty = 10 -> fixed("f32", 4) [] ty = 11 -> fixed("f64", 8)
    [] ty <= 15 -> str("utf8", W(ty - 12)) [] ty <= 19 -> str("bytes", W(ty - 16))
    [] ty = 20 -> simple("null") [] ty = 21 -> cont("struct") [] ty = 22 -> cont("array") [] ty = 23 -> cont("list")
Parse(b) == LET r == ParseAt(b, 1, 0) IN IF r.ok /\ r.n = Len(b) + 1 THEN [ok |-> TRUE, e |-> r.e] ELSE Bad

\* ---- palette ----
Tags == { [f |-> "anon", b |-> <<>>], [f |-> "ctx", b |-> <<1>>], [f |-> "com2", b |-> <<52, 18>>], [f |-> "fq6", b |-> <<241, 255, 237, 222, 170, 0>>] }
Mk(t, k, w, v) == [tag |-> t, k |-> k, w |-> w, v |-> v, ch |-> <<>>]
Scalars(T) == UNION { { Mk(t, "uint", 1, <<255>>), Mk(t, "int", 2, <<0, 128>>), Mk(t, "uint", 8, <<255, 255, 255, 255, 255, 255, 255, 255>>),
                        Mk(t, "true", 0, <<>>), Mk(t, "null", 0, <<>>), Mk(t, "utf8", 1, <<97, 98>>), Mk(t, "bytes", 2, <<1, 2, 3>>), Mk(t, "bytes", 4, <<>>), Mk(t, "bytes", 8, <<7, 8>>),
                        Mk(t, "int", 1, <<128>>), Mk(t, "int", 8, <<0, 0, 0, 0, 0, 0, 0, 128>>), Mk(t, "uint", 4, <<0, 0, 1, 0>>), Mk(t, "false", 0, <<>>),
                        Mk(t, "f32", 4, <<0, 0, 128, 63>>), Mk(t, "utf8", 2, <<>>) } : t \in T }
Conts(T, Ch) == { [tag |-> t, k |-> k, w |-> 0, v |-> <<>>, ch |-> c] : t \in T, k \in {"struct", "array", "list"}, c \in Ch }
Seqs(S) == {<<>>} \cup {<<a>> : a \in S} \cup {<<a, b>> : a \in S, b \in S}
L1 == Scalars({[f |-> "ctx", b |-> <<1>>], [f |-> "anon", b |-> <<>>]})
Inner == Conts({[f |-> "ctx", b |-> <<1>>]}, Seqs(Scalars({[f |-> "anon", b |-> <<>>]})))
SmallL1 == { Mk([f |-> "ctx", b |-> <<1>>], "uint", 1, <<255>>), Mk([f |-> "anon", b |-> <<>>], "bytes", 8, <<7, 8>>), Mk([f |-> "ctx", b |-> <<1>>], "utf8", 1, <<97, 98>>),
             Mk([f |-> "anon", b |-> <<>>], "null", 0, <<>>), Mk([f |-> "ctx", b |-> <<1>>], "int", 2, <<0, 128>>),
             Mk([f |-> "ctx", b |-> <<2>>], "uint", 8, <<255, 255, 255, 255, 255, 255, 255, 255>>), Mk([f |-> "anon", b |-> <<>>], "true", 0, <<>>),
             Mk([f |-> "ctx", b |-> <<3>>], "bytes", 2, <<1, 2, 3>>), Mk([f |-> "anon", b |-> <<>>], "f32", 4, <<0, 0, 128, 63>>),
             Mk([f |-> "ctx", b |-> <<1>>], "bytes", 4, <<>>) }
\* strings around the limit of the one-byte length field (255 / 256 / 257 bytes), each with the shortest length field that holds it
Rep(x, n) == [j \in 1..n |-> x]
Long == { Mk([f |-> "ctx", b |-> <<1>>], "bytes", 1, Rep(7, 255)), Mk([f |-> "ctx", b |-> <<1>>], "bytes", 2, Rep(7, 256)), Mk([f |-> "anon", b |-> <<>>], "bytes", 2, Rep(9, 257)),
          Mk([f |-> "anon", b |-> <<>>], "utf8", 1, Rep(97, 255)), Mk([f |-> "ctx", b |-> <<2>>], "utf8", 2, Rep(98, 256)), Mk([f |-> "ctx", b |-> <<2>>], "utf8", 2, Rep(99, 257)) }
Universe == Long \cup IF Full
            THEN Scalars(Tags) \cup Conts(Tags, Seqs(L1)) \cup Conts({[f |-> "anon", b |-> <<>>]}, {<<i, s>> : i \in Inner, s \in Scalars({[f |-> "ctx", b |-> <<2>>]})})
            ELSE Scalars(Tags) \cup Conts({[f |-> "anon", b |-> <<>>], [f |-> "ctx", b |-> <<1>>]}, Seqs(SmallL1))
                 \cup Conts({[f |-> "anon", b |-> <<>>]}, {<<i, s>> : i \in {c \in Inner : c.k = "struct" /\ Len(c.ch) = 1}, s \in {Mk([f |-> "ctx", b |-> <<2>>], "uint", 1, <<255>>)}})

\* ---- mutations of a valid encoding ----
Trunc(b) == {SubSeq(b, 1, n) : n \in 0..(Len(b) - 1)}
SetByte(b, i, x) == [b EXCEPT ![i] = x]
Mut(b) == Trunc(b) \cup UNION {{SetByte(b, i, x) : x \in {0, 1, 24, 255, (b[i] + 1) % 256}} : i \in 1..Len(b)} \cup {b \o <<24>>, b \o <<0>>}

VARIABLES e, phase
Init == e \in Universe /\ phase = 0
Next == phase = 0 /\ phase' = 1 /\ UNCHANGED e
RoundTrip == LET r == Parse(Bytes(e)) IN r.ok /\ r.e = e
\* one output line per value: the encoding, and the reference verdict for every mutation
Spec == Init /\ [][Next]_<<e, phase>>
\* (the long strings go without mutations: thousands of them would say nothing new)
Emit == phase = 1 => PrintT(<<"REPLAY", ToJson([bytes |-> Bytes(e), tree |-> e, muts |-> IF Len(Bytes(e)) > 100 THEN {} ELSE {[b |-> m, ok |-> Parse(m).ok] : m \in Mut(Bytes(e))}])>>)
=============================================================================
