------------------------------ MODULE BtpProp ------------------------------
(***************************************************************************)
(* Layer P for C18.  Written from the property text.  Ends: "I" (initiator,*)
(* GATT central) and "R" (responder).  Observable events:                  *)
(*   Submit(e, id)            message id handed to the transport at end e   *)
(*   Tx(e, hs, seq, ack, w, t) e put a segment on the wire (hs: handshake;  *)
(*                            seq / ack = -1 when absent; w = window in a   *)
(*                            handshake response, else 0)                   *)
(*   Rx(e, res, ack)          the next segment travelling to e was handed   *)
(*                            to it: res = "ok" | "err"                     *)
(*   Fetch(e, id)             e's application got a message; id = the id of *)
(*                            the submitted message with exactly these      *)
(*                            bytes, -1 if there is none                    *)
(*   Tick(t)                  time advanced to t, both ends polled dry      *)
(*   Inject(e, cls, viol, res) a hostile segment of class cls was handed to *)
(*                            e; viol: it violates the protocol in the      *)
(*                            current state; res = "ok" | "err"             *)
(*   Panic(e)                 a call into end e panicked                    *)
(*   End                      both ends polled dry, all timers ran out      *)
(***************************************************************************)
EXTENDS Integers, Sequences
CONSTANTS AckTimeout, Slack     \* seconds

Ends == {"I", "R"}
Peer(e) == IF e = "I" THEN "R" ELSE "I"
Fresh == [submitted |-> [e \in Ends |-> <<>>],     \* ids submitted at e, in order
          fetched   |-> [e \in Ends |-> 0],        \* how many of Peer(e)'s messages e's application got
          W         |-> 0,                         \* negotiated window (0 = no handshake response yet)
          lastSent  |-> [e \in Ends |-> 255],      \* last sequence number e put on the wire
          lastAcked |-> [e \in Ends |-> 255],      \* highest of e's sequence numbers acknowledged to e
          pendSince |-> [e \in Ends |-> -1],       \* time of the oldest segment handed to e it has not acknowledged
          hostile   |-> FALSE]

SubmitOk(e, id, s) == TRUE
AfterSubmit(e, id, s) == [s EXCEPT !.submitted[e] = Append(@, id)]

InFlight(e, s) == (s.lastSent[e] - s.lastAcked[e]) % 256
TxOk(e, hs, seq, ack, w, t, s) ==
  \/ hs
  \/ /\ seq = (s.lastSent[e] + 1) % 256                          \* sequence numbers go up by one
     /\ s.W > 0 /\ (seq - s.lastAcked[e]) % 256 <= s.W          \* never more unacknowledged segments than the window
AfterTx(e, hs, seq, ack, w, t, s) ==
  IF hs THEN (IF e = "R" THEN [s EXCEPT !.W = w, !.lastSent["R"] = 0]      \* the handshake response is sequence number 0
                          ELSE s)
  ELSE [s EXCEPT !.lastSent[e] = seq, !.pendSince[e] = IF ack # -1 THEN -1 ELSE @]

\* between well-behaved ends a segment is never refused
RxOk(e, res, ack, seq, t, s) == s.hostile \/ res = "ok"
AfterRx(e, res, ack, seq, t, s) ==
  IF res # "ok" THEN s
  ELSE [s EXCEPT !.lastAcked[e] = IF ack # -1 THEN ack ELSE @,
                 !.pendSince[e] = IF seq # -1 /\ @ = -1 THEN t ELSE @]

\* exactly once, unmodified, in order: the k-th message e's application gets is the k-th one submitted at the peer
FetchOk(e, id, s) == /\ s.fetched[e] < Len(s.submitted[Peer(e)])
                     /\ id = s.submitted[Peer(e)][s.fetched[e] + 1]
AfterFetch(e, id, s) == [s EXCEPT !.fetched[e] = @ + 1]

\* an acknowledgement goes out before the deadline - unless the end's own send window is exhausted
TickOk(t, s) == \A e \in Ends :
   s.pendSince[e] = -1 \/ t - s.pendSince[e] <= AckTimeout + Slack \/ (s.W > 0 /\ InFlight(e, s) >= s.W)

\* a segment that violates the protocol is refused with an error
InjectOk(e, cls, viol, res, s) == viol => res = "err"
AfterInject(e, cls, viol, res, s) == [s EXCEPT !.hostile = TRUE]

PanicOk(e, s) == FALSE       \* never
\* between well-behaved ends, once traffic has stopped and all timers ran out: everything handed in has come out
EndOk(s) == s.hostile \/ \A e \in Ends : s.fetched[e] = Len(s.submitted[Peer(e)])
=============================================================================
