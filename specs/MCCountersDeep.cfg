\* ring 32, epoch 3, up to 16 operations with up to 4 crashes, starting from no key / boundaries near the wrap
SPECIFICATION Spec
CONSTANTS
  R = 32
  EPOCH = 3
  Seeds = {5, 30}
  Kinds = {"grp", "evt", "chk"}
  Starts <- StartsNearWrap
  MaxOps = 16
  MaxCrashes = 4
  Deltas = {1, 2, 4}
VIEW view
INVARIANTS Refines
CONSTRAINT WithinLap
CHECK_DEADLOCK FALSE
