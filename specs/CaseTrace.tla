----------------------------- MODULE CaseTrace -----------------------------
(* Trace validation for C01 against Layer P (CaseProp).  {"ev":"Reset"} starts a new run. *)
EXTENDS CaseProp, TLC, Json, IOUtils
Rec == ndJsonDeserialize(IOEnv.TRACE)
VARIABLES i, st
vars == <<i, st>>
Init == i = 1 /\ st = Fresh
IsEvent(x) == i <= Len(Rec) /\ Rec[i].ev = x /\ i' = i + 1
R == Rec[i]
Reset   == IsEvent("Reset") /\ st' = Fresh
Start   == IsEvent("Start") /\ st' = AfterStart(R.i, R.kind, R.member, R.peer_ok, R.fabric, R.g_dir, R.g_nth, R.t, st)
Hs      == IsEvent("Hs") /\ st' = AfterHs(R.src, R.dst, R.opcode, st)
DevSess == IsEvent("DevSess") /\ (IF R.what = "added" /\ R.mode = "case"
                                  THEN DevSessOk(R.what, R.mode, R.reserved, R.i, R.fab, R.peer_node, R.cats, R.enc_fp, R.dec_fp, st)
                                       /\ st' = AfterDevSess(R.what, R.mode, R.reserved, R.i, R.fab, R.peer_node, R.cats, R.enc_fp, R.dec_fp, st)
                                  ELSE UNCHANGED st)
IniSess == IsEvent("IniSess") /\ IniSessOk(R.i, R.mode, R.fab, R.peer_node, R.enc_fp, R.dec_fp, st) /\ st' = AfterIniSess(R.i, R.mode, R.fab, R.peer_node, R.enc_fp, R.dec_fp, st)
Other   == i <= Len(Rec) /\ Rec[i].ev \notin {"Reset", "Start", "Hs", "DevSess", "IniSess"} /\ i' = i + 1 /\ UNCHANGED st
Next == Reset \/ Start \/ Hs \/ DevSess \/ IniSess \/ Other
Spec == Init /\ [][Next]_vars
TraceAccepted ==
  LET d == TLCGet("stats").diameter IN
  IF d - 1 = Len(Rec) THEN TRUE ELSE Print(<<"REJECTED", d, ToJson(Rec[d])>>, FALSE)
=============================================================================
