------------------------------ MODULE Rendezvous ------------------------------
(***************************************************************************)
(* Layer I for C20 (rendezvous part): the single-slot mDNS resolve / browse *)
(* rendezvous between callers (Transport::resolve via Exchange::initiate /  *)
(* resolve_operational_addrs, Transport::browse_commissionable) and the     *)
(* mDNS responder (wait_mdns_X_request, try_deposit_mdns_X), transcribed    *)
(* from transport.rs: a caller waits for the slot to be Idle, places its    *)
(* request, arms a drop guard, waits for the answer or its timeout; the     *)
(* guard resets the slot on timeout and on cancellation.                    *)
(***************************************************************************)
EXTENDS Integers, Sequences, FiniteSets, TLC, Json
CONSTANTS Callers, MaxOps
VARIABLES slot,     \* [st |-> "Idle" | "Req" | "Fly" | "Res", by |-> caller or 0]
          cal,      \* per caller: "none" | "queued" | "placed" | "ok" | "err"
          h, nops
vars == <<slot, cal, h, nops>>
IdleSlot == [st |-> "Idle", by |-> 0]
Init == slot = IdleSlot /\ cal = [c \in Callers |-> "none"] /\ h = <<>> /\ nops = 0
Log(op) == h' = Append(h, op) /\ nops' = nops + 1

\* the caller's future is created and polled once
Start(c) == /\ cal[c] \in {"none", "ok", "err"} /\ Log([op |-> "Start", c |-> c])
            /\ IF slot.st = "Idle" THEN (slot' = [st |-> "Req", by |-> c] /\ cal' = [cal EXCEPT ![c] = "placed"])
                                  ELSE (UNCHANGED slot /\ cal' = [cal EXCEPT ![c] = "queued"])
\* the caller's future is polled again
Poll(c) == /\ cal[c] \in {"queued", "placed"} /\ Log([op |-> "Poll", c |-> c])
           /\ IF cal[c] = "queued" /\ slot.st = "Idle" THEN (slot' = [st |-> "Req", by |-> c] /\ cal' = [cal EXCEPT ![c] = "placed"])
              ELSE IF cal[c] = "placed" /\ slot = [st |-> "Res", by |-> c] THEN (slot' = IdleSlot /\ cal' = [cal EXCEPT ![c] = "ok"])
              ELSE UNCHANGED <<slot, cal>>
\* the responder takes the request / deposits an answer for the request in flight
Pick == slot.st = "Req" /\ slot' = [slot EXCEPT !.st = "Fly"] /\ Log([op |-> "Pick"]) /\ UNCHANGED cal
Deposit == slot.st = "Fly" /\ slot' = [slot EXCEPT !.st = "Res"] /\ Log([op |-> "Deposit"]) /\ UNCHANGED cal
\* the caller's timeout fires (only once its request is placed), or its future is dropped
Timeout(c) == /\ cal[c] = "placed" /\ Log([op |-> "Timeout", c |-> c])
              /\ IF slot = [st |-> "Res", by |-> c] THEN (slot' = IdleSlot /\ cal' = [cal EXCEPT ![c] = "ok"])    \* the answer wins the race
                 ELSE (slot' = IdleSlot /\ cal' = [cal EXCEPT ![c] = "err"])
Cancel(c) == /\ cal[c] \in {"queued", "placed"} /\ Log([op |-> "Cancel", c |-> c])
             /\ slot' = (IF cal[c] = "placed" THEN IdleSlot ELSE slot) /\ cal' = [cal EXCEPT ![c] = "none"]
Next == /\ nops < MaxOps
        /\ \/ \E c \in Callers : Start(c) \/ Poll(c) \/ Timeout(c) \/ Cancel(c)
           \/ Pick \/ Deposit
Spec == Init /\ [][Next]_vars
\* NoWedge: the slot is occupied only on behalf of a caller that is still there
NoWedge == slot.st # "Idle" => (slot.by \in Callers /\ cal[slot.by] = "placed")
EmitAtEnd == nops = MaxOps => PrintT(<<"REPLAY", ToJson(h)>>)
=============================================================================
