\* sensitivity: the recovery keeps the cluster cursor - must violate CompleteAtEnd
SPECIFICATION Spec
CONSTANTS
  EPs = {0, 1, 2, 3}
  MaxChanges = 1
  Requests <- ReqSet
  Variant = "staleCluster"
VIEW view
INVARIANTS Refines CompleteAtEnd
CHECK_DEADLOCK FALSE
