\* every interleaving of two callers and the responder up to 7 operations (also the schedule generator)
SPECIFICATION Spec
CONSTANTS
  Callers = {1, 2}
  MaxOps = 7
INVARIANTS NoWedge EmitAtEnd
CHECK_DEADLOCK FALSE
