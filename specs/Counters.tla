----------------------------- MODULE Counters -----------------------------
(***************************************************************************)
(* Layer I for C12: the three durable counters of rs-matter, transcribed   *)
(* from the code.                                                          *)
(*  grp: transport/session.rs  Sessions::{load_persist, resume_global_..., *)
(*       get_or_init_..., reserve_global_group_data_ctr,                   *)
(*       advance_group_data_ctr} + transport/exchange.rs initiate_group    *)
(*       (store the moved boundary, then open the exchange; the value goes *)
(*       on the wire later, when the application sends).                   *)
(*  evt: im/events.rs EventsInner::{load_persist, next_event_number}       *)
(*  chk: sc/checkin.rs CheckInCounter::{new, next, advance, advance_by,    *)
(*       persist_value} driven by the application protocol of              *)
(*       dm/clusters/icd_mgmt.rs Icd::{load_counter, persist_counter,      *)
(*       next_counter, advance_counter, invalidate_counter}.               *)
(* A crash (power cut) can happen between any two steps.                   *)
(***************************************************************************)
EXTENDS Integers, FiniteSets
CONSTANTS R,        \* ring size of the counter (power of two in the code; small here)
          EPOCH,    \* distance between stored boundaries
          Seeds     \* possible random seeds on first use
None == -1
Mask(x) == x % R
\* Sessions::advance_group_data_ctr: stay in range, skip 0
AdvG(v, d) == LET n == Mask(v + d) IN IF n = 0 THEN 1 ELSE n

(* ---- grp ---- mem = [ctr, bnd, owe, pend]; owe = reserved value whose boundary is not stored yet *)
GInitMem == [ctr |-> 0, bnd |-> 0, owe |-> None, oweB |-> None, pend |-> {}]
GBoot(durable) == IF durable = None THEN GInitMem
                  ELSE LET s == IF durable = 0 THEN 1 ELSE durable IN [GInitMem EXCEPT !.ctr = s, !.bnd = s]
\* reserve_global_group_data_ctr, given the seed drawn if this is the first use
GReserve(m, seed) ==
  LET c0 == IF m.ctr = 0 THEN seed ELSE m.ctr
      b0 == IF m.ctr = 0 THEN seed ELSE m.bnd
      ext == c0 = b0
      b1 == IF ext THEN AdvG(c0, EPOCH) ELSE b0
  IN [value |-> c0, toPersist |-> IF ext THEN b1 ELSE None,
      mem |-> [m EXCEPT !.ctr = AdvG(c0, 1), !.bnd = b1]]

(* ---- evt ---- mem = [next] *)
EBoot(durable) == IF durable = None THEN 1 ELSE durable
\* next_event_number: -> [n, toPersist, next]
ENext(next) == [n |-> next,
                toPersist |-> IF next = 1 THEN EPOCH
                              ELSE IF next % EPOCH = 0 THEN next + EPOCH ELSE None,
                next |-> next + 1]

(* ---- chk ---- mem = [value, nextEpoch] *)
CNew(start) == [value |-> start, nextEpoch |-> Mask(start + EPOCH)]
CNext(m) == Mask(m.value + 1)
CAdvance(m) == LET v == Mask(m.value + 1) IN
  IF v = m.nextEpoch THEN [mem |-> [value |-> v, nextEpoch |-> Mask(m.nextEpoch + EPOCH)], toPersist |-> Mask(m.nextEpoch + EPOCH)]
  ELSE [mem |-> [m EXCEPT !.value = v], toPersist |-> None]
CAdvanceBy(m, delta) ==
  LET dist == Mask(m.nextEpoch - m.value)
      v == Mask(m.value + delta) IN
  IF delta >= dist THEN [mem |-> [value |-> v, nextEpoch |-> Mask(v + EPOCH)], toPersist |-> Mask(v + EPOCH)]
  ELSE [mem |-> [m EXCEPT !.value = v], toPersist |-> None]
=============================================================================
