------------------------------- MODULE MCSubs -------------------------------
(***************************************************************************)
(* Exhaustive check that the subscription machinery (Subs) refines Layer P *)
(* (SubsProp), and generator of operation schedules for the replay on the  *)
(* real Subscriptions table.                                               *)
(***************************************************************************)
EXTENDS Subs, Sequences, TLC, Json
CONSTANTS MaxChanges, MaxT, MaxOps, MaxFails, MaxEvents

P == INSTANCE SubsProp
ClusterOfDef(p) == IF p <= 2 THEN 1 ELSE 2

VARIABLES ver,            \* true version of every path
          tab, nextId,    \* change table and next change id (watermark = nextId - 1)
          sub,            \* s -> [st, maxSeen, nextSeen, repAt, retryAt, fails, ctxNow, reads]
          rep,            \* reporter: [phase: "idle" | "pass", now]
          now, nchg, nfail,
          nev,            \* Events::watermark(): number of the last event emitted
          pst, ok,        \* Layer P state and verdict
          nops, h
vars == <<ver, tab, nextId, sub, rep, now, nchg, nfail, nev, pst, ok, nops, h>>
view == <<ver, tab, nextId, sub, rep, now, nchg, nfail, nev, pst, ok>>

NoSub == [st |-> "none", maxSeen |-> 0, nextSeen |-> 0, evSeen |-> 0, evNext |-> 0, evRead |-> FALSE, repAt |-> Never, retryAt |-> -1000, fails |-> 0, ctxNow |-> 0, reads |-> {}]
Init == /\ ver = [p \in Paths |-> 0] /\ tab = {} /\ nextId = 1
        /\ sub = [s \in Subs |-> NoSub] /\ rep = [phase |-> "idle", now |-> 0, ev |-> 0]
        /\ now = 0 /\ nchg = 0 /\ nfail = 0 /\ nev = 0 /\ pst = P!Fresh /\ ok = TRUE /\ nops = 0 /\ h = <<>>

Wm == nextId - 1
InTable == {s \in Subs : sub[s].st = "table"}
InFlight == {s \in Subs : sub[s].st \in {"priming", "reporting"}}
Log(op) == h' = Append(h, op) /\ nops' = nops + 1

Change(p) ==
  /\ nchg < MaxChanges /\ nchg' = nchg + 1
  /\ ver' = [ver EXCEPT ![p] = @ + 1]
  /\ tab' = Record(tab, p, nextId) /\ nextId' = nextId + 1
  /\ pst' = P!AfterChange(p, pst) /\ Log([op |-> "Change", p |-> p])
  /\ UNCHANGED <<sub, rep, now, nfail, nev, ok>>

Subscribe(s) ==
  /\ sub[s].st = "none"
  /\ sub' = [sub EXCEPT ![s] = [NoSub EXCEPT !.st = "priming", !.maxSeen = Wm, !.nextSeen = Wm, !.evSeen = 0, !.evNext = nev, !.ctxNow = now]]
  /\ ok' = (ok /\ P!SubOk(s, now, pst)) /\ pst' = P!AfterSub(s, now, pst)
  /\ Log([op |-> "Subscribe", s |-> s])
  /\ UNCHANGED <<ver, tab, nextId, rep, now, nchg, nfail, nev>>

\* one attribute of the in-flight report is visited (ReportContext::should_report_attr, then the read)
Read(s, p) ==
  /\ sub[s].st \in {"priming", "reporting"} /\ p \notin sub[s].reads
  /\ sub' = [sub EXCEPT ![s].reads = @ \cup {p}]
  /\ LET should == sub[s].repAt = Never \/ ContainsSince(tab, p, sub[s].maxSeen) IN
     IF should THEN /\ ok' = (ok /\ P!DeliverOk(s, p, ver[p], pst)) /\ pst' = P!AfterDeliver(s, p, ver[p], pst)
               ELSE UNCHANGED <<ok, pst>>
  /\ Log([op |-> "Read", s |-> s, p |-> p, d |-> (sub[s].repAt = Never \/ ContainsSince(tab, p, sub[s].maxSeen))])
  /\ UNCHANGED <<ver, tab, nextId, rep, now, nchg, nfail, nev>>

\* an event is emitted (Events::push); the reporter is notified
EmitEvent ==
  /\ nev < MaxEvents /\ nev' = nev + 1
  /\ pst' = P!AfterEvent(pst) /\ Log([op |-> "Event"])
  /\ UNCHANGED <<ver, tab, nextId, sub, rep, now, nchg, nfail, ok>>

\* the in-flight report reads the events (max_seen_event_number, next_max_seen_event_number]
ReadEv(s) ==
  /\ sub[s].st \in {"priming", "reporting"} /\ ~sub[s].evRead
  /\ sub' = [sub EXCEPT ![s].evRead = TRUE]
  /\ ok' = (ok /\ P!DeliverEvOk(s, sub[s].evSeen, sub[s].evNext, pst)) /\ pst' = P!AfterDeliverEv(s, sub[s].evSeen, sub[s].evNext, pst)
  /\ Log([op |-> "ReadEv", s |-> s])
  /\ UNCHANGED <<ver, tab, nextId, rep, now, nchg, nfail, nev>>

End(s, r) ==
  /\ sub[s].st \in {"priming", "reporting"} /\ sub[s].reads = Paths /\ sub[s].evRead
  /\ r = "fail" => (sub[s].st = "reporting" /\ nfail < MaxFails)
  /\ nfail' = IF r = "fail" THEN nfail + 1 ELSE nfail
  /\ sub' = [sub EXCEPT ![s] =
       IF r = "ok" THEN [sub[s] EXCEPT !.st = "table", !.maxSeen = sub[s].nextSeen, !.evSeen = sub[s].evNext, !.repAt = sub[s].ctxNow, !.retryAt = -1000, !.fails = 0, !.reads = {}]
       ELSE IF r = "fail" THEN [sub[s] EXCEPT !.st = "table", !.fails = sub[s].fails + 1, !.retryAt = sub[s].ctxNow + Backoff(sub[s].fails + 1), !.reads = {}]
       ELSE NoSub]
  /\ ok' = (ok /\ P!EndOk(s, r, sub[s].ctxNow, pst)) /\ pst' = P!AfterEnd(s, r, sub[s].ctxNow, pst)
  /\ Log([op |-> "End", s |-> s, r |-> r])
  /\ UNCHANGED <<ver, tab, nextId, rep, now, nchg, nev>>

\* reporter pass: sweep the expired ones, fix "now" for the pass
PassStart ==
  /\ rep.phase = "idle"
  /\ LET gone == {s \in InTable : Expired(sub[s], now)}
         p1 == [s \in Subs |-> s \in gone] IN
     /\ sub' = [s \in Subs |-> IF s \in gone THEN NoSub ELSE sub[s]]
     /\ LET st1 == P!AfterGoneAll(gone, pst) IN
        /\ ok' = (ok /\ P!PassOk(now, st1)) /\ pst' = st1
  /\ rep' = [phase |-> "pass", now |-> now, ev |-> nev]
  /\ Log([op |-> "PassStart"])
  /\ UNCHANGED <<ver, tab, nextId, now, nchg, nfail, nev>>

Begin(s) ==
  /\ rep.phase = "pass" /\ ~\E x \in Subs : sub[x].st = "reporting"
  /\ sub[s].st = "table" /\ (Reportable(sub[s], tab, rep.now) \/ (AllowedAt(sub[s]) <= rep.now /\ sub[s].evSeen < rep.ev))
  /\ sub' = [sub EXCEPT ![s].st = "reporting", ![s].nextSeen = Wm, ![s].evNext = rep.ev, ![s].evRead = FALSE, ![s].ctxNow = rep.now, ![s].reads = {}]
  /\ ok' = (ok /\ P!BeginOk(s, rep.now, pst)) /\ pst' = P!AfterBegin(s, rep.now, pst)
  /\ Log([op |-> "Begin", s |-> s])
  /\ UNCHANGED <<ver, tab, nextId, rep, now, nchg, nfail, nev>>

PassEnd ==
  /\ rep.phase = "pass" /\ ~\E x \in Subs : sub[x].st = "reporting"
  /\ ~\E s \in InTable : Reportable(sub[s], tab, rep.now) \/ (AllowedAt(sub[s]) <= rep.now /\ sub[s].evSeen < rep.ev)
  /\ tab' = Purge(tab, {sub[s] : s \in InTable}, InFlight # {})
  /\ rep' = [rep EXCEPT !.phase = "idle"]
  /\ Log([op |-> "PassEnd"])
  /\ UNCHANGED <<ver, nextId, sub, now, nchg, nfail, nev, pst, ok>>

Tick == /\ now < MaxT /\ now' = now + 1 /\ Log([op |-> "Tick"])
        /\ UNCHANGED <<ver, tab, nextId, sub, rep, nchg, nfail, nev, pst, ok>>

Next == /\ nops < MaxOps
        /\ \/ \E p \in Paths : Change(p)
           \/ EmitEvent \/ (\E s \in Subs : ReadEv(s))
           \/ \E s \in Subs : Subscribe(s) \/ Begin(s) \/ (\E p \in Paths : Read(s, p)) \/ (\E r \in {"ok", "fail", "drop"} : End(s, r))
           \/ PassStart \/ PassEnd \/ Tick
Spec == Init /\ [][Next]_vars

Refines == ok
\* NoLostUpdate at quiescence: nothing in flight, reporter idle, and no subscription has a change still pending
Quiescent == /\ rep.phase = "idle" /\ InFlight = {}
             /\ \A s \in InTable : ~AnySince(tab, sub[s].maxSeen) /\ sub[s].evSeen = nev
NoLostUpdate == Quiescent => P!QuietOk(pst)

EmitAtEnd == nops = MaxOps => PrintT(<<"REPLAY", ToJson(h)>>)
=============================================================================
