\* 2 subscribers, 2 paths in 2 clusters, change table of 1, min 1 s / max 4 s, up to 2 changes and 1 failed report
SPECIFICATION Spec
CONSTANTS
  Subs = {1, 2}
  Paths = {1, 3}
  ClusterOf <- ClusterOfDef
  CAP = 1
  MinInt = 1
  MaxInt = 4
  Variant = "fixed"
  MaxChanges = 2
  MaxT = 2
  MaxOps = 11
  MaxEvents = 1
  MaxFails = 1
VIEW view
INVARIANTS Refines NoLostUpdate
CHECK_DEADLOCK FALSE
