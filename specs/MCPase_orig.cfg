\* 2 initiators, revocation at 3 failures, up to 12 operations; the code as found (no window check at Pake3): TLC must find a session created with the window closed
SPECIFICATION Spec
CONSTANTS
  Inits = {1, 2}
  MaxFail = 3
  MaxOps = 12
  Garbles = {0, 1, 2, 3}
  Variant = "orig"
VIEW view
INVARIANTS SessionOnlyWhileOpen SessionOnlyWithPasscode FailuresCounted RevokedAtLimit
CHECK_DEADLOCK FALSE
