------------------------------ MODULE SlotsProp ------------------------------
(***************************************************************************)
(* Layer P for C20, written from the property text.  Observable events of  *)
(* one run of the handshake world (t in ms):                               *)
(*  Start(i, kind, probe, t) / IniEnd(i, ok, t)   handshake attempts       *)
(*  Disturb(t)      something hostile or unfinished happened (an attempt   *)
(*                  that is cut / held / garbled / wrong, garbage, a       *)
(*                  cancelled handler)                                     *)
(*  ProbeStart(i, usable, t) / ProbeEnd(i, ok, tries, t)  a legitimate     *)
(*                  handshake, retried a few times, after the disturbance; *)
(*                  usable = slots that are free or hold an idle session   *)
(*  End(reserved, exchanges, marker, busyTotal, busyAlive, leftIdle, t)    *)
(*                  everything is quiet and all timers have run out: how   *)
(*                  many slots are still reserved, exchange slots still    *)
(*                  occupied on sessions that are not established ones in  *)
(*                  use, whether the PASE establishment marker is still    *)
(*                  held, how many sessions with a live exchange there     *)
(*                  were / still are, and whether every other leftover     *)
(*                  session is idle (no exchange, not reserved)            *)
(***************************************************************************)
EXTENDS Integers, FiniteSets, Sequences
CONSTANTS QuietMs       \* after this long without disturbance the node must serve a legitimate handshake again

Fresh == [lastDisturb |-> -1, probeAt |-> -1, windowOpen |-> FALSE, usable |-> 0]
NeedSlots == 2      \* a handshake occupies the unsecured session it arrives on and the secure session it reserves

DisturbOk(t, s) == TRUE
AfterDisturb(t, s) == [s EXCEPT !.lastDisturb = t]
WindowOk(open, t, s) == TRUE
AfterWindow(open, t, s) == [s EXCEPT !.windowOpen = open]
ProbeStartOk(i, usable, t, s) == TRUE
AfterProbeStart(i, usable, t, s) == [s EXCEPT !.probeAt = t, !.usable = usable]
\* BusyOrEvict: a legitimate attempt is served or refused with an answer - never left to time out
ProbeTryOk(i, ok, code, t, s) == (s.windowOpen /\ (s.lastDisturb = -1 \/ s.probeAt - s.lastDisturb >= QuietMs)) => (ok \/ code = "Invalid")
\* ServiceRestored: traffic has stopped for long enough and a window is open: the legitimate handshake succeeds
\* (a refusal with Busy while an idle session is being evicted is allowed: the probe retries)
ProbeEndOk(i, ok, tries, t, s) ==
  (s.windowOpen /\ s.usable >= NeedSlots /\ (s.lastDisturb = -1 \/ s.probeAt - s.lastDisturb >= QuietMs)) => ok
\* NoLeak + NeverEvictBusy
EndOk(reserved, exchanges, marker, busyTotal, busyAlive, leftIdle, t, s) ==
  /\ reserved = 0 /\ exchanges = 0 /\ ~marker /\ leftIdle
  /\ busyAlive = busyTotal
=============================================================================
