------------------------------ MODULE SubsTrace ------------------------------
(***************************************************************************)
(* Trace validation for C13 against Layer P (SubsProp).  Events: see       *)
(* SubsProp; {"ev":"Reset"} starts a new run.                              *)
(***************************************************************************)
EXTENDS SubsProp, TLC, Json, IOUtils, Sequences
Rec == ndJsonDeserialize(IOEnv.TRACE)
VARIABLES i, st
vars == <<i, st>>
Init == i = 1 /\ st = Fresh
IsEvent(e) == i <= Len(Rec) /\ Rec[i].ev = e /\ i' = i + 1
R == Rec[i]
Reset   == IsEvent("Reset")   /\ st' = Fresh
Change  == IsEvent("Change")  /\ ChangeOk(R.p, st)            /\ st' = AfterChange(R.p, st)
Sub     == IsEvent("Sub")     /\ SubOk(R.s, R.t, st)          /\ st' = AfterSub(R.s, R.t, st)
Begin   == IsEvent("Begin")   /\ BeginOk(R.s, R.t, st)        /\ st' = AfterBegin(R.s, R.t, st)
Deliver == IsEvent("Deliver") /\ DeliverOk(R.s, R.p, R.v, st) /\ st' = AfterDeliver(R.s, R.p, R.v, st)
Event   == IsEvent("Event")   /\ EventOk(st)                   /\ st' = AfterEvent(st)
DelivEv == IsEvent("DeliverEv") /\ DeliverEvOk(R.s, R.lo, R.hi, st) /\ st' = AfterDeliverEv(R.s, R.lo, R.hi, st)
End     == IsEvent("End")     /\ EndOk(R.s, R.r, R.t, st)     /\ st' = AfterEnd(R.s, R.r, R.t, st)
Gone    == IsEvent("Gone")    /\ GoneOk(R.s, st)              /\ st' = AfterGone(R.s, st)
Pass    == IsEvent("Pass")    /\ PassOk(R.t, st)              /\ UNCHANGED st
Wake    == IsEvent("Wake")    /\ WakeOk(R.w, st)              /\ UNCHANGED st
Quiet   == IsEvent("Quiet")   /\ QuietOk(st)                  /\ UNCHANGED st
Next == Reset \/ Change \/ Sub \/ Begin \/ Deliver \/ Event \/ DelivEv \/ End \/ Gone \/ Pass \/ Wake \/ Quiet
Spec == Init /\ [][Next]_vars
TraceAccepted ==
  LET d == TLCGet("stats").diameter IN
  IF d - 1 = Len(Rec) THEN TRUE ELSE Print(<<"REJECTED", d, ToJson(Rec[d])>>, FALSE)
=============================================================================
