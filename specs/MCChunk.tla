-------------------------------- MODULE MCChunk --------------------------------
EXTENDS Chunk
Scal == {[k |-> "s", sz |-> n] : n \in 1..5}
Lst == {[k |-> "l", hdr |-> 1, el |-> e] : e \in {<<>>} \cup {<<a>> : a \in 1..4} \cup {<<a, b>> : a \in 1..4, b \in 1..4} \cup {<<a, b, c>> : a \in {1, 4}, b \in {2, 4}, c \in {3, 4}}}
It == Scal \cup Lst
U == {<<a>> : a \in It} \cup {<<a, b>> : a \in It, b \in It} \cup {<<a, b, c>> : a \in It, b \in It, c \in Scal}
UBig == U \cup {<<a, [k |-> "s", sz |-> 6]>> : a \in It} \cup {<<[k |-> "l", hdr |-> 1, el |-> <<2, 5>>], a>> : a \in It}
\* one output line per item sequence of the universe (the generator of the C14 replay)
EmitItems == (used = 0 /\ cur = 1 /\ chunks = <<>> /\ msg = <<>>) => PrintT(<<"REPLAY", ToJson(Items)>>)
=============================================================================
