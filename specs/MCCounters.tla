---------------------------- MODULE MCCounters ----------------------------
(***************************************************************************)
(* Exhaustive check that the counter machines (Counters) refine Layer P    *)
(* (CountersProp) under crashes between any two steps; also the schedule   *)
(* generator for the replay on the real code.                              *)
(***************************************************************************)
EXTENDS Counters, Sequences, TLC, Json
CONSTANTS Kinds, Starts, MaxOps, MaxCrashes, Deltas

P == INSTANCE CountersProp

StartsNearWrap == {None, 0, 1, R - 3, R - 1}      \* no key yet / boundaries next to the wrap-around

VARIABLES kind, up,       \* which counter; is the node running
          durable,        \* stored boundary (None = key absent)
          g, e, c,        \* volatile state of the three machines
          cphase,         \* application protocol state of the Check-In counter
          equeue,         \* event numbers pushed and not yet read by anyone
          pst, ok,        \* Layer P state and verdict so far
          nops, ncrash,
          h               \* history (schedule), hidden by VIEW
vars == <<kind, up, durable, g, e, c, cphase, equeue, pst, ok, nops, ncrash, h>>
view == <<kind, up, durable, g, e, c, cphase, equeue, pst, ok, ncrash>>

\* the event number is a 64-bit value that never wraps, and its stored epoch is always a multiple of EPOCH
StartsFor(k) == IF k = "evt" THEN {None, EPOCH, 2 * EPOCH} ELSE Starts
Init == /\ kind \in Kinds /\ up = FALSE /\ durable \in StartsFor(kind)
        /\ g = GInitMem /\ e = 1 /\ c = CNew(0) /\ cphase = "down" /\ equeue = {}
        /\ pst = [P!Fresh EXCEPT !.durable = durable] /\ ok = TRUE
        /\ nops = 0 /\ ncrash = 0 /\ h = <<[op |-> "Start", durable |-> durable]>>

Log(op) == /\ h' = Append(h, op) /\ nops' = nops + 1
Same(vs) == UNCHANGED vs

Boot == /\ ~up /\ up' = TRUE
        /\ g' = GBoot(durable) /\ e' = EBoot(durable)
        /\ \E s \in Seeds : c' = IF durable = None THEN CNew(s) ELSE CNew(durable)
        /\ cphase' = "needPersist" /\ equeue' = {}
        /\ Log([op |-> "Boot"])
        /\ Same(<<kind, durable, pst, ok, ncrash>>)

Crash == /\ up /\ ncrash < MaxCrashes /\ up' = FALSE /\ ncrash' = ncrash + 1
         /\ cphase' = "down"
         /\ Log([op |-> "Crash"])
         /\ Same(<<kind, durable, g, e, c, equeue, pst, ok>>)

DoStore(b) == /\ durable' = b /\ pst' = P!AfterStore(b, pst)
DoUse(v)   == /\ ok' = (ok /\ P!UseAllowed(kind, v, v, pst)) /\ pst' = P!AfterUse(v, v, pst)

(* grp *)
GRes == /\ kind = "grp" /\ up /\ g.owe = None
        /\ \E s \in Seeds :
             LET r == GReserve(g, s) IN
             /\ g' = IF r.toPersist = None THEN [r.mem EXCEPT !.pend = @ \cup {r.value}]
                     ELSE [r.mem EXCEPT !.owe = r.value, !.oweB = r.toPersist]
             /\ Log([op |-> "Reserve", dist |-> (r.mem.bnd - r.mem.ctr) % R])
        /\ Same(<<kind, up, durable, e, c, cphase, equeue, pst, ok, ncrash>>)
GSto == /\ kind = "grp" /\ up /\ g.owe # None
        /\ DoStore(g.oweB)
        /\ g' = [g EXCEPT !.owe = None, !.oweB = None, !.pend = @ \cup {g.owe}]
        /\ Log([op |-> "StoreOwed"])
        /\ Same(<<kind, up, e, c, cphase, equeue, ok, ncrash>>)
GUse == /\ kind = "grp" /\ up
        /\ \E v \in g.pend : /\ DoUse(v) /\ g' = [g EXCEPT !.pend = @ \ {v}]
                             /\ Log([op |-> "Use", which |-> IF v = CHOOSE m \in g.pend : \A x \in g.pend : (x - m) % R <= R \div 2 THEN "oldest" ELSE "other"])
        /\ Same(<<kind, up, durable, e, c, cphase, equeue, ncrash>>)

(* evt: next_event_number stores the epoch, then the event is queued; reading it = use *)
EPush == /\ kind = "evt" /\ up
         /\ LET r == ENext(e) IN
            /\ e' = r.next /\ equeue' = equeue \cup {r.n}
            /\ IF r.toPersist = None THEN Same(<<durable, pst>>) ELSE DoStore(r.toPersist)
            /\ Log([op |-> "Push", dist |-> IF r.next % EPOCH = 0 THEN 0 ELSE EPOCH - (r.next % EPOCH)])
         /\ Same(<<kind, up, g, c, cphase, ok, ncrash>>)
ERead == /\ kind = "evt" /\ up /\ equeue # {}
         /\ LET v == CHOOSE m \in equeue : \A x \in equeue : m <= x IN
            /\ DoUse(v) /\ equeue' = equeue \ {v}
         /\ Log([op |-> "Read"])
         /\ Same(<<kind, up, durable, g, e, c, cphase, ncrash>>)

(* chk: application protocol of icd_mgmt.rs *)
CPersistLoaded == /\ kind = "chk" /\ up /\ cphase = "needPersist"
                  /\ DoStore(c.nextEpoch) /\ cphase' = "ready"
                  /\ Log([op |-> "PersistCounter"])
                  /\ Same(<<kind, up, g, e, c, equeue, ok, ncrash>>)
CSend == /\ kind = "chk" /\ up /\ cphase = "ready"
         /\ DoUse(CNext(c)) /\ cphase' = "sent"
         /\ Log([op |-> "SendBatch"])
         /\ Same(<<kind, up, durable, g, e, c, equeue, ncrash>>)
CAdv == /\ kind = "chk" /\ up /\ cphase = "sent"
        /\ LET r == CAdvance(c) IN
           /\ c' = r.mem
           /\ IF r.toPersist = None THEN Same(<<durable, pst>>) ELSE DoStore(r.toPersist)   \* advance_counter stores itself
           /\ cphase' = "ready"
           /\ Log([op |-> "AdvanceCounter", dist |-> (r.mem.nextEpoch - r.mem.value) % R])
        /\ Same(<<kind, up, g, e, equeue, ok, ncrash>>)
CInv == /\ kind = "chk" /\ up /\ cphase = "ready"
        /\ \E d \in Deltas : LET r == CAdvanceBy(c, d) IN
           /\ c' = r.mem /\ cphase' = IF r.toPersist = None THEN "ready" ELSE "owePersist"
           /\ Log([op |-> "Invalidate", delta |-> d, moved |-> r.toPersist # None])
        /\ Same(<<kind, up, durable, g, e, equeue, pst, ok, ncrash>>)
CPersistOwed == /\ kind = "chk" /\ up /\ cphase = "owePersist"
                /\ DoStore(c.nextEpoch) /\ cphase' = "ready"
                /\ Log([op |-> "PersistCounter"])
                /\ Same(<<kind, up, g, e, c, equeue, ok, ncrash>>)

Next == /\ nops < MaxOps
        /\ \/ Boot \/ Crash \/ GRes \/ GSto \/ GUse \/ EPush \/ ERead
           \/ CPersistLoaded \/ CSend \/ CAdv \/ CInv \/ CPersistOwed
Spec == Init /\ [][Next]_vars

Refines == ok
\* the counter must not lap the ring within a run (NoReuse is per lap)
WithinLap == Cardinality(pst.used) < R \div 2

EmitAtEnd == nops = MaxOps => PrintT(<<"REPLAY", ToJson([kind |-> kind, start |-> h[1].durable, ops |-> Tail(h)])>>)
=============================================================================
