------------------------------ MODULE BdxTrace ------------------------------
(* Layer P for the BDX streaming engine, validated on what the two stacks put on the wire and what the applications
   wrote / read (harness cbdx).  Scenario(tail, sum, dev, lossy): `tail` bytes with checksum `sum` are to be transferred;
   dev # "": the hand-written peer deviates once.  Wire(src, op, ctr, n): a BDX message (16 BlockQuery, 17 Block,
   18 BlockEof, 19 BlockAck, 20 BlockAckEof; 1/2/4/5 the Init / Accept messages) or a status report (op 64: ctr = protocol
   id named in the report, n = protocol status code).  AppRead / AppWrote(len, sum), AppEnd(n, code).
   Rules: after the negotiation the data messages follow the stop-and-wait discipline of the selected drive mode with
   consecutive block counters from 0; every Block carries the same number of bytes, the BlockEof fewer; the bytes on the
   wire and the bytes the reader hands out are exactly the file (length and checksum); both applications finish without
   error.  When the peer deviates, the engine answers with a BDX status report, both ends finish with an error and no
   reader reports a complete file. *)
EXTENDS Integers, Sequences, FiniteSets, TLC, Json, IOUtils
Rec == ndJsonDeserialize(IOEnv.TRACE)
VARIABLES i, sc, drive, expect, ctr, mbs, total, seenEof, aborted, ends, reads
vars == <<i, sc, drive, expect, ctr, mbs, total, seenEof, aborted, ends, reads>>
NoSc == [tail |-> 0, sum |-> "", dev |-> "", lossy |-> FALSE]
Init == i = 1 /\ sc = NoSc /\ drive = "?" /\ expect = "first" /\ ctr = 0 /\ mbs = -1 /\ total = 0 /\ seenEof = FALSE /\ aborted = FALSE /\ ends = {} /\ reads = {}
IsEvent(x) == i <= Len(Rec) /\ Rec[i].ev = x /\ i' = i + 1
R == Rec[i]
Fresh == /\ drive' = "?" /\ expect' = "first" /\ ctr' = 0 /\ mbs' = -1 /\ total' = 0 /\ seenEof' = FALSE /\ aborted' = FALSE /\ ends' = {} /\ reads' = {}
Reset == IsEvent("Reset") /\ sc' = NoSc /\ Fresh
Scenario == IsEvent("Scenario") /\ sc' = [tail |-> R.tail, sum |-> R.sum, dev |-> R.dev, lossy |-> R.lossy] /\ Fresh
Keep == UNCHANGED <<sc, drive, expect, ctr, mbs, total, seenEof, aborted, ends, reads>>
\* negotiation messages and status reports
Nego == IsEvent("Wire") /\ R.op \in {1, 2, 4, 5} /\ expect = "first" /\ Keep
Status == /\ IsEvent("Wire") /\ R.op = 64
          /\ sc.dev # ""                                  \* nobody aborts a transfer between two well-behaved ends
          /\ R.ctr = 2 /\ R.n = (IF sc.dev = "ctr" THEN 23 ELSE 24)          \* BadBlockCounter / UnexpectedMessage
          /\ aborted' = TRUE /\ UNCHANGED <<sc, drive, expect, ctr, mbs, total, seenEof, ends, reads>>
\* data phase
BlockOk == /\ R.ctr = ctr /\ R.n >= 0
           /\ IF R.op = 17 THEN R.n > 0 /\ (mbs = -1 \/ R.n = mbs) ELSE (mbs = -1 \/ R.n < mbs \/ sc.dev # "")
Proper == CASE expect = "first" -> (R.op = 16 /\ R.ctr = 0) \/ (R.op \in {17, 18} /\ BlockOk)
            [] expect = "block" -> R.op \in {17, 18} /\ BlockOk
            [] expect = "query" -> R.op = 16 /\ R.ctr = ctr
            [] expect = "ack" -> R.op = 19 /\ R.ctr = ctr
            [] expect = "ackEof" -> R.op = 20 /\ R.ctr = ctr
            [] OTHER -> FALSE
Advance ==
  IF R.op = 16 THEN /\ drive' = "R" /\ expect' = "block" /\ UNCHANGED <<ctr, mbs, total, seenEof>>
  ELSE IF R.op \in {17, 18}
  THEN /\ drive' = (IF expect = "first" THEN "S" ELSE drive)
       /\ total' = total + R.n /\ seenEof' = (R.op = 18) /\ mbs' = (IF R.op = 17 THEN R.n ELSE mbs)
       /\ IF R.op = 18 THEN expect' = "ackEof" /\ UNCHANGED ctr
          ELSE IF drive = "R" THEN expect' = "query" /\ ctr' = ctr + 1
          ELSE expect' = "ack" /\ UNCHANGED ctr
  ELSE IF R.op = 19 THEN /\ ctr' = ctr + 1 /\ expect' = "block" /\ UNCHANGED <<drive, mbs, total, seenEof>>
  ELSE /\ expect' = "end" /\ UNCHANGED <<drive, ctr, mbs, total, seenEof>>
Data == /\ IsEvent("Wire") /\ R.op \in {16, 17, 18, 19, 20} /\ ~aborted
        /\ IF expect = "abort" THEN UNCHANGED <<drive, expect, ctr, mbs, total, seenEof>>
           ELSE IF Proper THEN Advance
           ELSE \* only the hand-written peer of a deviation scenario ever sends anything else
                sc.dev # "" /\ expect' = "abort" /\ UNCHANGED <<drive, ctr, mbs, total, seenEof>>
        /\ UNCHANGED <<sc, aborted, ends, reads>>
AppRead == /\ IsEvent("AppRead") /\ sc.dev = "" /\ R.len = sc.tail /\ R.sum = sc.sum /\ expect = "end" /\ total = sc.tail
           /\ reads' = reads \cup {R.n} /\ UNCHANGED <<sc, drive, expect, ctr, mbs, total, seenEof, aborted, ends>>
AppWrote == IsEvent("AppWrote") /\ (sc.dev = "" => (R.len = sc.tail /\ R.sum = sc.sum)) /\ Keep
AppEnd == /\ IsEvent("AppEnd") /\ (sc.dev = "" => R.code = "") /\ (sc.dev # "" => R.code # "")
          /\ ends' = ends \cup {R.n} /\ UNCHANGED <<sc, drive, expect, ctr, mbs, total, seenEof, aborted, reads>>
End == /\ IsEvent("End") /\ R.a_done /\ R.b_done /\ ends = {"A", "B"}
       /\ (sc.dev = "" => (expect = "end" /\ seenEof /\ total = sc.tail /\ Cardinality(reads) = 1))
       /\ (sc.dev # "" => aborted)                            \* the deviation was answered with a status report
       /\ Keep
Other == i <= Len(Rec) /\ Rec[i].ev \notin {"Reset", "Scenario", "Wire", "AppRead", "AppWrote", "AppEnd", "End"} /\ i' = i + 1 /\ Keep
Next == Reset \/ Scenario \/ Nego \/ Status \/ Data \/ AppRead \/ AppWrote \/ AppEnd \/ End \/ Other
Spec == Init /\ [][Next]_vars
TraceAccepted ==
  LET d == TLCGet("stats").diameter IN
  IF d - 1 = Len(Rec) THEN TRUE ELSE Print(<<"REJECTED", d, ToJson(Rec[d])>>, FALSE)
=============================================================================
