------------------------------ MODULE BtpTrace ------------------------------
(* Trace validation for C18 against Layer P (BtpProp).  Events: see BtpProp; {"ev":"Reset"} starts a new run. *)
EXTENDS BtpProp, TLC, Json, IOUtils
Rec == ndJsonDeserialize(IOEnv.TRACE)
VARIABLES i, st
vars == <<i, st>>
Init == i = 1 /\ st = Fresh
IsEvent(x) == i <= Len(Rec) /\ Rec[i].ev = x /\ i' = i + 1
R == Rec[i]
Reset  == IsEvent("Reset")  /\ st' = Fresh
Submit == IsEvent("Submit") /\ SubmitOk(R.e, R.id, st) /\ st' = AfterSubmit(R.e, R.id, st)
Tx     == IsEvent("Tx")     /\ TxOk(R.e, R.hs, R.seq, R.ack, R.w, R.t, st) /\ st' = AfterTx(R.e, R.hs, R.seq, R.ack, R.w, R.t, st)
Rx     == IsEvent("Rx")     /\ RxOk(R.e, R.res, R.ack, R.seq, R.t, st) /\ st' = AfterRx(R.e, R.res, R.ack, R.seq, R.t, st)
Fetch  == IsEvent("Fetch")  /\ FetchOk(R.e, R.id, st) /\ st' = AfterFetch(R.e, R.id, st)
Tick   == IsEvent("Tick")   /\ TickOk(R.t, st) /\ UNCHANGED st
Inject == IsEvent("Inject") /\ InjectOk(R.e, R.cls, R.viol, R.res, st) /\ st' = AfterInject(R.e, R.cls, R.viol, R.res, st)
Panic  == IsEvent("Panic")  /\ PanicOk(R.e, st) /\ UNCHANGED st
End    == IsEvent("End")    /\ EndOk(st) /\ UNCHANGED st
Next == Reset \/ Submit \/ Tx \/ Rx \/ Fetch \/ Tick \/ Inject \/ Panic \/ End
Spec == Init /\ [][Next]_vars
TraceAccepted ==
  LET d == TLCGet("stats").diameter IN
  IF d - 1 = Len(Rec) THEN TRUE ELSE Print(<<"REJECTED", d, ToJson(Rec[d])>>, FALSE)
=============================================================================
