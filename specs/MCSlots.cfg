\* table of 4 with 1 permanently busy session, 3 initiators, up to 14 operations
SPECIFICATION Spec
CONSTANTS
  Inits = {1, 2, 3}
  Cap = 4
  Busy = 1
  MaxOps = 14
VIEW view
INVARIANTS NeverEvictBusy NoLeak Capacity ServiceRestored
CHECK_DEADLOCK FALSE
