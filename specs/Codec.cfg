SPECIFICATION Spec
CONSTANTS
  Seed = 0
INVARIANTS Emit RoundTrip Known
CHECK_DEADLOCK FALSE
