---------------------------- MODULE CountersTrace ----------------------------
(***************************************************************************)
(* Trace validation for C12 against Layer P (CountersProp).  One trace file *)
(* per kind of counter (the ring differs).  Events:                        *)
(*   {"ev":"Reset","kind":k}        new run = new storage lifetime          *)
(*   {"ev":"Store","kind":k,"b":b}  boundary b is durable                   *)
(*   {"ev":"Use","kind":k,"lo":l,"hi":h}  values l..h were handed out/used  *)
(*   {"ev":"Restart","kind":k}      restart from storage                    *)
(*   {"ev":"Life","sends":n,"on_wire":m,"error":e}  (end-to-end run) one life *)
(*        of the node ended: every message it was asked to send was sent    *)
(***************************************************************************)
EXTENDS CountersProp, TLC, Json, IOUtils, Sequences
Rec == ndJsonDeserialize(IOEnv.TRACE)
VARIABLES i, pst
vars == <<i, pst>>
Init == i = 1 /\ pst = Fresh
IsEvent(e) == i <= Len(Rec) /\ Rec[i].ev = e /\ i' = i + 1
Reset   == IsEvent("Reset") /\ pst' = Fresh
Store   == IsEvent("Store") /\ pst' = AfterStore(Rec[i].b, pst)
Use     == IsEvent("Use") /\ UseAllowed(Rec[i].kind, Rec[i].lo, Rec[i].hi, pst) /\ pst' = AfterUse(Rec[i].lo, Rec[i].hi, pst)
Restart == IsEvent("Restart") /\ UNCHANGED pst
Life    == IsEvent("Life") /\ Rec[i].error = "" /\ Rec[i].on_wire = Rec[i].sends /\ UNCHANGED pst
Next == Reset \/ Store \/ Use \/ Restart \/ Life
Spec == Init /\ [][Next]_vars
TraceAccepted ==
  LET d == TLCGet("stats").diameter IN
  IF d - 1 = Len(Rec) THEN TRUE ELSE Print(<<"REJECTED", d, ToJson(Rec[d])>>, FALSE)
=============================================================================
