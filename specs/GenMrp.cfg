\* schedule generator (simulation): two rounds, the real retransmission budget, more deliveries
SPECIFICATION Spec
CONSTANTS
  MaxRetrans = 5
  MaxDeliveries = 30
  Rounds = 2
  MaxSlow = 0
  Recheck = TRUE
  MaxOps = 18
INVARIANTS SuccessIsTrue AtMostOnceInOrder RetransIdentical Budget EmitAtEnd
CHECK_DEADLOCK FALSE
