--------------------------------- MODULE Case ---------------------------------
EXTENDS Integers, FiniteSets, Sequences, TLC
(* C01, design level: the full CASE handshake with a symbolic (Dolev-Yao) attacker who is the network.  The checks are
   those of sc/case/{initiator,responder,casep}.rs, step by step; Bug = the name of one check deliberately left out
   (sensitivity of the model: each of them must make TLC find an attack). *)
\* Layer I core for C01: one CASE run (no resumption) between honest initiator A (fabric 1, node 10)
\* and honest responder B (node 20 on every fabric in BFabs), with an attacker E who *is* the network,
\* is a legitimate member of fabric 2 (node 30), may know fabric 1's IPK (Leak), and owns ephemeral "ee".
\* Crypto is symbolic; the checks are those of sc/case/{initiator,responder,casep}.rs, step by step.
CONSTANTS BFabs,      \* fabrics B belongs to, e.g. {1} or {1, 2}
          Leak,       \* TRUE: E knows the IPK of fabric 1 (e.g. a former member)
          Insider,    \* TRUE: E additionally holds a genuine NOC of fabric 1 (node 40) - a malicious member
          Bug         \* "none" or the name of a check deliberately left out (sensitivity of the model)
NULL == [none |-> TRUE]
Chain(root, fid, node, key, ok) == [root |-> root, fid |-> fid, node |-> node, key |-> key, ok |-> ok]
Valid(c, f) == /\ (c.root = f \/ Bug = "noRootCheck")
               /\ (c.fid = f \/ Bug = "noFabricIdCheck")
               /\ (c.ok \/ Bug = "noChainSigCheck")
ChainA == Chain(1, 1, 10, "A", TRUE)
ChainB(f) == Chain(f, f, 20, "B", TRUE)
EChains == { Chain(2, 2, 30, "E", TRUE),          \* E's genuine identity on fabric 2
             Chain(2, 1, 20, "E", TRUE),          \* signed by root 2 but claiming fabric id 1 / node 20
             Chain(2, 1, 10, "E", TRUE),
             Chain(1, 1, 20, "E", FALSE),         \* claims root 1, signature does not verify
             Chain(1, 1, 10, "E", FALSE),
             ChainA, ChainB(1) }                  \* certificates are not secret; their keys are
           \cup (IF Insider THEN {Chain(1, 1, 40, "E", TRUE)} ELSE {})
EIpk == {2} \cup (IF Leak \/ Insider THEN {1} ELSE {})
Dest(f, node) == [ipk |-> f, root |-> f, fid |-> f, node |-> node]
SS(x, y) == {x, y}                                       \* symbolic ECDH
EKnowsSS(ss) == "ee" \in ss
K(lbl, ss, ipk, th) == [lbl |-> lbl, ss |-> ss, ipk |-> ipk, th |-> th]
EKnowsKey(k) == EKnowsSS(k.ss) /\ k.ipk \in EIpk
Body(c, by, over) == [chain |-> c, by |-> by, over |-> over]

VARIABLES aSt, aS1, aS2, aS3, aSess, bSt, bS1, bS2, bFab, bSess, eBodies
vars == <<aSt, aS1, aS2, aS3, aSess, bSt, bS1, bS2, bFab, bSess, eBodies>>
Init == /\ aSt = "idle" /\ aS1 = NULL /\ aS2 = NULL /\ aS3 = NULL /\ aSess = NULL
        /\ bSt = "idle" /\ bS1 = NULL /\ bS2 = NULL /\ bFab = 0 /\ bSess = NULL /\ eBodies = {}

ASendS1 == /\ aSt = "idle" /\ aSt' = "sentS1"
           /\ aS1' = [t |-> "S1", eph |-> "ea", dest |-> Dest(1, 20)]
           /\ UNCHANGED <<aS2, aS3, aSess, bSt, bS1, bS2, bFab, bSess, eBodies>>
\* what E can put in front of B as a Sigma1
ES1 == {[t |-> "S1", eph |-> "ee", dest |-> Dest(f, 20)] : f \in EIpk}
       \cup (IF aS1 = NULL THEN {} ELSE {aS1, [aS1 EXCEPT !.eph = "ee"]})
BRecvS1(m) ==
  /\ bSt = "idle" /\ m \in ES1
  /\ IF \E f \in BFabs : m.dest = Dest(f, 20)
     THEN LET f == CHOOSE f \in BFabs : m.dest = Dest(f, 20)
              s2 == [t |-> "S2", eph |-> "eb",
                     enc |-> [key |-> K("S2K", SS(m.eph, "eb"), f, <<m>>), body |-> Body(ChainB(f), "B", <<"eb", m.eph>>)]] IN
          /\ bSt' = "sentS2" /\ bS1' = m /\ bFab' = f /\ bS2' = s2
          /\ eBodies' = IF EKnowsKey(s2.enc.key) THEN eBodies \cup {s2.enc.body} ELSE eBodies
     ELSE bSt' = "fail" /\ UNCHANGED <<bS1, bFab, bS2, eBodies>>
  /\ UNCHANGED <<aSt, aS1, aS2, aS3, aSess, bSess>>
\* what E can put in front of A as a Sigma2
ES2 == (IF bS2 = NULL THEN {} ELSE {bS2, [bS2 EXCEPT !.eph = "ee"]})
       \cup {[t |-> "S2", eph |-> "ee", enc |-> [key |-> K("S2K", SS("ea", "ee"), f, <<aS1>>), body |-> b]] :
               f \in EIpk, b \in {Body(c, "E", <<"ee", "ea">>) : c \in EChains} \cup eBodies}
ARecvS2(m) ==
  /\ aSt = "sentS1" /\ m \in ES2
  /\ LET b == m.enc.body
         ok == /\ m.enc.key = K("S2K", SS("ea", m.eph), 1, <<aS1>>)          \* decrypts with our S2K
               /\ Valid(b.chain, 1)
               /\ (b.chain.node = 20 \/ Bug = "noNodeIdCheck")
               /\ b.by = b.chain.key                                          \* signature verifies under the NOC key
               /\ (b.over = <<m.eph, "ea">> \/ (Bug = "sigOverOneKey" /\ b.over[1] = m.eph)) IN
     IF ok
     THEN LET s3 == [t |-> "S3", enc |-> [key |-> K("S3K", SS("ea", m.eph), 1, <<aS1, m>>), body |-> Body(ChainA, "A", <<"ea", m.eph>>)]] IN
          /\ aSt' = "sentS3" /\ aS2' = m /\ aS3' = s3
          /\ eBodies' = IF EKnowsKey(s3.enc.key) THEN eBodies \cup {s3.enc.body} ELSE eBodies
     ELSE aSt' = "fail" /\ UNCHANGED <<aS2, aS3, eBodies>>
  /\ UNCHANGED <<aS1, aSess, bSt, bS1, bS2, bFab, bSess>>
\* what E can put in front of B as a Sigma3
ES3 == (IF aS3 = NULL THEN {} ELSE {aS3})
       \cup (IF bS1 = NULL THEN {} ELSE
             {[t |-> "S3", enc |-> [key |-> K("S3K", SS(bS1.eph, "eb"), f, <<bS1, bS2>>), body |-> b]] :
               f \in {g \in EIpk : EKnowsSS(SS(bS1.eph, "eb"))},
               b \in {Body(c, "E", <<bS1.eph, "eb">>) : c \in EChains} \cup eBodies})
BRecvS3(m) ==
  /\ bSt = "sentS2" /\ m \in ES3
  /\ LET b == m.enc.body
         ok == /\ m.enc.key = K("S3K", SS(bS1.eph, "eb"), bFab, <<bS1, bS2>>)
               /\ Valid(b.chain, bFab)
               /\ b.by = b.chain.key
               /\ (b.over = <<bS1.eph, "eb">> \/ (Bug = "sigOverOneKey" /\ b.over[1] = bS1.eph)) IN
     IF ok
     THEN /\ bSt' = "done"
          /\ bSess' = [fab |-> bFab, peer |-> b.chain.node, owner |-> b.by,
                       key |-> K("SK", SS(bS1.eph, "eb"), bFab, <<bS1, bS2, m>>)]
     ELSE bSt' = "fail" /\ UNCHANGED bSess
  /\ UNCHANGED <<aSt, aS1, aS2, aS3, aSess, bS1, bS2, bFab, eBodies>>
\* status report: E can always fake a plain success status (it is not authenticated beyond the exchange)
ARecvStatus == /\ aSt = "sentS3" /\ aSt' = "done"
               /\ aSess' = [fab |-> 1, peer |-> aS2.enc.body.chain.node, owner |-> aS2.enc.body.by,
                            key |-> K("SK", SS("ea", aS2.eph), 1, <<aS1, aS2, aS3>>)]
               /\ UNCHANGED <<aS1, aS2, aS3, bSt, bS1, bS2, bFab, bSess, eBodies>>
Term == (aSt \in {"done", "fail"} \/ bSt \in {"done", "fail"}) /\ UNCHANGED vars
Next == ASendS1 \/ (\E m \in ES1 : BRecvS1(m)) \/ (\E m \in ES2 : ARecvS2(m)) \/ (\E m \in ES3 : BRecvS3(m)) \/ ARecvStatus \/ Term
Spec == Init /\ [][Next]_vars

\* ---- Layer P ----
\* a session on fabric f exists only with a holder of a valid NOC of f: on fabric 1 that is A (node 10) or B (node 20), never E
RespAuth == bSess # NULL => /\ (bSess.fab = 1 => ((bSess.owner = "A" /\ bSess.peer = 10 /\ ~EKnowsKey(bSess.key))
                                               \/ (Insider /\ bSess.owner = "E" /\ bSess.peer = 40)))
                            /\ (bSess.fab = 2 => bSess.owner = "E" /\ bSess.peer = 30)
InitAuth == aSess # NULL => aSess.owner = "B" /\ aSess.peer = 20 /\ ~EKnowsKey(aSess.key)
KeyAgreement == (aSess # NULL /\ bSess # NULL /\ bSess.fab = 1) => aSess.key = bSess.key
Reach == ~(aSess # NULL /\ bSess # NULL)       \* expected to be VIOLATED: the honest run must be possible
=============================================================================
