\* must violate: CommissioningComplete with a failing store leaves the fail-safe idle and nothing stored (open finding F-C08e)
SPECIFICATION Spec
CONSTANTS
  Ctl = {1, 2}
  MaxIdx = 2
  MaxGen = 3
  MaxOps = 11
  Variant = "fixed"
  StoreFaults = TRUE
VIEW view
INVARIANTS CommittedOrUndone
CHECK_DEADLOCK FALSE
