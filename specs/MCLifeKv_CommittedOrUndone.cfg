\* must violate: the code as found - CommissioningComplete with a failing store left the fail-safe idle and nothing stored (F-C08e)
SPECIFICATION Spec
CONSTANTS
  Ctl = {1, 2}
  MaxIdx = 2
  MaxGen = 3
  MaxOps = 11
  Variant = "orig"
  StoreFaults = TRUE
VIEW view
INVARIANTS CommittedOrUndone
CHECK_DEADLOCK FALSE
