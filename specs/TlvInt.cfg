SPECIFICATION Spec
INVARIANTS Sane Emit
CHECK_DEADLOCK FALSE
