--------------------------------- MODULE TlvInt ---------------------------------
EXTENDS Integers, Sequences, FiniteSets, TLC, Json
(* C16, integer values: the writer's value-typed entry points (i8..i64, u8..u64, the primitive and derived ToTLV
   encoders) may choose any width that can hold the value.  A value is an 8-byte little-endian two's-complement list
   (TLC integers are 32-bit).  Reference: which widths can hold a value, and what an encoded integer of a given
   width denotes.  The module enumerates a boundary palette and prints, per value, the reference facts the harness
   checks the real writer / reader against. *)
Pow8(i) == 256 ^ i
\* 8-byte list of a small non-negative number n < 2^31 shifted left by 8*sh bytes ... built directly instead:
B8(b0, b1, b2, b3, b4, b5, b6, b7) == <<b0, b1, b2, b3, b4, b5, b6, b7>>
SExt(bs) == \* sign-extend a little-endian list of 1,2,4,8 bytes to 8 bytes
  LET f == IF bs[Len(bs)] >= 128 THEN 255 ELSE 0 IN bs \o [i \in 1..(8 - Len(bs)) |-> f]
ZExt(bs) == bs \o [i \in 1..(8 - Len(bs)) |-> 0]
Low(v, w) == SubSeq(v, 1, w)
FitsS(v, w) == SExt(Low(v, w)) = v
FitsU(v, w) == ZExt(Low(v, w)) = v
Widths == {1, 2, 4, 8}
MinW(v, signed) == CHOOSE w \in Widths : (IF signed THEN FitsS(v, w) ELSE FitsU(v, w)) /\ \A x \in Widths : x < w => ~(IF signed THEN FitsS(v, x) ELSE FitsU(v, x))
Z == 0  F == 255
Palette == {
  B8(0,Z,Z,Z,Z,Z,Z,Z), B8(1,Z,Z,Z,Z,Z,Z,Z), B8(127,Z,Z,Z,Z,Z,Z,Z), B8(128,Z,Z,Z,Z,Z,Z,Z), B8(255,Z,Z,Z,Z,Z,Z,Z), B8(0,1,Z,Z,Z,Z,Z,Z),
  B8(255,127,Z,Z,Z,Z,Z,Z), B8(0,128,Z,Z,Z,Z,Z,Z), B8(255,255,Z,Z,Z,Z,Z,Z), B8(0,0,1,Z,Z,Z,Z,Z),
  B8(255,255,255,127,Z,Z,Z,Z), B8(0,0,0,128,Z,Z,Z,Z), B8(1,0,0,128,Z,Z,Z,Z), B8(255,255,255,255,Z,Z,Z,Z), B8(0,0,0,0,1,Z,Z,Z), B8(120,86,52,18,1,Z,Z,Z),
  B8(255,255,255,255,255,255,255,127), B8(0,0,0,0,0,0,0,128), B8(255,255,255,255,255,255,255,255),
  \* negative numbers (two's complement)
  B8(128,F,F,F,F,F,F,F), B8(127,F,F,F,F,F,F,F), B8(0,128,F,F,F,F,F,F), B8(255,127,F,F,F,F,F,F),
  B8(0,0,0,128,F,F,F,F), B8(255,255,255,127,F,F,F,F), B8(0,0,0,0,F,F,F,F), B8(1,0,0,0,0,0,0,128) }
VARIABLES v, phase
Init == v \in Palette /\ phase = 0
Next == phase = 0 /\ phase' = 1 /\ UNCHANGED v
Spec == Init /\ [][Next]_<<v, phase>>
\* sanity of the reference: the minimal width holds the value, decoding it gives the value back, and no narrower one does
Sane == /\ FitsS(v, MinW(v, TRUE)) /\ SExt(Low(v, MinW(v, TRUE))) = v
        /\ FitsU(v, MinW(v, FALSE)) /\ ZExt(Low(v, MinW(v, FALSE))) = v
        /\ FitsS(v, 8) /\ FitsU(v, 8)
Emit == phase = 1 => PrintT(<<"REPLAY", ToJson([v |-> v, fitsS |-> [w \in Widths |-> FitsS(v, w)], fitsU |-> [w \in Widths |-> FitsU(v, w)],
                                                 minS |-> MinW(v, TRUE), minU |-> MinW(v, FALSE)])>>)
=============================================================================
