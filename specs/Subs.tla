-------------------------------- MODULE Subs --------------------------------
(***************************************************************************)
(* Layer I for C13: the subscription table of im/subscriptions.rs and the  *)
(* reporter loop of im.rs (process_subscriptions), transcribed.            *)
(*  - change table: entries tagged with increasing change ids, capacity    *)
(*    CAP, coalescing to cluster / all wildcards on overflow               *)
(*  - a subscription is moved OUT of the table while its priming report    *)
(*    (Subscriptions::add -> ReportContext) or a report (report()) is in   *)
(*    flight; watermarks are snapshotted at the start and committed by     *)
(*    set_keep only                                                        *)
(*  - reporter pass: sweep expired, report while something is reportable,  *)
(*    then purge_reported_changes                                          *)
(* Variant "orig": purge looks only at the subscriptions in the table      *)
(*   (F-C13a); "fixed": purge is skipped while a subscription is in flight.*)
(***************************************************************************)
EXTENDS Integers, FiniteSets
CONSTANTS Subs, Paths, ClusterOf(_), CAP, MinInt, MaxInt, Variant

Never == -1        \* reported_at == Instant::MAX : not primed yet
Covers(e, p) == \/ e.k = "all" \/ (e.k = "cl" /\ e.x = ClusterOf(p)) \/ (e.k = "p" /\ e.x = p)
MaxId(es) == CHOOSE m \in {e.id : e \in es} : \A e \in es : e.id <= m

\* promote_and_insert: collapse the largest same-cluster group (>= 2), else everything, until new fits
Promote(tab) ==
  LET cls == {c \in {ClusterOf(p) : p \in Paths} : Cardinality({e \in tab : e.k = "p" /\ ClusterOf(e.x) = c}) >= 2}
  IN IF cls # {}
     THEN LET c == CHOOSE c \in cls : \A d \in cls :
                     Cardinality({e \in tab : e.k = "p" /\ ClusterOf(e.x) = c}) >= Cardinality({e \in tab : e.k = "p" /\ ClusterOf(e.x) = d})
              grp == {e \in tab : (e.k = "p" /\ ClusterOf(e.x) = c) \/ (e.k = "cl" /\ e.x = c)}
          IN (tab \ grp) \cup {[k |-> "cl", x |-> c, id |-> MaxId(grp)]}
     ELSE {[k |-> "all", x |-> 0, id |-> MaxId(tab)]}

\* ChangedAttrs::record(p) with the fresh change id
Record(tab, p, id) ==
  IF \E e \in tab : Covers(e, p)
  THEN {IF Covers(e, p) THEN [e EXCEPT !.id = id] ELSE e : e \in tab}
  ELSE IF Cardinality(tab) < CAP THEN tab \cup {[k |-> "p", x |-> p, id |-> id]}
  ELSE LET t1 == Promote(tab) IN
       IF \E e \in t1 : Covers(e, p) THEN {IF Covers(e, p) THEN [e EXCEPT !.id = id] ELSE e : e \in t1}
       ELSE IF Cardinality(t1) < CAP THEN t1 \cup {[k |-> "p", x |-> p, id |-> id]}
       ELSE {[k |-> "all", x |-> 0, id |-> id]}

AnySince(tab, since) == \E e \in tab : e.id > since
ContainsSince(tab, p, since) == \E e \in tab : e.id > since /\ Covers(e, p)

Backoff(fails) == LET d == IF fails <= 1 THEN 2 ELSE IF fails = 2 THEN 4 ELSE 8 IN IF d < MaxInt THEN d ELSE (IF MaxInt > 2 THEN MaxInt ELSE 2)
AllowedAt(s) == LET g == IF s.repAt = Never THEN -1000 ELSE s.repAt + MinInt IN IF g > s.retryAt THEN g ELSE s.retryAt
DueAt(s) == IF s.repAt = Never THEN -1000 ELSE s.repAt + (MaxInt - MaxInt \div 2)
Reportable(s, tab, now) == AllowedAt(s) <= now /\ (DueAt(s) <= now \/ AnySince(tab, s.maxSeen))
Expired(s, now) == s.repAt # Never /\ s.repAt + MaxInt <= now

\* purge_reported_changes
Purge(tab, inTable, inFlight) ==
  IF Variant = "fixed" /\ inFlight THEN tab
  ELSE IF inTable = {} THEN {}
  ELSE LET m == CHOOSE m \in {s.maxSeen : s \in inTable} : \A s \in inTable : m <= s.maxSeen
       IN IF m = 0 THEN tab ELSE {e \in tab : e.id > m}
=============================================================================
