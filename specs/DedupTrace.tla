----------------------------- MODULE DedupTrace -----------------------------
(***************************************************************************)
(* Trace validation for C04: every (counter, verdict) observed on the real *)
(* receive windows must be a step Layer P (DedupProp) allows.              *)
(* Events (ndjson, one per line):                                          *)
(*   {"ev":"Reset"}                          a new run: all peers fresh     *)
(*   {"ev":"Recv","kind":k,"peer":p,"h":h,"lo":l,"v":bool,"evicted":q}     *)
(*       counter h*B+l received for peer p of kind k, real verdict v; q is *)
(*       the group sender the real table evicted to make room (-1 = none)  *)
(***************************************************************************)
EXTENDS DedupProp, TLC, Json, IOUtils, Sequences
CONSTANT MaxPeer
Rec == ndJsonDeserialize(IOEnv.TRACE)

VARIABLES i, pst
vars == <<i, pst>>
AllFresh == [p \in 0..MaxPeer |-> Fresh]
Init == i = 1 /\ pst = AllFresh

IsEvent(e) == i <= Len(Rec) /\ Rec[i].ev = e /\ i' = i + 1
Reset == IsEvent("Reset") /\ pst' = AllFresh
Recv ==
  /\ IsEvent("Recv")
  /\ LET r  == Rec[i]
         c  == <<r.h, r.lo>>
         p1 == IF r.evicted = -1 THEN pst ELSE [pst EXCEPT ![r.evicted] = Fresh]
     IN /\ r.evicted # -1 => (r.kind = "grp" /\ p1[r.peer].hi = None)  \* eviction only to admit a new sender
        /\ Allowed(r.kind, c, r.v, p1[r.peer])
        /\ pst' = [p1 EXCEPT ![r.peer] = Update(r.kind, c, r.v, @)]
Next == Reset \/ Recv
Spec == Init /\ [][Next]_vars

TraceAccepted ==
  LET d == TLCGet("stats").diameter IN
  IF d - 1 = Len(Rec) THEN TRUE
  ELSE Print(<<"REJECTED", d, ToJson(Rec[d])>>, FALSE)
=============================================================================
