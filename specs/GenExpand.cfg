\* generator: random answers with up to 4 replacements of the node; one REPLAY line per finished answer
SPECIFICATION Spec
CONSTANTS
  EPs = {0, 1, 2, 3}
  MaxChanges = 4
  Requests <- ReqSet
  Variant = "code"
INVARIANTS Refines CompleteAtEnd Emit
CHECK_DEADLOCK FALSE
