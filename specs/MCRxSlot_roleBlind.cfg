\* sensitivity: the role is ignored for initiator messages (must violate RightExchangeOnly)
\* 2 sessions x 2 exchange ids, 2 handlers, 3 packets of any (session, id, initiator, reliable), every handler policy; safety and liveness
SPECIFICATION Spec
CONSTANTS
  Sess = {1, 2}
  ExIds = {1, 2}
  Handlers = {1, 2}
  MaxPkts = 3
  MaxOwn = 1
  OwnKeys <- Own11
  RoleBlind = TRUE
  Policies = {"reply", "hold", "relDrop"}
VIEW view
INVARIANTS RightExchangeOnly OpensOnlyIfAllowed
CHECK_DEADLOCK FALSE
