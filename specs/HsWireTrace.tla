---------------------------- MODULE HsWireTrace ----------------------------
(* C15 on the session-establishment messages (which travel unsecured, under the unsecured session's counter): Layer P
   rule "a retransmission is bit-for-bit identical to the original transmission", validated on the wire tap of the
   handshake world.  Event Hs(src, dst, ctr, bytes): node src put a secure-channel message with message counter ctr on
   the wire; bytes identifies the exact datagram.  {"ev":"Reset"} starts a new run. *)
EXTENDS Integers, Sequences, FiniteSets, TLC, Json, IOUtils
Rec == ndJsonDeserialize(IOEnv.TRACE)
VARIABLES i, seen      \* seen: set of <<src, dst, ctr, bytes>>
vars == <<i, seen>>
Init == i = 1 /\ seen = {}
IsEvent(x) == i <= Len(Rec) /\ Rec[i].ev = x /\ i' = i + 1
R == Rec[i]
Reset == IsEvent("Reset") /\ seen' = {}
\* RetransIdentical: the same sender, peer and counter => the same bytes
HsOk(src, dst, ctr, b) == \A x \in seen : (x[1] = src /\ x[2] = dst /\ x[3] = ctr) => x[4] = b
Hs    == IsEvent("Hs") /\ HsOk(R.src, R.dst, R.ctr, R.bytes) /\ seen' = seen \cup {<<R.src, R.dst, R.ctr, R.bytes>>}
Other == i <= Len(Rec) /\ Rec[i].ev \notin {"Reset", "Hs"} /\ i' = i + 1 /\ UNCHANGED seen
Next == Reset \/ Hs \/ Other
Spec == Init /\ [][Next]_vars
TraceAccepted ==
  LET d == TLCGet("stats").diameter IN
  IF d - 1 = Len(Rec) THEN TRUE ELSE Print(<<"REJECTED", d, ToJson(Rec[d])>>, FALSE)
=============================================================================
