------------------------------ MODULE MrpTrace ------------------------------
(* Trace validation for C09 / C15 against Layer P (MrpProp).  {"ev":"Reset"} starts a new run. *)
EXTENDS MrpProp, TLC, Json, IOUtils
Rec == ndJsonDeserialize(IOEnv.TRACE)
VARIABLES i, st
vars == <<i, st>>
Init == i = 1 /\ st = Fresh
IsEvent(x) == i <= Len(Rec) /\ Rec[i].ev = x /\ i' = i + 1
R == Rec[i]
Reset   == IsEvent("Reset")   /\ st' = Fresh
AppSend == IsEvent("AppSend") /\ AppSendOk(R.n, R.id, R.t, st) /\ st' = AfterAppSend(R.n, R.id, R.t, st)
Tx      == IsEvent("Tx")      /\ TxOk(R.n, R.ctr, R.rel, R.ack, R.id, R.bytes, R.t, st) /\ st' = AfterTx(R.n, R.ctr, R.rel, R.ack, R.id, R.bytes, R.t, st)
Dlv     == IsEvent("Dlv")     /\ DlvOk(R.from, R.ctr, R.t, st) /\ st' = AfterDlv(R.from, R.ctr, R.t, st)
SendOk  == IsEvent("SendOk")  /\ SendOkOk(R.n, R.id, R.t, st) /\ st' = AfterSendOk(R.n, R.id, R.t, st)
SendErr == IsEvent("SendErr") /\ SendErrOk(R.n, R.id, R.code, R.t, st) /\ st' = AfterSendErr(R.n, R.id, R.code, R.t, st)
AppRecv == IsEvent("AppRecv") /\ AppRecvOk(R.n, R.id, R.t, st) /\ st' = AfterAppRecv(R.n, R.id, R.t, st)
Alloc   == IsEvent("Alloc")   /\ AllocOk(R.v, R.live) /\ UNCHANGED st
End     == IsEvent("End")     /\ EndOk(st) /\ UNCHANGED st
\* events this specification has nothing to say about (e.g. OtherClosed: another peer closed an idle session of a node)
Other   == i <= Len(Rec) /\ Rec[i].ev \notin {"Reset", "AppSend", "Tx", "Dlv", "SendOk", "SendErr", "AppRecv", "Alloc", "End"} /\ i' = i + 1 /\ UNCHANGED st
Next == Reset \/ AppSend \/ Tx \/ Dlv \/ SendOk \/ SendErr \/ AppRecv \/ Alloc \/ End \/ Other
Spec == Init /\ [][Next]_vars
TraceAccepted ==
  LET d == TLCGet("stats").diameter IN
  IF d - 1 = Len(Rec) THEN TRUE ELSE Print(<<"REJECTED", d, ToJson(Rec[d])>>, FALSE)
=============================================================================
