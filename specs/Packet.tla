-------------------------------- MODULE Packet --------------------------------
(***************************************************************************)
(* C03: secured messages are accepted only if authentic for that session   *)
(* and direction.  Abstract datagram:                                      *)
(*   [hdr   : the unencrypted header as sent: [sess, enc, ctr, src],       *)
(*    aad   : the header the sender authenticated (= hdr unless altered),  *)
(*    key, nonceNode : key and source-node identity used for the AEAD,     *)
(*    tagOk : ciphertext and tag untouched, len: payload length class]     *)
(* Receiver (transport.rs decode_packet -> Sessions::get_for_rx ->         *)
(* Session::decode_remaining -> Session::post_recv): a session is found by *)
(* (peer address, local session id, encryption kind); the body is          *)
(* decrypted with that session's receive key, the session's stored peer    *)
(* node id in the nonce and the received header bytes as associated data;  *)
(* only then the receive window and the exchanges are touched.             *)
(* The module is the reference (Accept) and the generator of the C03 cases:*)
(* it enumerates session mode x message shape x payload class x mutation   *)
(* class and prints each case with the reference verdicts.                 *)
(***************************************************************************)
EXTENDS Integers, FiniteSets, Sequences, TLC, Json

\* two nodes A, B; two sessions between them (1 and 2) with different ids and keys in each direction
Sess == {1, 2}
KeyOf(s, dir) == <<"k", s, dir>>              \* dir = "AB" (A encrypts, B decrypts) or "BA"
NodeA == 100  NodeB == 200
SessIdAt(s, n) == IF n = "B" THEN 10 + s ELSE 20 + s      \* the session id the receiving node n assigned

\* the genuine datagram number c that A produces on session s for B
Genuine(s, c, len) ==
  LET h == [sess |-> SessIdAt(s, "B"), enc |-> TRUE, ctr |-> c, to |-> "B"] IN
  [hdr |-> h, aad |-> h, key |-> KeyOf(s, "AB"), nonceNode |-> NodeA, tagOk |-> TRUE, len |-> len]

\* B's receive side for a datagram arriving from A's address
RxSession(d, n) == {s \in Sess : d.hdr.enc /\ d.hdr.sess = SessIdAt(s, n)}
Accept(d, n, seen) ==
  /\ d.hdr.to = n
  /\ \E s \in RxSession(d, n) :
       /\ d.key = KeyOf(s, IF n = "B" THEN "AB" ELSE "BA")       \* decrypts under that session's receive key
       /\ d.nonceNode = (IF n = "B" THEN NodeA ELSE NodeB)       \* ... with the sender identity the session was set up with
       /\ d.aad = d.hdr /\ d.tagOk                               \* ... and the complete header as associated data
       /\ <<s, d.hdr.ctr>> \notin seen                           \* and was not accepted before

Classes == {"genuine", "bitHdrFlags", "bitSessId", "bitSecFlags", "bitCounter", "bitCipher", "bitTag",
            "truncate", "extend", "runt", "transplantHeader", "otherSession", "reflect", "otherSourceNode", "replay"}
Mutate(g, g2, c) ==
  CASE c = "genuine" -> g
    [] c = "bitHdrFlags"  -> [g EXCEPT !.hdr = [@ EXCEPT !.to = "nobody"]]          \* header no longer parses to the same fields
    [] c = "bitSessId"    -> [g EXCEPT !.hdr.sess = @ + 64]
    [] c = "bitSecFlags"  -> [g EXCEPT !.hdr.enc = FALSE]
    [] c = "bitCounter"   -> [g EXCEPT !.hdr.ctr = @ + 1]
    [] c = "bitCipher"    -> [g EXCEPT !.tagOk = FALSE]
    [] c = "bitTag"       -> [g EXCEPT !.tagOk = FALSE]
    [] c = "truncate"     -> [g EXCEPT !.tagOk = FALSE]
    [] c = "extend"       -> [g EXCEPT !.tagOk = FALSE]
    [] c = "runt"         -> [g EXCEPT !.hdr.ctr = @ + 40, !.tagOk = FALSE]              \* fresh counter, a body too short to hold a tag at all
    [] c = "transplantHeader" -> [g EXCEPT !.hdr = g2.hdr]                            \* header of another genuine datagram
    [] c = "otherSession" -> [g EXCEPT !.hdr.sess = SessIdAt(2, "B"), !.aad.sess = SessIdAt(2, "B")]   \* re-addressed and re-authenticated under the wrong key
    [] c = "reflect"      -> [g EXCEPT !.hdr.to = "A", !.aad.to = "A"]                \* sent back to its sender
    [] c = "otherSourceNode" -> [g EXCEPT !.nonceNode = 300]                          \* right key, another source identity
    [] c = "replay"       -> g

(* ---- group sessions (C03 over group keys): the header carries the source node id and the destination group id;    *)
(* the receiver finds the operational key through (group session id, destination group id), decrypts with the       *)
(* source node id of the header in the nonce and the complete header - source and destination included - as         *)
(* associated data; a delivered message is attributed to the source node of its header.                            *)
GKey == <<"k", "group">>
Groups == {1, 2}                                 \* both mapped to the same key set at the receiver
GGenuine(src, c, len) ==
  LET h == [sess |-> 77, enc |-> TRUE, ctr |-> c, to |-> "B", src |-> src, dst |-> 1] IN
  [hdr |-> h, aad |-> h, key |-> GKey, nonceNode |-> src, tagOk |-> TRUE, len |-> len]
GAccept(d, seen) ==
  /\ d.hdr.to = "B" /\ d.hdr.enc /\ d.hdr.sess = 77 /\ d.hdr.dst \in Groups
  /\ d.key = GKey /\ d.nonceNode = d.hdr.src /\ d.aad = d.hdr /\ d.tagOk
  /\ <<d.hdr.src, d.hdr.ctr>> \notin seen
GClasses == {"genuine", "bitHdrFlags", "bitSessId", "bitSecFlags", "bitCounter", "bitCipher", "bitTag", "truncate", "extend", "runt",
             "transplantHeader", "bitSrcNode", "bitDstGroup", "transplantGroup", "otherSourceNode", "replay", "secondSender"}
GMutate(g, g2, c) ==
  CASE c \in {"genuine", "replay"} -> g
    [] c = "bitHdrFlags"  -> [g EXCEPT !.hdr = [@ EXCEPT !.to = "nobody"]]
    [] c = "bitSessId"    -> [g EXCEPT !.hdr.sess = @ + 64]
    [] c = "bitSecFlags"  -> [g EXCEPT !.hdr.enc = FALSE]
    [] c = "bitCounter"   -> [g EXCEPT !.hdr.ctr = @ + 1]
    [] c \in {"bitCipher", "bitTag", "truncate", "extend"} -> [g EXCEPT !.tagOk = FALSE]
    [] c = "runt"         -> [g EXCEPT !.hdr.ctr = @ + 40, !.tagOk = FALSE]
    [] c = "transplantHeader" -> [g EXCEPT !.hdr = g2.hdr]
    [] c = "bitSrcNode"   -> [g EXCEPT !.hdr.src = @ + 1]                       \* header names another source, body untouched
    [] c = "bitDstGroup"  -> [g EXCEPT !.hdr.dst = 3]                           \* a group the receiver does not know
    [] c = "transplantGroup" -> [g EXCEPT !.hdr.dst = 2]                        \* another group the receiver does know
    [] c = "otherSourceNode" -> [g EXCEPT !.nonceNode = 300]                    \* protected under another source identity
    [] c = "secondSender" -> GGenuine(101, 9, g.len)                            \* a genuine datagram of another member, while the first sender's session is live
GCase(shape, len, c) ==
  LET g == GGenuine(NodeA, 5, len) g2 == GGenuine(NodeA, 6, len)
      d == GMutate(g, g2, c)
      seen == IF c = "replay" THEN {<<NodeA, 5>>} ELSE {}
  IN [mode |-> "group", shape |-> shape, len |-> len, cls |-> c, authentic |-> ((d = g /\ c # "replay") \/ c = "secondSender"),
      deliver |-> GAccept(d, seen), from |-> d.hdr.src]

VARIABLES case, n
Modes == {"case", "pase"}
Shapes == {"unreliable", "reliable"}
Lens == {0, 1, 16, 900}
Case(mode, shape, len, c) ==
  LET g == Genuine(1, 5, len) g2 == Genuine(1, 6, len)
      d == Mutate(g, g2, c)
      rcv == IF c = "reflect" THEN "A" ELSE "B"
      seen == IF c = "replay" THEN {<<1, 5>>} ELSE {}
  IN [mode |-> mode, shape |-> shape, len |-> len, cls |-> c, authentic |-> (d = g /\ c # "replay"),
      deliver |-> Accept(d, rcv, seen), from |-> IF mode = "pase" THEN 0 ELSE NodeA]
Init == /\ n = 0
        /\ \/ \E mode \in Modes, shape \in Shapes, len \in Lens, c \in Classes : case = Case(mode, shape, len, c)
           \/ \E len \in {1, 16, 900}, c \in GClasses : case = GCase("unreliable", len, c)
Next == n = 0 /\ n' = 1 /\ UNCHANGED case
Spec == Init /\ [][Next]_<<case, n>>
Emit == PrintT(<<"REPLAY", ToJson(case)>>)
\* the property over the reference receiver: nothing but an authentic, fresh datagram is delivered
AcceptOnlyAuthentic == case.deliver <=> case.authentic
=============================================================================
