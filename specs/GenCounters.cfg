\* schedule generator: same machines and constants as MCCounters, longer runs, simulation mode
SPECIFICATION Spec
CONSTANTS
  R = 32
  EPOCH = 3
  Seeds = {5, 30}
  Kinds = {"grp", "evt", "chk"}
  Starts <- StartsNearWrap
  MaxOps = 24
  MaxCrashes = 4
  Deltas = {1, 2, 4}
INVARIANTS Refines EmitAtEnd
CONSTRAINT WithinLap
CHECK_DEADLOCK FALSE
