\* schedule generator (simulation)
SPECIFICATION Spec
CONSTANTS
  Ctl = {1, 2}
  MaxIdx = 2
  MaxGen = 4
  MaxOps = 16
  Variant = "fixed"
  StoreFaults = FALSE
INVARIANTS EmitAtEnd
CHECK_DEADLOCK FALSE
