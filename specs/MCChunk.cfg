\* every sequence of up to 3 items (scalars of 1..5 units, lists of 0..3 elements) with a message capacity of 4 units
SPECIFICATION Spec
CONSTANTS
  Cap = 4
  Universe <- UBig
  Variant = "fixed"
INVARIANTS Complete Ordered Bounded EmitItems
PROPERTIES Terminates
CHECK_DEADLOCK FALSE
