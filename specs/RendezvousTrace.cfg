SPECIFICATION TSpec
CONSTANTS
  Callers = {1, 2}
  MaxOps = 1000000
POSTCONDITION TraceAccepted
CHECK_DEADLOCK FALSE
