-------------------------------- MODULE Btp --------------------------------
(***************************************************************************)
(* Layer I for C18: two BTP ends, transcribed from transport/network/btp.rs *)
(* (BtpInner::process_outgoing / send / recv) and btp/session.rs (Session,  *)
(* SendWindow, RecvWindow).  One record per end:                           *)
(*   est, hsPending, W (send_window.window_size),                          *)
(*   swLevel, swLast (send window), rwLevel, rwAckLevel, rwAckSeq, rwRem,  *)
(*   rwMsgs (receive window), out (segments left of the outgoing SDU),     *)
(*   outFirst                                                              *)
(* A segment is [hs, seq, ack, begin, final, n] (n = segments of the SDU it *)
(* begins, -1 for a stand-alone ack).  Sequence numbers stay below 256 in  *)
(* every bounded run, so the 8-bit arithmetic is not modelled here (the    *)
(* wrap is exercised by the harness' long run and checked by Layer P).     *)
(* `panic` records that the transcribed arithmetic would underflow or an   *)
(* assert! would fail.  Variant "orig" = the pinned code, "fixed" = after  *)
(* the repairs of F-C18a/b/c.                                              *)
(***************************************************************************)
EXTENDS Integers, Sequences
CONSTANTS Wnd, Variant,
          LastSlot    \* what keeps the last slot of the send window free: "ackLevel" (segments received and not yet acknowledged, as the
                      \* code did) or "pendingAck" (an acknowledgement that can actually go out with the segment)

NewEnd(init) == [est |-> FALSE, hsPending |-> init, W |-> 0, swLevel |-> 0, swLast |-> -1,
                 rwLevel |-> 0, rwAckLevel |-> 0, rwAckSeq |-> -1, rwRem |-> 0, rwMsgs |-> 0,
                 out |-> 0, outFirst |-> TRUE]

PendingAck(x) == x.rwAckLevel > 0 /\ x.rwMsgs = 0                 \* RecvWindow::pending_ack
\* SendWindow::is_full: the last slot is kept for a segment that carries an acknowledgement
Full(x) == x.swLevel = 0 \/ (x.swLevel = 1 /\ (IF LastSlot = "ackLevel" THEN x.rwAckLevel = 0 ELSE ~PendingAck(x)))
AckDue(x, timer) == PendingAck(x) /\ (x.rwLevel <= 1 \/ timer)    \* Session::is_ack_due

\* SendWindow::post_send + RecvWindow::post_send
PostSend(x) == [x EXCEPT !.swLevel = @ - 1, !.swLast = @ + 1,
                         !.rwLevel = IF PendingAck(x) THEN @ + x.rwAckLevel ELSE @,
                         !.rwAckLevel = IF PendingAck(x) THEN 0 ELSE @]

\* Session::setup on receipt of the handshake request (responder) / response (initiator)
Setup(x, init) == [x EXCEPT !.est = TRUE, !.hsPending = ~init, !.W = Wnd, !.rwLevel = Wnd, !.swLevel = Wnd,
                            !.rwAckSeq = IF init THEN 0 ELSE @]

DataSeg(x) == [hs |-> FALSE, seq |-> x.swLast + 1, ack |-> IF PendingAck(x) THEN x.rwAckSeq ELSE -1,
               begin |-> x.outFirst, final |-> x.out = 1, n |-> IF x.outFirst THEN x.out ELSE 0]
AckSeg(x)  == [hs |-> FALSE, seq |-> x.swLast + 1, ack |-> x.rwAckSeq, begin |-> FALSE, final |-> FALSE, n |-> -1]
HsSeg      == [hs |-> TRUE, seq |-> -1, ack |-> -1, begin |-> FALSE, final |-> TRUE, n |-> 0]

\* Session::process_rx_data: -> [x, res] with res \in {"ok", "err", "panic"}
RxData(x, s) ==
  IF ~x.est THEN [x |-> x, res |-> IF Variant = "orig" THEN (IF s.seq = x.rwAckSeq + 1 THEN "panic" ELSE "err") ELSE "err"]
  ELSE IF s.seq # x.rwAckSeq + 1 THEN [x |-> x, res |-> "err"]
  ELSE LET isAck == s.n = -1
           rem0 == IF s.begin THEN s.n ELSE x.rwRem
           rem1 == IF isAck THEN x.rwRem ELSE rem0 - 1
           lenBad == ~isAck /\ ((s.final /\ rem1 > 0) \/ (~s.final /\ rem1 <= 0) \/ (~s.begin /\ x.rwRem = 0))
           unack == IF s.ack = -1 THEN 0 ELSE x.swLast - s.ack
           ackBad == s.ack # -1 /\ (unack < 0 \/ unack > x.W)
       IN IF lenBad THEN [x |-> x, res |-> "err"]
          ELSE IF x.rwLevel = 0 THEN [x |-> x, res |-> IF Variant = "orig" THEN "panic" ELSE "err"]
          ELSE IF ackBad THEN [x |-> x, res |-> IF Variant = "orig" THEN "panic" ELSE "err"]
          ELSE [res |-> "ok",
                x |-> [x EXCEPT !.rwRem = rem1, !.rwLevel = @ - 1, !.rwAckSeq = s.seq, !.rwAckLevel = @ + 1,
                                !.rwMsgs = IF ~isAck /\ s.final THEN @ + 1 ELSE @,
                                !.swLevel = IF s.ack = -1 THEN @ ELSE x.W - unack]]
=============================================================================
