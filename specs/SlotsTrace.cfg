SPECIFICATION Spec
CONSTANTS
  QuietMs = 65000
POSTCONDITION TraceAccepted
CHECK_DEADLOCK FALSE
