--------------------------- MODULE CountersProp ---------------------------
(***************************************************************************)
(* Layer P for C12: durable counters never hand out a value twice in the   *)
(* lifetime of the device's storage, and a value is used only after a      *)
(* boundary covering it has been stored durably.  Written from the property*)
(* text.  Observable events:                                               *)
(*   Store(b)        a boundary was written to durable storage             *)
(*   Use(lo, hi)     the values lo..hi (one value when lo = hi) were used  *)
(*                   (put on the wire / made readable), in that order      *)
(*   Restart         the node restarted from its storage                   *)
(*   FactoryReset    storage wiped: a new lifetime begins                  *)
(*                                                                         *)
(* Kinds: "grp" global group data message counter (ring R, 0 is skipped,   *)
(*        a restart resumes AT the stored boundary), "evt" event number    *)
(*        (resumes AT the boundary), "chk" Check-In counter (the stored    *)
(*        boundary is the last value that may have been used: a restart    *)
(*        resumes just AFTER it).                                          *)
(* R = 0 means "no ring": plain integers (translated values in traces).    *)
(***************************************************************************)
EXTENDS Integers, FiniteSets
CONSTANTS R               \* ring size (0 = unbounded: plain integers)

None == -1
Sub(a, b) == IF R = 0 THEN a - b ELSE (a - b) % R          \* forward distance from b to a

\* first value a restart would hand out if the stored boundary is d
ResumeFirst(kind, d) == IF kind = "chk" THEN (IF R = 0 THEN d + 1 ELSE (d + 1) % R)
                        ELSE IF kind = "grp" /\ d = 0 THEN 1 ELSE d

\* value v is covered by the durable boundary d: a restart now would resume strictly past v
\* (on a ring: v lies in the half-ring behind the resume point).  How far past is left free.
Covered(kind, v, d) ==
  /\ d # None
  /\ LET x == Sub(ResumeFirst(kind, d), v) IN x >= 1 /\ (R = 0 \/ x < R \div 2)

\* P state: [used: set of [lo, hi] intervals used in this storage lifetime, durable]
Fresh == [used |-> {}, durable |-> None]

Inside(v, iv) == IF R = 0 \/ iv.lo <= iv.hi THEN iv.lo <= v /\ v <= iv.hi
                 ELSE v >= iv.lo \/ v <= iv.hi               \* interval wrapping around the ring
Overlaps(a, b) == Inside(a.lo, b) \/ Inside(a.hi, b) \/ Inside(b.lo, a) \/ Inside(b.hi, a)

UseAllowed(kind, lo, hi, s) ==
  /\ \A iv \in s.used : ~Overlaps([lo |-> lo, hi |-> hi], iv)        \* NoReuse
  /\ Covered(kind, lo, s.durable) /\ Covered(kind, hi, s.durable)     \* CoveredBeforeUse (both ends)
  /\ (R = 0 \/ Sub(hi, lo) < R \div 2)
AfterUse(lo, hi, s) == [s EXCEPT !.used = @ \cup {[lo |-> lo, hi |-> hi]}]
AfterStore(b, s)    == [s EXCEPT !.durable = b]
=============================================================================
