\* every file length 0..7 units x block size 1..3 x both drive modes
SPECIFICATION Spec
CONSTANTS
  MaxLen = 7
  Sizes = {1, 2, 3}
  Drives = {"S", "R"}
INVARIANTS NoFailure PrefixDelivered OneInFlight CountersInOrder EofIsLast EmitScenario
PROPERTIES Terminates
CHECK_DEADLOCK FALSE
