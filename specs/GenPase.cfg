\* schedule generator (simulation)
SPECIFICATION Spec
CONSTANTS
  Inits = {1, 2}
  MaxFail = 20
  MaxOps = 14
  Garbles = {0, 1, 2, 3}
  Variant = "fixed"
INVARIANTS SessionOnlyWhileOpen SessionOnlyWithPasscode FailuresCounted RevokedAtLimit EmitAtEnd
CHECK_DEADLOCK FALSE
