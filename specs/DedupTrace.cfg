SPECIFICATION Spec
CONSTANTS
  B = 65536
  W = 16
  MaxPeer = 40
POSTCONDITION TraceAccepted
CHECK_DEADLOCK FALSE
