SPECIFICATION Spec
CONSTANTS
  Overhead = 250
POSTCONDITION TraceAccepted
CHECK_DEADLOCK FALSE
