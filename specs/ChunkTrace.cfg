SPECIFICATION Spec
CONSTANTS
  SafeFit = 900
  MaxDatagram = 1280
POSTCONDITION TraceAccepted
CHECK_DEADLOCK FALSE
