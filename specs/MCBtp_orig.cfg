\* two well-behaved ends, window 3, up to 2 messages of 1 or 3 segments per end, sequence numbers up to 5
SPECIFICATION Spec
CONSTANTS
  Wnd = 3
  Variant = "orig"
  LastSlot = "ackLevel"
  MaxSdu = 2
  SegChoices = {1, 3}
  MaxSeq = 5
  MaxOps = 60
  Hostile = FALSE
VIEW view
INVARIANTS Refines NoPanic WindowRespected
CONSTRAINT SeqBound
CHECK_DEADLOCK FALSE
