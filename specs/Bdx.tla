--------------------------------- MODULE Bdx ---------------------------------
(***************************************************************************)
(* Beyond the listed properties: the Bulk Data Exchange streaming engine   *)
(* (bdx/write.rs BdxWriter, bdx/read.rs BdxReader), transcribed as two     *)
(* processes over one exchange.  The exchange is reliable and ordered (MRP *)
(* below it, see Mrp.tla), so each direction is a lossless FIFO.           *)
(*   sender  : counter, bytes still to send, what it waits for             *)
(*   receiver: counter, the block it holds, bytes delivered to the reader  *)
(* Drive = "S": the sender sends Block(c) and waits for BlockAck(c) /      *)
(* BlockAckEof(c); Drive = "R": the receiver asks with BlockQuery(c), the   *)
(* sender answers with Block(c) / BlockEof(c), the final block is          *)
(* acknowledged with BlockAckEof(c).  The writer sends a block whenever its *)
(* staging buffer is full (Mbs units) and BlockEof with whatever is staged *)
(* (possibly nothing) at finish().                                         *)
(***************************************************************************)
EXTENDS Integers, Sequences, FiniteSets, TLC, Json
CONSTANTS MaxLen,     \* file lengths 0..MaxLen (units)
          Sizes,      \* block sizes (units)
          Drives      \* subset of {"S", "R"}

VARIABLES len, mbs, drive,      \* chosen in Init: the scenario
          sCtr, sLeft, sWait,   \* sender: next block counter, units not yet sent, "none" | "query" | "ack" | "ackEof" | "done" | "failed"
          rCtr, rGot, rState,   \* receiver: next expected counter, units delivered, "idle" | "asked" | "done" | "failed"
          toR, toS,             \* the two directions of the exchange
          wire                  \* history: every message in the order sent
vars == <<len, mbs, drive, sCtr, sLeft, sWait, rCtr, rGot, rState, toR, toS, wire>>

Msg(k, c, n) == [k |-> k, c |-> c, n |-> n]
Init == /\ len \in 0..MaxLen /\ mbs \in Sizes /\ drive \in Drives
        /\ sCtr = 0 /\ sLeft = len /\ sWait = (IF drive = "R" THEN "query" ELSE "none")
        /\ rCtr = 0 /\ rGot = 0 /\ rState = "idle"
        /\ toR = <<>> /\ toS = <<>> /\ wire = <<>>
SendR(m) == toR' = Append(toR, m) /\ wire' = Append(wire, m)
SendS(m) == toS' = Append(toS, m) /\ wire' = Append(wire, m)

\* --- sender (BdxWriter::send_block) ---
\* a full block while more than a block is left, else the final BlockEof with the rest
NextBlock == IF sLeft > mbs THEN Msg("Block", sCtr, mbs)
             ELSE IF sLeft = mbs THEN Msg("Block", sCtr, mbs)            \* write() flushes a full staging buffer at once; finish() then sends an empty BlockEof
             ELSE Msg("Eof", sCtr, sLeft)
\* sender-drive: nothing outstanding -> send the next block
SSend == /\ drive = "S" /\ sWait = "none"
         /\ LET m == NextBlock IN
            /\ SendR(m) /\ sLeft' = sLeft - m.n /\ sWait' = (IF m.k = "Eof" THEN "ackEof" ELSE "ack")
         /\ UNCHANGED <<len, mbs, drive, sCtr, rCtr, rGot, rState, toS>>
\* receiver-drive: answer the query for the current counter
SAnswer == /\ drive = "R" /\ sWait = "query" /\ toS # <<>>
           /\ LET q == Head(toS) IN
              IF q.k = "Query" /\ q.c = sCtr
              THEN LET m == NextBlock IN
                   /\ SendR(m) /\ sLeft' = sLeft - m.n /\ toS' = Tail(toS)
                   /\ IF m.k = "Eof" THEN sWait' = "ackEof" /\ UNCHANGED sCtr ELSE sWait' = "query" /\ sCtr' = sCtr + 1
              ELSE /\ sWait' = "failed" /\ toS' = Tail(toS) /\ UNCHANGED <<sLeft, sCtr, toR, wire>>
           /\ UNCHANGED <<len, mbs, drive, rCtr, rGot, rState>>
SAck == /\ sWait \in {"ack", "ackEof"} /\ toS # <<>>
        /\ LET a == Head(toS) IN
           IF a.k = (IF sWait = "ack" THEN "Ack" ELSE "AckEof") /\ a.c = sCtr
           THEN sWait' = (IF sWait = "ack" THEN "none" ELSE "done") /\ sCtr' = sCtr + 1
           ELSE sWait' = "failed" /\ UNCHANGED sCtr
        /\ toS' = Tail(toS)
        /\ UNCHANGED <<len, mbs, drive, sLeft, rCtr, rGot, rState, toR, wire>>

\* --- receiver (BdxReader::receive_block / release_block) ---
RAsk == /\ drive = "R" /\ rState = "idle"
        /\ SendS(Msg("Query", rCtr, 0)) /\ rState' = "asked"
        /\ UNCHANGED <<len, mbs, drive, sCtr, sLeft, sWait, rCtr, rGot, toR>>
RRecv == /\ toR # <<>> /\ rState = (IF drive = "R" THEN "asked" ELSE "idle")
         /\ LET b == Head(toR) IN
            IF b.k \in {"Block", "Eof"} /\ b.c = rCtr
            THEN /\ rGot' = rGot + b.n /\ rCtr' = rCtr + 1
                 \* the reader hands the bytes out, then acknowledges (sender-drive) or asks again (receiver-drive)
                 /\ IF b.k = "Eof" THEN SendS(Msg("AckEof", b.c, 0)) /\ rState' = "done"
                    ELSE IF drive = "S" THEN SendS(Msg("Ack", b.c, 0)) /\ rState' = "idle"
                    ELSE rState' = "idle" /\ UNCHANGED <<toS, wire>>
            ELSE rState' = "failed" /\ UNCHANGED <<rGot, rCtr, toS, wire>>
         /\ toR' = Tail(toR)
         /\ UNCHANGED <<len, mbs, drive, sCtr, sLeft, sWait>>

Done == sWait = "done" /\ rState = "done" /\ UNCHANGED vars
Next == SSend \/ SAnswer \/ SAck \/ RAsk \/ RRecv \/ Done
Spec == Init /\ [][Next]_vars /\ WF_vars(Next)

\* --- properties ---
NoFailure == sWait # "failed" /\ rState # "failed"
\* what the reader got is a prefix of the file, and the whole file once it is done
PrefixDelivered == rGot <= len /\ rGot + sLeft <= len /\ (rState = "done" => rGot = len)
\* flow control: never more than one block in flight, counters go up by one
BlocksOnWire == SelectSeq(wire, LAMBDA m : m.k \in {"Block", "Eof"})
OneInFlight == Len(toR) <= 1
CountersInOrder == \A j \in 1..Len(BlocksOnWire) : BlocksOnWire[j].c = j - 1 /\ BlocksOnWire[j].n <= mbs
EofIsLast == \A j \in 1..Len(BlocksOnWire) : BlocksOnWire[j].k = "Eof" => j = Len(BlocksOnWire)
Terminates == <>(sWait = "done" /\ rState = "done")
\* one REPLAY line per scenario: the complete message history of the finished transfer (the protocol is deterministic)
EmitScenario == (sWait = "done" /\ rState = "done")
                => PrintT(<<"REPLAY", ToJson([len |-> len, mbs |-> mbs, drive |-> drive, wire |-> wire])>>)
=============================================================================
