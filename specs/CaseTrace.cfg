SPECIFICATION Spec
CONSTANTS
  DevNode1 = 8192
  DevNode2 = 8199
POSTCONDITION TraceAccepted
CHECK_DEADLOCK FALSE
