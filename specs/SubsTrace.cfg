SPECIFICATION Spec
CONSTANTS
  Subs = {1, 2}
  Paths = {1, 2, 3}
  MinInt = 1
  MaxInt = 4
POSTCONDITION TraceAccepted
CHECK_DEADLOCK FALSE
