SPECIFICATION Spec
INVARIANTS Emit AcceptOnlyAuthentic
CHECK_DEADLOCK FALSE
