----------------------------- MODULE SubsProp -----------------------------
(***************************************************************************)
(* Layer P for C13: what a subscriber must eventually learn.  Written from *)
(* the property text.  Observable events (t = time in seconds):            *)
(*   Change(p)            the value of subscribed path p changed            *)
(*   Sub(s, t)            subscription s accepted, its priming report opens *)
(*   Begin(s, t)          a report to s is started                          *)
(*   Deliver(s, p, v)     version v of path p is put into the open report   *)
(*   Event                a subscribed event occurred (events are numbered  *)
(*                        1, 2, .. in order of occurrence)                  *)
(*   DeliverEv(s, lo, hi) the events lo+1 .. hi are put into the open report *)
(*   End(s, r, t)         the open report of s ends: r = "ok" (subscriber   *)
(*                        confirmed), "fail" (did not reach it, retry),     *)
(*                        "drop" (subscription ended)                       *)
(*   Gone(s)              subscription s ended for another reason           *)
(*   Pass(t)              the reporter swept expired subscriptions at t     *)
(*   Wake(w)              with nothing to report, the reporter sleeps till w*)
(*   Quiet                nothing in flight, nothing left to report         *)
(***************************************************************************)
EXTENDS Integers, FiniteSets
CONSTANTS Subs, Paths, MinInt, MaxInt

NoRep == [p \in {} |-> 0]
Fresh == [ver    |-> [p \in Paths |-> 0],
          live   |-> {},                       \* subscriptions that exist
          primed |-> {},                       \* ... whose priming report was confirmed
          known  |-> [s \in Subs |-> [p \in Paths |-> -1]],   \* what each subscriber was last told
          cur    |-> [s \in Subs |-> NoRep],   \* content of the open report (path -> version)
          open   |-> {},                       \* subscriptions with an open report
          failed |-> [s \in Subs |-> {}],      \* paths carried by reports to s that did not get through
          lastOk |-> [s \in Subs |-> -1],      \* time of the last confirmed report
          nev    |-> 0,                        \* number of events that occurred so far
          evKnown |-> [s \in Subs |-> 0],      \* every event up to this number was reported to s and confirmed
          evCur  |-> [s \in Subs |-> -1],      \* upper end of the event range carried by the open report (-1 = none)
          evFailed |-> [s \in Subs |-> FALSE]] \* a report carrying events did not get through

ChangeOk(p, st)  == TRUE
AfterChange(p, st) == [st EXCEPT !.ver[p] = @ + 1]

SubOk(s, t, st) == s \notin st.live
AfterSub(s, t, st) == [st EXCEPT !.live = @ \cup {s}, !.open = @ \cup {s}, !.cur[s] = NoRep,
                                 !.known[s] = [p \in Paths |-> -1], !.failed[s] = {}, !.lastOk[s] = -1,
                                 !.evKnown[s] = 0, !.evCur[s] = -1, !.evFailed[s] = FALSE]

\* MinInterval: a report to a primed subscription is not started before MinInt after the last confirmed one
BeginOk(s, t, st) == /\ s \in st.live /\ s \notin st.open
                     /\ (s \in st.primed => t >= st.lastOk[s] + MinInt)
AfterBegin(s, t, st) == [st EXCEPT !.open = @ \cup {s}, !.cur[s] = NoRep, !.evCur[s] = -1]

EventOk(st) == TRUE
AfterEvent(st) == [st EXCEPT !.nev = @ + 1]
\* the report carries exactly the events the subscriber has not confirmed yet, up to some event that did occur
DeliverEvOk(s, lo, hi, st) == s \in st.open /\ lo = st.evKnown[s] /\ lo <= hi /\ hi <= st.nev
AfterDeliverEv(s, lo, hi, st) == [st EXCEPT !.evCur[s] = hi]

\* a report carries the current value
DeliverOk(s, p, v, st) == s \in st.open /\ v = st.ver[p]
AfterDeliver(s, p, v, st) == [st EXCEPT !.cur[s] = [q \in (DOMAIN @) \cup {p} |-> IF q = p THEN v ELSE @[q]]]

EndOk(s, r, t, st) ==
  /\ s \in st.open
  /\ st.failed[s] \subseteq DOMAIN st.cur[s]                     \* RetrySameContent: what failed is sent again
  /\ (r = "ok" /\ s \notin st.primed) => DOMAIN st.cur[s] = Paths   \* the priming report carries everything
  /\ (st.evFailed[s] /\ r # "drop") => st.evCur[s] # -1              \* events of a failed report are sent again
AfterEnd(s, r, t, st) ==
  IF r = "ok" THEN [st EXCEPT !.open = @ \ {s}, !.primed = @ \cup {s}, !.failed[s] = {}, !.lastOk[s] = t,
                              !.evKnown[s] = IF st.evCur[s] # -1 THEN st.evCur[s] ELSE @, !.evFailed[s] = FALSE,
                              !.known[s] = [p \in Paths |-> IF p \in DOMAIN st.cur[s] THEN st.cur[s][p] ELSE @[p]]]
  ELSE IF r = "fail" THEN [st EXCEPT !.open = @ \ {s}, !.failed[s] = @ \cup DOMAIN st.cur[s],
                                     !.evFailed[s] = @ \/ (st.evCur[s] # -1 /\ st.evCur[s] > st.evKnown[s])]
  ELSE [st EXCEPT !.open = @ \ {s}, !.live = @ \ {s}, !.primed = @ \ {s}]

GoneOk(s, st) == s \in st.live
AfterGone(s, st) == [st EXCEPT !.open = @ \ {s}, !.live = @ \ {s}, !.primed = @ \ {s}]

AfterGoneAll(gone, st) == [st EXCEPT !.open = @ \ gone, !.live = @ \ gone, !.primed = @ \ gone]

\* EndsWithinMax: after the sweep at time t no idle subscription is older than MaxInt since its last success
PassOk(t, st) == \A s \in st.primed \ st.open : t < st.lastOk[s] + MaxInt
\* LivenessBeforeMax: the reporter wakes up early enough to report to everyone before MaxInt elapses
WakeOk(w, st) == \A s \in st.primed \ st.open : w < st.lastOk[s] + MaxInt

\* NoLostUpdate: at quiescence every live subscriber knows the current value of every subscribed path
QuietOk(st) == /\ st.open = {}
               /\ \A s \in st.live : \A p \in Paths : st.known[s][p] = st.ver[p]
               /\ \A s \in st.live : st.evKnown[s] = st.nev                  \* ... and of every event
=============================================================================
