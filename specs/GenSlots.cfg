\* schedule generator (simulation): the real table (16 slots) with 13 permanently busy sessions leaves 3
SPECIFICATION Spec
CONSTANTS
  Inits = {1, 2, 3}
  Cap = 16
  Busy = 13
  MaxOps = 16
INVARIANTS NeverEvictBusy NoLeak Capacity EmitAtEnd
CHECK_DEADLOCK FALSE
