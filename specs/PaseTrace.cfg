SPECIFICATION Spec
CONSTANTS
  MaxFailures = 20
  PollMs = 1500
POSTCONDITION TraceAccepted
CHECK_DEADLOCK FALSE
