\* B on fabrics 1 and 2, the attacker is a member of fabric 2 and knows fabric 1 IPK and holds a genuine NOC of fabric 1 (a malicious member); check left out: none
SPECIFICATION Spec
CONSTANTS
  BFabs = {1, 2}
  Leak = TRUE
  Insider = TRUE
  Bug = "none"
INVARIANTS RespAuth InitAuth KeyAgreement
CHECK_DEADLOCK FALSE
