SPECIFICATION Spec
CONSTANTS
  R = 0
POSTCONDITION TraceAccepted
CHECK_DEADLOCK FALSE
