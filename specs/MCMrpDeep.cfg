\* one request/response round, 3 retransmissions, up to 9 deliveries, arbitrary loss and duplication
SPECIFICATION Spec
CONSTANTS
  MaxRetrans = 3
  MaxDeliveries = 9
  Rounds = 1
  MaxSlow = 1
  Recheck = TRUE
  MaxOps = 40
VIEW view
INVARIANTS SuccessIsTrue AtMostOnceInOrder RetransIdentical Budget
CHECK_DEADLOCK FALSE
