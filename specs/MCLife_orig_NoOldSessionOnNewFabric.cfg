\* 2 administrators, 2 fabric slots, 3 incarnations, up to 13 operations; the code as found: TLC must find the violations
SPECIFICATION Spec
CONSTANTS
  Ctl = {1, 2}
  MaxIdx = 2
  MaxGen = 3
  MaxOps = 13
  Variant = "orig"
  StoreFaults = FALSE
VIEW view
INVARIANTS NoOldSessionOnNewFabric
CHECK_DEADLOCK FALSE
