----------------------------- MODULE CertChain -----------------------------
(***************************************************************************)
(* C19: when is an operational certificate chain valid under the Matter    *)
(* rules.  The reference predicate Valid is written from the property text *)
(* and the Matter Core specification (Operational Certificate Encoding,    *)
(* certificate chain validation), not from the code.  The module is also a *)
(* generator: it enumerates (chain shape, up to two mutations, time        *)
(* context, purpose) and prints each case with the reference verdict.      *)
(*                                                                         *)
(* Abstract certificate:                                                   *)
(*  [type \in NOC/ICAC/RCAC (from the subject name), key, sigBy (key that  *)
(*   produced the signature), sigOk, subj, issuer (names), skid, akid,     *)
(*   nb, na (validity, na = 0: no expiry), isCA, pathLen (-1 = absent),    *)
(*   ku, eku (sets), critExt, nodeId, fabricId (-1 = absent)]              *)
(* A chain is a sequence leaf .. root.                                     *)
(***************************************************************************)
EXTENDS Integers, Sequences, FiniteSets, TLC, Json

NOW == 100            \* the node's time (abstract seconds)
FAB == 1              \* fabric id of the fabric the chain is used for
KRoot == "kR"  KIca == "kI"  KNoc == "kN"  KOther == "kX"  KRoot2 == "kR2"

BaseRoot == [type |-> "RCAC", key |-> KRoot, sigBy |-> KRoot, sigOk |-> TRUE, subj |-> "root", issuer |-> "root",
             skid |-> KRoot, akid |-> KRoot, nb |-> 1, na |-> 0, isCA |-> TRUE, pathLen |-> -1,
             ku |-> {"keyCertSign", "crlSign"}, eku |-> {}, exts |-> <<>>, nodeId |-> -1, fabricId |-> -1]
BaseIca  == [type |-> "ICAC", key |-> KIca, sigBy |-> KRoot, sigOk |-> TRUE, subj |-> "ica", issuer |-> "root",
             skid |-> KIca, akid |-> KRoot, nb |-> 1, na |-> 0, isCA |-> TRUE, pathLen |-> 0,
             ku |-> {"keyCertSign", "crlSign"}, eku |-> {}, exts |-> <<>>, nodeId |-> -1, fabricId |-> -1]
BaseNoc(parent) ==
            [type |-> "NOC", key |-> KNoc, sigBy |-> parent.key, sigOk |-> TRUE, subj |-> "node", issuer |-> parent.subj,
             skid |-> KNoc, akid |-> parent.key, nb |-> 1, na |-> 0, isCA |-> FALSE, pathLen |-> -1,
             ku |-> {"digitalSignature"}, eku |-> {"serverAuth", "clientAuth"}, exts |-> <<>>, nodeId |-> 7, fabricId |-> FAB]
BaseChain(shape) == IF shape = 2 THEN <<BaseNoc(BaseRoot), BaseRoot>> ELSE <<BaseNoc(BaseIca), BaseIca, BaseRoot>>

(* ---- the reference predicate ---- *)
\* exts: the future-extensions elements of the certificate, each a sequence of X.509 extensions given by their critical flag
CritExt(c) == \E x \in 1..Len(c.exts) : \E y \in 1..Len(c.exts[x]) : c.exts[x][y]
TimeOk(c, ctx) == (c.na = 0 \/ ctx.now <= c.na) /\ (ctx.reliable => ctx.now >= c.nb)
SignedBy(c, p) == c.sigOk /\ c.sigBy = p.key /\ c.issuer = p.subj /\ c.akid = p.skid
LeafOk(c, ctx) == /\ c.type = "NOC" /\ ~c.isCA /\ "digitalSignature" \in c.ku
                  /\ {"serverAuth", "clientAuth"} \subseteq c.eku
                  /\ c.nodeId # -1
                  /\ (ctx.purpose # "verify" => c.fabricId # -1 /\ c.fabricId = ctx.fabricId)
\* an authority at position i (2 = directly above the leaf) may have i - 2 intermediates below it
AuthOk(c, i) == /\ c.type \in {"ICAC", "RCAC"} /\ c.isCA /\ "keyCertSign" \in c.ku
                /\ (c.pathLen = -1 \/ i - 2 <= c.pathLen)
Valid(ch, ctx) ==
  LET n == Len(ch) root == ch[n] IN
  /\ n \in {2, 3}
  /\ \A i \in 1..(n - 1) : SignedBy(ch[i], ch[i + 1])
  /\ SignedBy(root, root) /\ root.type = "RCAC"                    \* the chain ends in a self-signed root
  /\ \A i \in 2..(n - 1) : ~SignedBy(ch[i], ch[i]) /\ ch[i].akid # ch[i].skid /\ ch[i].type = "ICAC"   \* intermediates are not self-signed
  /\ \A i \in 1..n : TimeOk(ch[i], ctx) /\ ~CritExt(ch[i])
  /\ LeafOk(ch[1], ctx)
  /\ \A i \in 2..n : AuthOk(ch[i], i)
  /\ (\A i \in 2..n : ch[i].fabricId = -1 \/ ctx.purpose # "case" \/ ch[i].fabricId = ctx.fabricId)
  /\ (ctx.purpose # "verify" => root.key = ctx.trustedRoot)        \* ... that is the trusted root for the purpose at hand
  /\ (ctx.purpose = "addnoc" => ch[1].key = ctx.csrKey /\ ~(ctx.fabricExists /\ root.key = KRoot /\ ch[1].fabricId = FAB))

(* ---- mutations: each changes the base chain in exactly one respect ---- *)
Muts == {"none", "nocSigBit", "icaSigBit", "rootSigBit", "nocIssuerName", "icaIssuerName", "nocAkid", "icaAkid",
         "nocExpired", "icaExpired", "rootExpired", "nocNotYet", "icaNotYet",
         "nocIsCA", "nocNoDigSig", "nocNoClientAuth", "nocNoServerAuth",
         "icaNotCA", "icaNoCertSign", "rootNotCA", "rootNoCertSign", "rootPathLen0", "icaPathLen1",
         "nocCritExt", "icaCritExt", "nocNoNodeId", "nocNoFabricId", "nocOtherFabric", "icaOtherFabric",
         "rootInIcaSlot", "untrustedRoot", "swapNocIca", "nocAsAuthority", "icaRepeated",
         "nocKeyNotCsr", "fabricExists", "fabricExistsReissuedRoot",
         "rootCritExt", "nocBenignExt", "icaBenignExt", "nocCritExtSecondElement", "icaCritExtSecondElement", "rootCritExtThirdElement",
         "nocCritExtSecondInElement", "nocIssuerEmpty", "nocIssuerExtraAttr", "icaIssuerEmpty", "icaIssuerExtraAttr",
         "rootIssuerEmpty", "rootIssuerExtraAttr", "rootSubjectExtraAttr"}
NeedsIca == {"icaSigBit", "icaIssuerName", "icaAkid", "icaExpired", "icaNotYet", "icaNotCA", "icaNoCertSign", "icaPathLen1",
             "icaCritExt", "icaOtherFabric", "rootInIcaSlot", "swapNocIca", "icaRepeated", "rootPathLen0",
             "icaBenignExt", "icaCritExtSecondElement", "icaIssuerEmpty", "icaIssuerExtraAttr"}
Apply(ch, m) ==
  LET n == Len(ch) ica == IF n = 3 THEN 2 ELSE 1 IN
  CASE m = "none" -> ch
    [] m = "nocSigBit"  -> [ch EXCEPT ![1].sigOk = FALSE]
    [] m = "icaSigBit"  -> [ch EXCEPT ![ica].sigOk = FALSE]
    [] m = "rootSigBit" -> [ch EXCEPT ![n].sigOk = FALSE]
    [] m = "nocIssuerName" -> [ch EXCEPT ![1].issuer = "someoneelse"]
    [] m = "icaIssuerName" -> [ch EXCEPT ![ica].issuer = "someoneelse"]
    [] m = "nocAkid"    -> [ch EXCEPT ![1].akid = KOther]
    [] m = "icaAkid"    -> [ch EXCEPT ![ica].akid = KOther]
    [] m = "nocExpired" -> [ch EXCEPT ![1].na = NOW - 10]
    [] m = "icaExpired" -> [ch EXCEPT ![ica].na = NOW - 10]
    [] m = "rootExpired" -> [ch EXCEPT ![n].na = NOW - 10]
    [] m = "nocNotYet"  -> [ch EXCEPT ![1].nb = NOW + 10]
    [] m = "icaNotYet"  -> [ch EXCEPT ![ica].nb = NOW + 10]
    [] m = "nocIsCA"    -> [ch EXCEPT ![1].isCA = TRUE]
    [] m = "nocNoDigSig" -> [ch EXCEPT ![1].ku = {"keyEncipherment"}]
    [] m = "nocNoClientAuth" -> [ch EXCEPT ![1].eku = {"serverAuth"}]
    [] m = "nocNoServerAuth" -> [ch EXCEPT ![1].eku = {"clientAuth"}]
    [] m = "icaNotCA"   -> [ch EXCEPT ![ica].isCA = FALSE]
    [] m = "icaNoCertSign" -> [ch EXCEPT ![ica].ku = {"crlSign"}]
    [] m = "rootNotCA"  -> [ch EXCEPT ![n].isCA = FALSE]
    [] m = "rootNoCertSign" -> [ch EXCEPT ![n].ku = {"crlSign"}]
    [] m = "rootPathLen0" -> [ch EXCEPT ![n].pathLen = 0]
    [] m = "icaPathLen1" -> [ch EXCEPT ![ica].pathLen = 1]
    [] m = "nocCritExt" -> [ch EXCEPT ![1].exts = << <<TRUE>> >>]
    [] m = "icaCritExt" -> [ch EXCEPT ![ica].exts = << <<TRUE>> >>]
    [] m = "rootCritExt" -> [ch EXCEPT ![n].exts = << <<TRUE>> >>]
    \* an unknown extension that is not critical is no reason to refuse; a critical one anywhere is
    [] m = "nocBenignExt" -> [ch EXCEPT ![1].exts = << <<FALSE>> >>]
    [] m = "icaBenignExt" -> [ch EXCEPT ![ica].exts = << <<FALSE>>, <<FALSE>> >>]
    [] m = "nocCritExtSecondElement" -> [ch EXCEPT ![1].exts = << <<FALSE>>, <<TRUE>> >>]
    [] m = "icaCritExtSecondElement" -> [ch EXCEPT ![ica].exts = << <<FALSE>>, <<TRUE>> >>]
    [] m = "rootCritExtThirdElement" -> [ch EXCEPT ![n].exts = << <<FALSE>>, <<FALSE>>, <<TRUE>> >>]
    [] m = "nocCritExtSecondInElement" -> [ch EXCEPT ![1].exts = << <<FALSE, TRUE>> >>]
    \* names that differ from the parent's subject only in the number of attributes
    [] m = "nocIssuerEmpty" -> [ch EXCEPT ![1].issuer = "empty"]
    [] m = "nocIssuerExtraAttr" -> [ch EXCEPT ![1].issuer = "issuer+x"]
    [] m = "icaIssuerEmpty" -> [ch EXCEPT ![ica].issuer = "empty"]
    [] m = "icaIssuerExtraAttr" -> [ch EXCEPT ![ica].issuer = "issuer+x"]
    [] m = "rootIssuerEmpty" -> [ch EXCEPT ![n].issuer = "empty"]
    [] m = "rootIssuerExtraAttr" -> [ch EXCEPT ![n].issuer = "issuer+x"]
    [] m = "rootSubjectExtraAttr" -> [ch EXCEPT ![n].subj = "root+x"]      \* the root's own subject longer than its issuer (and than what it issued names)
    [] m = "nocNoNodeId" -> [ch EXCEPT ![1].nodeId = -1, ![1].type = "none"]
    [] m = "nocNoFabricId" -> [ch EXCEPT ![1].fabricId = -1]
    [] m = "nocOtherFabric" -> [ch EXCEPT ![1].fabricId = FAB + 1]
    [] m = "icaOtherFabric" -> [ch EXCEPT ![ica].fabricId = FAB + 1]
    [] m = "rootInIcaSlot" -> <<BaseNoc(BaseRoot), BaseRoot, BaseRoot>>               \* the RCAC presented as ICAC
    [] m = "untrustedRoot" -> LET r2 == [BaseRoot EXCEPT !.key = KRoot2, !.sigBy = KRoot2, !.skid = KRoot2, !.akid = KRoot2] IN
                              IF n = 2 THEN <<[BaseNoc(r2) EXCEPT !.sigBy = KRoot2], r2>>
                              ELSE LET i2 == [BaseIca EXCEPT !.sigBy = KRoot2, !.akid = KRoot2] IN <<BaseNoc(i2), i2, r2>>
    [] m = "swapNocIca" -> <<ch[2], ch[1], ch[3]>>
    [] m = "nocAsAuthority" -> LET n2 == [BaseNoc(ch[n]) EXCEPT !.key = KOther, !.skid = KOther, !.subj = "node2"]   \* a NOC signs another NOC
                                   lf == [BaseNoc(n2) EXCEPT !.sigBy = KOther, !.akid = KOther, !.issuer = "node2"]
                               IN <<lf, n2, ch[n]>>
    [] m = "icaRepeated" -> <<ch[1], ch[2], ch[2]>>                                   \* the chain does not reach a root
    [] m = "nocKeyNotCsr" -> ch                                                        \* context mutation, see Ctx
    [] m = "fabricExists" -> ch
    [] m = "fabricExistsReissuedRoot" -> ch       \* the fabric exists with a re-issued root (same key and names, other serial)
    [] OTHER -> ch

\* CASE transmits NOC and ICAC only (the root is the fabric's own); the bare verifier has no notion of "intermediate"
Applicable(shape, m, p) == /\ (m \in NeedsIca => shape = 3) /\ (m = "nocAsAuthority" => shape = 2)
                           /\ (m \in {"icaRepeated", "swapNocIca"} => p # "case")
                           /\ (m = "rootInIcaSlot" => p # "verify")

VARIABLES case, n
Purposes == {"verify", "case", "addnoc"}
Case(shape, m1, m2, reliable, purpose) ==
  LET ch == Apply(Apply(BaseChain(shape), m1), m2)
      ctx == [now |-> NOW, reliable |-> reliable, purpose |-> purpose,
              fabricId |-> IF purpose = "addnoc" THEN ch[1].fabricId ELSE FAB,
              trustedRoot |-> IF purpose = "addnoc" THEN ch[Len(ch)].key ELSE KRoot,
              csrKey |-> IF "nocKeyNotCsr" \in {m1, m2} THEN KOther ELSE KNoc,
              fabricExists |-> {"fabricExists", "fabricExistsReissuedRoot"} \cap {m1, m2} # {}]
  IN [shape |-> shape, m1 |-> m1, m2 |-> m2, reliable |-> reliable, purpose |-> purpose, valid |-> Valid(ch, ctx)]

\* single mutations exhaustively; pairs only of mutations touching different certificates / aspects (second one from a short list)
Second == {"none", "nocExpired", "rootExpired", "nocNoDigSig", "rootNoCertSign", "nocOtherFabric", "untrustedRoot", "nocSigBit"}
Structural == {"rootInIcaSlot", "untrustedRoot", "swapNocIca", "nocAsAuthority", "icaRepeated"}
Init == /\ n = 0
        /\ \E shape \in {2, 3}, m1 \in Muts, m2 \in Second, r \in BOOLEAN, p \in Purposes :
             /\ Applicable(shape, m1, p) /\ Applicable(shape, m2, p)
             /\ (m2 # "none" => m1 # m2 /\ m1 \notin Structural /\ m2 \notin Structural /\ m1 # "none")
             /\ (m1 \in {"nocKeyNotCsr", "fabricExists", "fabricExistsReissuedRoot"} => p = "addnoc")
             /\ case = Case(shape, m1, m2, r, p)
Next == n = 0 /\ n' = 1 /\ UNCHANGED case
Spec == Init /\ [][Next]_<<case, n>>
Emit == PrintT(<<"REPLAY", ToJson(case)>>)
\* sanity of the reference: the unmutated chains are valid, every single mutation except the two that only matter
\* with a reliable clock makes the chain invalid
BaseValid == (case.m1 = "none" /\ case.m2 = "none") => case.valid
MutInvalid == (case.m1 # "none" /\ case.m2 = "none" /\ ~(case.m1 \in {"nocNotYet", "icaNotYet"} /\ ~case.reliable)
               /\ ~(case.m1 \in {"nocOtherFabric", "icaOtherFabric", "untrustedRoot", "nocNoFabricId"} /\ case.purpose = "verify")
               /\ ~(case.m1 \in {"nocOtherFabric", "icaOtherFabric", "untrustedRoot"} /\ case.purpose = "addnoc")
               /\ case.m1 \notin {"icaPathLen1", "nocBenignExt", "icaBenignExt"}) => ~case.valid
Benign == (case.m1 \in {"nocBenignExt", "icaBenignExt"} /\ case.m2 = "none") => case.valid
=============================================================================
