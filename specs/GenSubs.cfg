\* schedule generator (simulation): same machine, longer runs, more changes and failures
SPECIFICATION Spec
CONSTANTS
  Subs = {1, 2}
  Paths = {1, 2, 3}
  ClusterOf <- ClusterOfDef
  CAP = 2
  MinInt = 1
  MaxInt = 4
  Variant = "fixed"
  MaxChanges = 8
  MaxT = 12
  MaxOps = 40
  MaxEvents = 4
  MaxFails = 3
INVARIANTS Refines NoLostUpdate EmitAtEnd
CHECK_DEADLOCK FALSE
