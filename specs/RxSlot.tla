-------------------------------- MODULE RxSlot --------------------------------
(***************************************************************************)
(* Layer I for C10: the single receive slot of the transport and the       *)
(* hand-over of a received message to "its" exchange, transcribed from     *)
(* transport.rs (process_rx: only when the slot is empty; decode ->        *)
(* Session::post_recv: match an exchange by (exchange id, role) / open a   *)
(* responder exchange for an initiator message / NoExchange; accept        *)
(* timeout; orphan sweep; dropped-exchange closer, which closes the whole  *)
(* session when the dropped exchange still has a retransmission pending)   *)
(* and transport/exchange.rs (accept, recv by the owner, drop).            *)
(* Several secure sessions Sess; the peers choose the exchange ids, so the *)
(* same id may be live on two sessions.  A pool of handlers with a fixed   *)
(* policy per exchange id:                                                 *)
(*   "reply"   accept, receive, answer (the answer acknowledges), close    *)
(*   "drop"    accept, receive, drop the exchange without answering        *)
(*   "hold"    accept, receive, keep receiving on the exchange for a       *)
(*             while, then drop it                                         *)
(*   "relDrop" accept, receive, answer reliably and drop the exchange at   *)
(*             once (the answer is still unacknowledged)                   *)
(* The peer may send any (session, exchange id, initiator, reliable).      *)
(* The device's own application may open up to MaxOwn exchanges of its own *)
(* (it is their initiator): a message WITHOUT the initiator flag on such a *)
(* (session, id) is the peer's answer and goes to that application; a      *)
(* message WITH the flag on the same (session, id) opens / continues a     *)
(* responder exchange of the same id - the role is part of the identity.   *)
(* RoleBlind = TRUE is the defect "the role is ignored for initiator       *)
(* messages" (must violate RightExchangeOnly).                             *)
(***************************************************************************)
EXTENDS Integers, Sequences, FiniteSets, TLC, Json
CONSTANTS Sess, ExIds, Handlers, MaxPkts, Policies, MaxOwn, OwnKeys, RoleBlind

Keys == Sess \X ExIds
Own11 == {<<1, 1>>}          \* for the configurations: the device opens its own exchange under (session 1, id 1)
NONE == [s |-> 0, ex |-> 0, old |-> FALSE, role |-> "none", init |-> FALSE]
VARIABLES rx,        \* message waiting in the slot, or NONE
          exch,      \* Keys -> "absent" | "pending" | "owned" | "dropped" | "droppedRetrans"
          owner,     \* Keys -> handler or 0
          hstate,    \* Handlers -> "idle" | "busy"
          ackp,      \* Keys -> an acknowledgement is owed on that exchange
          policy,    \* ExIds -> what the handler does with an exchange of that id
          up,        \* Sess -> the session exists
          inbound,
          delivered, \* set of <<key that got it, key it was for>>
          opened,    \* keys for which an initiator message arrived
          own,       \* Keys -> "absent" | "open" : exchanges the device itself initiated
          nown,      \* how many of them were opened so far
          deliveredOwn, \* set of <<own key that got it, key it was for, initiator flag of the message>>
          h
vars == <<rx, exch, owner, hstate, ackp, policy, up, inbound, delivered, opened, own, nown, deliveredOwn, h>>
view == <<rx, exch, owner, hstate, ackp, policy, up, inbound, delivered, opened, own, nown, deliveredOwn>>

Init == /\ rx = NONE /\ exch = [k \in Keys |-> "absent"] /\ owner = [k \in Keys |-> 0]
        /\ hstate = [x \in Handlers |-> "idle"] /\ ackp = [k \in Keys |-> FALSE]
        /\ policy \in [ExIds -> Policies]
        /\ up = [s \in Sess |-> TRUE] /\ inbound = 0 /\ delivered = {} /\ opened = {}
        /\ own = [k \in Keys |-> "absent"] /\ nown = 0 /\ deliveredOwn = {}
        /\ h = <<[op |-> "Policy", p |-> policy]>>

\* process_rx (only with an empty slot) + decode_packet + Session::post_recv
RecvPkt(s, e, init, rel) ==
  LET k == <<s, e>> IN
  /\ rx = NONE /\ inbound < MaxPkts /\ inbound' = inbound + 1
  /\ h' = Append(h, [op |-> "Pkt", s |-> s, e |-> e, init |-> init, rel |-> rel])
  /\ IF ~up[s] THEN UNCHANGED <<rx, exch, ackp, opened>>                          \* NoSession: dropped (SessionNotFound answer)
     ELSE IF own[k] = "open" /\ (~init \/ RoleBlind)
          THEN /\ rx' = [s |-> s, ex |-> e, old |-> FALSE, role |-> "ini", init |-> init]   \* for the exchange the device initiated
               /\ UNCHANGED <<exch, ackp, opened>>
     ELSE IF exch[k] # "absent" /\ init
          THEN /\ rx' = [s |-> s, ex |-> e, old |-> FALSE, role |-> "rsp", init |-> TRUE]  \* next message of a responder exchange
               /\ ackp' = [ackp EXCEPT ![k] = @ \/ rel] /\ UNCHANGED <<exch, opened>>
     ELSE IF exch[k] = "absent" /\ init
          THEN /\ exch' = [exch EXCEPT ![k] = "pending"]                            \* opens a new responder exchange
               /\ rx' = [s |-> s, ex |-> e, old |-> FALSE, role |-> "rsp", init |-> TRUE]
               /\ ackp' = [ackp EXCEPT ![k] = rel] /\ opened' = opened \cup {k}
     ELSE UNCHANGED <<rx, exch, ackp, opened>>                                     \* answer to an unknown exchange: dropped
  /\ UNCHANGED <<owner, hstate, policy, up, delivered, own, nown, deliveredOwn>>
\* a datagram for a session the device never had
StrayPkt == /\ rx = NONE /\ inbound < MaxPkts /\ inbound' = inbound + 1
            /\ h' = Append(h, [op |-> "Stray"])
            /\ UNCHANGED <<rx, exch, owner, hstate, ackp, policy, up, delivered, opened, own, nown, deliveredOwn>>

RxKey == <<rx.s, rx.ex>>
\* the device's own application: Exchange::initiate_for_session + send, recv on it, drop
DevInit(s, e) == LET k == <<s, e>> IN
  /\ nown < MaxOwn /\ up[s] /\ own[k] = "absent" /\ own' = [own EXCEPT ![k] = "open"] /\ nown' = nown + 1
  /\ h' = Append(h, [op |-> "DevInit", s |-> s, e |-> e])
  /\ UNCHANGED <<rx, exch, owner, hstate, ackp, policy, up, inbound, delivered, opened, deliveredOwn>>
OwnRecv(k) == /\ own[k] = "open" /\ rx # NONE /\ RxKey = k /\ rx.role = "ini"
              /\ deliveredOwn' = deliveredOwn \cup {<<k, RxKey, rx.init>>} /\ rx' = NONE
              /\ UNCHANGED <<exch, owner, hstate, ackp, policy, up, inbound, delivered, opened, own, nown, h>>
OwnClose(k) == /\ own[k] = "open" /\ ~(rx # NONE /\ RxKey = k /\ rx.role = "ini") /\ own' = [own EXCEPT ![k] = "absent"]
               /\ UNCHANGED <<rx, exch, owner, hstate, ackp, policy, up, inbound, delivered, opened, nown, deliveredOwn, h>>
Accept(x) == /\ hstate[x] = "idle" /\ rx # NONE /\ rx.role = "rsp" /\ up[rx.s] /\ exch[RxKey] = "pending"
             /\ exch' = [exch EXCEPT ![RxKey] = "owned"] /\ owner' = [owner EXCEPT ![RxKey] = x]
             /\ hstate' = [hstate EXCEPT ![x] = "busy"]
             /\ UNCHANGED <<rx, ackp, policy, up, inbound, delivered, opened, own, nown, deliveredOwn, h>>

\* ExchangeId::recv: the owner takes the message that is for its session and its exchange
OwnerRecv(k) == /\ exch[k] = "owned" /\ rx # NONE /\ RxKey = k /\ rx.role = "rsp"
                /\ delivered' = delivered \cup {<<k, RxKey>>} /\ rx' = NONE
                /\ UNCHANGED <<exch, owner, hstate, ackp, policy, up, inbound, opened, own, nown, deliveredOwn, h>>

\* the owner is done with the exchange, as its policy says
OwnerFinish(k) ==
  /\ exch[k] = "owned" /\ (rx = NONE \/ RxKey # k \/ rx.role # "rsp")
  /\ CASE policy[k[2]] = "reply" -> /\ ackp' = [ackp EXCEPT ![k] = FALSE] /\ exch' = [exch EXCEPT ![k] = "absent"]   \* the answer carries the ack
       [] policy[k[2]] = "relDrop" -> /\ ackp' = [ackp EXCEPT ![k] = FALSE] /\ exch' = [exch EXCEPT ![k] = "droppedRetrans"]
       [] OTHER -> /\ UNCHANGED ackp /\ exch' = [exch EXCEPT ![k] = IF ackp[k] THEN "dropped" ELSE "absent"]   \* Exchange::drop
  /\ hstate' = [hstate EXCEPT ![owner[k]] = "idle"] /\ owner' = [owner EXCEPT ![k] = 0]
  /\ UNCHANGED <<rx, policy, up, inbound, delivered, opened, own, nown, deliveredOwn, h>>

Age == /\ rx # NONE /\ ~rx.old /\ rx' = [rx EXCEPT !.old = TRUE]
       /\ UNCHANGED <<exch, owner, hstate, ackp, policy, up, inbound, delivered, opened, own, nown, deliveredOwn, h>>
\* nobody accepted within ACCEPT_TIMEOUT_MS: the exchange is marked dropped and the slot is cleared
AcceptTimeout == /\ rx # NONE /\ rx.old /\ rx.role = "rsp" /\ up[rx.s] /\ exch[RxKey] = "pending"
                 /\ exch' = [exch EXCEPT ![RxKey] = "dropped"] /\ rx' = NONE
                 /\ UNCHANGED <<owner, hstate, ackp, policy, up, inbound, delivered, opened, own, nown, deliveredOwn, h>>
\* a message whose session / exchange vanished, or whose owner dropped the exchange
OrphanSweep == /\ rx # NONE /\ (~up[rx.s] \/ (rx.role = "rsp" /\ exch[RxKey] \in {"absent", "dropped", "droppedRetrans"}) \/ (rx.role = "ini" /\ own[RxKey] = "absent"))
               /\ rx' = NONE /\ UNCHANGED <<exch, owner, hstate, ackp, policy, up, inbound, delivered, opened, own, nown, deliveredOwn, h>>
\* dropped exchanges are closed: a stand-alone ack if one is owed, then the slot is freed ...
DroppedCloser == \E k \in Keys : /\ exch[k] = "dropped"
                                 /\ exch' = [exch EXCEPT ![k] = "absent"] /\ ackp' = [ackp EXCEPT ![k] = FALSE]
                                 /\ UNCHANGED <<rx, owner, hstate, policy, up, inbound, delivered, opened, own, nown, deliveredOwn, h>>
\* ... or, with a retransmission still pending, the whole session is closed (CloseSession) - whatever else is on it
SessionCloser == \E k \in Keys : /\ exch[k] = "droppedRetrans"
                                 /\ up' = [up EXCEPT ![k[1]] = FALSE]
                                 /\ exch' = [j \in Keys |-> IF j[1] = k[1] THEN "absent" ELSE exch[j]]
                                 /\ ackp' = [j \in Keys |-> IF j[1] = k[1] THEN FALSE ELSE ackp[j]]
                                 /\ hstate' = [x \in Handlers |-> IF \E j \in Keys : j[1] = k[1] /\ owner[j] = x THEN "idle" ELSE hstate[x]]
                                 /\ owner' = [j \in Keys |-> IF j[1] = k[1] THEN 0 ELSE owner[j]]
                                 /\ own' = [j \in Keys |-> IF j[1] = k[1] THEN "absent" ELSE own[j]]
                                 /\ UNCHANGED <<rx, policy, inbound, delivered, opened, nown, deliveredOwn, h>>

Next == \/ \E s \in Sess, e \in ExIds, i \in BOOLEAN, r \in BOOLEAN : RecvPkt(s, e, i, r)
        \/ StrayPkt
        \/ \E x \in Handlers : Accept(x)
        \/ \E k \in Keys : OwnerRecv(k) \/ OwnerFinish(k) \/ OwnRecv(k) \/ OwnClose(k)
        \/ \E k \in OwnKeys : DevInit(k[1], k[2])
        \/ Age \/ AcceptTimeout \/ OrphanSweep \/ DroppedCloser \/ SessionCloser

Fair == /\ WF_vars(Age) /\ WF_vars(AcceptTimeout) /\ WF_vars(OrphanSweep) /\ WF_vars(DroppedCloser) /\ WF_vars(SessionCloser)
        /\ \A k \in Keys : WF_vars(OwnerRecv(k)) /\ SF_vars(OwnerFinish(k))
        /\ \A k \in (IF MaxOwn > 0 THEN OwnKeys ELSE {}) : WF_vars(OwnRecv(k)) /\ SF_vars(OwnClose(k))
Spec == Init /\ [][Next]_vars /\ Fair

\* RightExchangeOnly: a message reaches only the exchange (session, id) it was sent on
RightExchangeOnly == /\ \A d \in delivered : d[1] = d[2]
                     /\ \A d \in deliveredOwn : d[1] = d[2] /\ ~d[3]          \* ... and in the role it was sent for
\* OpensOnlyIfAllowed: exchanges exist only for keys an initiator message arrived for
OpensOnlyIfAllowed == \A k \in Keys : exch[k] # "absent" => k \in opened
\* NoWedge: the slot always becomes free again
SlotEventuallyFree == (rx # NONE) ~> (rx = NONE)
\* UnclaimedIsDiscarded / no leak: once the peer stops sending, every exchange is eventually closed
EventuallyClean == <>[]((inbound = MaxPkts /\ nown = MaxOwn) => (\A k \in Keys : exch[k] = "absent" /\ own[k] = "absent") /\ rx = NONE)

EmitAtEnd == inbound = MaxPkts => PrintT(<<"REPLAY", ToJson(h)>>)
=============================================================================
