-------------------------------- MODULE RxSlot --------------------------------
(***************************************************************************)
(* Layer I for C10: the single receive slot of the transport and the       *)
(* hand-over of a received message to "its" exchange, transcribed from     *)
(* transport.rs (process_rx: only when the slot is empty; decode ->        *)
(* Session::post_recv: match an exchange by (exchange id, role) / open a   *)
(* responder exchange for an initiator message / NoExchange; accept        *)
(* timeout; orphan sweep; dropped-exchange closer) and transport/          *)
(* exchange.rs (accept, recv by the owner, drop).  One secure session,     *)
(* responder-role exchanges ExIds on our side, a pool of handlers with a   *)
(* fixed policy per exchange id:                                           *)
(*   "reply"  accept, receive, answer (the answer acknowledges), close     *)
(*   "drop"   accept, receive, drop the exchange without answering         *)
(*   "hold"   accept, receive, sit on the exchange for a while, then close *)
(* The peer may send any (exchange id, initiator flag, reliable flag).     *)
(***************************************************************************)
EXTENDS Integers, Sequences, FiniteSets, TLC, Json
CONSTANTS ExIds, Handlers, MaxPkts, Policies

NONE == [ex |-> 0, init |-> FALSE, old |-> FALSE]
VARIABLES rx,        \* message waiting in the slot, or NONE
          exch,      \* ExIds -> "absent" | "pending" | "owned" | "dropped"
          owner,     \* ExIds -> handler or 0
          hstate,    \* Handlers -> "idle" | "busy"
          ackp,      \* ExIds -> an acknowledgement is owed on that exchange
          policy,    \* ExIds -> what the handler does with that exchange
          sessionUp, inbound,
          delivered, \* set of <<exchange that got it, exchange it was for>>
          opened,    \* exchange ids for which an initiator message arrived
          h
vars == <<rx, exch, owner, hstate, ackp, policy, sessionUp, inbound, delivered, opened, h>>
view == <<rx, exch, owner, hstate, ackp, policy, sessionUp, inbound, delivered, opened>>

Init == /\ rx = NONE /\ exch = [e \in ExIds |-> "absent"] /\ owner = [e \in ExIds |-> 0]
        /\ hstate = [x \in Handlers |-> "idle"] /\ ackp = [e \in ExIds |-> FALSE]
        /\ policy \in [ExIds -> Policies]
        /\ sessionUp = TRUE /\ inbound = 0 /\ delivered = {} /\ opened = {}
        /\ h = <<[op |-> "Policy", p |-> policy]>>

\* process_rx (only with an empty slot) + decode_packet + Session::post_recv
RecvPkt(e, init, rel) ==
  /\ rx = NONE /\ inbound < MaxPkts /\ inbound' = inbound + 1
  /\ h' = Append(h, [op |-> "Pkt", e |-> e, init |-> init, rel |-> rel])
  /\ IF ~sessionUp THEN UNCHANGED <<rx, exch, ackp, opened>>                     \* NoSession: dropped (SessionNotFound answer)
     ELSE IF exch[e] # "absent" /\ init
          THEN /\ rx' = [ex |-> e, init |-> init, old |-> FALSE]                  \* next message of a responder exchange
               /\ ackp' = [ackp EXCEPT ![e] = @ \/ rel] /\ UNCHANGED <<exch, opened>>
     ELSE IF exch[e] = "absent" /\ init
          THEN /\ exch' = [exch EXCEPT ![e] = "pending"]                           \* opens a new responder exchange
               /\ rx' = [ex |-> e, init |-> init, old |-> FALSE]
               /\ ackp' = [ackp EXCEPT ![e] = rel] /\ opened' = opened \cup {e}
     ELSE UNCHANGED <<rx, exch, ackp, opened>>                                    \* answer to an unknown exchange: dropped
  /\ UNCHANGED <<owner, hstate, policy, sessionUp, delivered>>

Accept(x) == /\ hstate[x] = "idle" /\ rx # NONE /\ exch[rx.ex] = "pending"
             /\ exch' = [exch EXCEPT ![rx.ex] = "owned"] /\ owner' = [owner EXCEPT ![rx.ex] = x]
             /\ hstate' = [hstate EXCEPT ![x] = "busy"]
             /\ UNCHANGED <<rx, ackp, policy, sessionUp, inbound, delivered, opened, h>>

OwnerRecv(e) == /\ exch[e] = "owned" /\ rx # NONE /\ rx.ex = e
                /\ delivered' = delivered \cup {<<e, rx.ex>>} /\ rx' = NONE
                /\ UNCHANGED <<exch, owner, hstate, ackp, policy, sessionUp, inbound, opened, h>>

\* the owner is done with the exchange, as its policy says
OwnerFinish(e) == /\ exch[e] = "owned" /\ (rx = NONE \/ rx.ex # e)
                  /\ IF policy[e] = "reply"
                     THEN /\ ackp' = [ackp EXCEPT ![e] = FALSE] /\ exch' = [exch EXCEPT ![e] = "absent"]   \* the answer carries the ack
                     ELSE /\ UNCHANGED ackp /\ exch' = [exch EXCEPT ![e] = IF ackp[e] THEN "dropped" ELSE "absent"]   \* Exchange::drop
                  /\ hstate' = [hstate EXCEPT ![owner[e]] = "idle"] /\ owner' = [owner EXCEPT ![e] = 0]
                  /\ UNCHANGED <<rx, policy, sessionUp, inbound, delivered, opened, h>>

Age == /\ rx # NONE /\ ~rx.old /\ rx' = [rx EXCEPT !.old = TRUE]
       /\ UNCHANGED <<exch, owner, hstate, ackp, policy, sessionUp, inbound, delivered, opened, h>>
\* nobody accepted within ACCEPT_TIMEOUT_MS: the exchange is marked dropped and the slot is cleared
AcceptTimeout == /\ rx # NONE /\ rx.old /\ sessionUp /\ exch[rx.ex] = "pending"
                 /\ exch' = [exch EXCEPT ![rx.ex] = "dropped"] /\ rx' = NONE
                 /\ UNCHANGED <<owner, hstate, ackp, policy, sessionUp, inbound, delivered, opened, h>>
\* a message whose session / exchange vanished, or whose owner dropped the exchange
OrphanSweep == /\ rx # NONE /\ (~sessionUp \/ exch[rx.ex] \in {"absent", "dropped"})
               /\ rx' = NONE /\ UNCHANGED <<exch, owner, hstate, ackp, policy, sessionUp, inbound, delivered, opened, h>>
\* dropped exchanges are closed: a stand-alone ack if one is owed, then the slot is freed
DroppedCloser == \E e \in ExIds : /\ exch[e] = "dropped"
                                  /\ exch' = [exch EXCEPT ![e] = "absent"] /\ ackp' = [ackp EXCEPT ![e] = FALSE]
                                  /\ UNCHANGED <<rx, owner, hstate, policy, sessionUp, inbound, delivered, opened, h>>
SessionGone == /\ sessionUp /\ sessionUp' = FALSE
               /\ exch' = [e \in ExIds |-> "absent"] /\ ackp' = [e \in ExIds |-> FALSE]
               /\ hstate' = [x \in Handlers |-> "idle"] /\ owner' = [e \in ExIds |-> 0]
               /\ h' = Append(h, [op |-> "CloseSession"])
               /\ UNCHANGED <<rx, policy, inbound, delivered, opened>>

Next == \/ \E e \in ExIds, i \in BOOLEAN, r \in BOOLEAN : RecvPkt(e, i, r)
        \/ \E x \in Handlers : Accept(x)
        \/ \E e \in ExIds : OwnerRecv(e) \/ OwnerFinish(e)
        \/ Age \/ AcceptTimeout \/ OrphanSweep \/ DroppedCloser \/ SessionGone

Fair == /\ WF_vars(Age) /\ WF_vars(AcceptTimeout) /\ WF_vars(OrphanSweep) /\ WF_vars(DroppedCloser)
        /\ \A e \in ExIds : WF_vars(OwnerRecv(e)) /\ SF_vars(OwnerFinish(e))
Spec == Init /\ [][Next]_vars /\ Fair

\* RightExchangeOnly: a message reaches only the exchange it was sent on
RightExchangeOnly == \A d \in delivered : d[1] = d[2]
\* OpensOnlyIfAllowed: exchanges exist only for ids an initiator message arrived for
OpensOnlyIfAllowed == \A e \in ExIds : exch[e] # "absent" => e \in opened
\* NoWedge: the slot always becomes free again
SlotEventuallyFree == (rx # NONE) ~> (rx = NONE)
\* UnclaimedIsDiscarded / no leak: once the peer stops sending, every exchange is eventually closed
EventuallyClean == <>[](inbound = MaxPkts => (\A e \in ExIds : exch[e] = "absent") /\ rx = NONE)

EmitAtEnd == inbound = MaxPkts => PrintT(<<"REPLAY", ToJson(h)>>)
=============================================================================
