\* 2 initiators, revocation at 3 failures, up to 12 operations; the window is re-checked at Pake3
SPECIFICATION Spec
CONSTANTS
  Inits = {1, 2}
  MaxFail = 3
  MaxOps = 12
  Garbles = {0, 1, 2, 3}
  Variant = "fixed"
VIEW view
INVARIANTS SessionOnlyWhileOpen SessionOnlyWithPasscode FailuresCounted RevokedAtLimit
CHECK_DEADLOCK FALSE
