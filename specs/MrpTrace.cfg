SPECIFICATION Spec
CONSTANTS
  MinBackoff = 300
  MaxTx = 6
  MaxSendMs = 12000
  Judge = "C09"
POSTCONDITION TraceAccepted
CHECK_DEADLOCK FALSE
