------------------------------ MODULE CaseProp ------------------------------
(***************************************************************************)
(* Layer P for C01, written from the property text.  Observable events of  *)
(* the handshake world (device = CASE responder, initiators 1..3):         *)
(*  Start(i, kind, member, peerOk, fabric, gDir, gNth, t)  initiator i      *)
(*        begins a CASE attempt: it is / is not a holder of a valid NOC of *)
(*        a fabric of the device (with the right IPK), addresses the       *)
(*        device's node id or another one, on fabric 1 or 2; the network   *)
(*        alters its gNth handshake message (gDir "ini") or the device's   *)
(*        gNth answer (gDir "dev"), or nothing ("none")                    *)
(*  Hs(src, dst, opcode)  a handshake message on the wire (0x33 = the      *)
(*        device answered with Sigma2_Resume: the resumption flow)         *)
(*  DevSess(what, mode, reserved, i, fab, peerNode, cats, enc, dec)  the   *)
(*        device's session table gained an entry for initiator i           *)
(*  IniSess(i, fab, peerNode, enc, dec)  the initiator's handshake call    *)
(*        returned Ok and this is its session                              *)
(*  IniEnd(i, ok)                                                          *)
(***************************************************************************)
EXTENDS Integers, FiniteSets, Sequences
CONSTANTS DevNode1, DevNode2      \* the device's node id on fabric 1 / fabric 2

NodeOf(i) == 4096 + i                       \* 0x1001 .. 0x1003
CatsOf(i) == IF i = 1 THEN <<65537, 131075, 0>> ELSE <<0, 0, 0>>
NoAtt == [kind |-> "none", member |-> FALSE, peerOk |-> FALSE, fabric |-> 0, gDir |-> "none", gNth |-> 0, resumed |-> FALSE, dev |-> <<>>, ini |-> <<>>]
Fresh == [att |-> [i \in 1..3 |-> NoAtt]]

StartOk(i, kind, member, peerOk, fabric, gDir, gNth, t, s) == TRUE
AfterStart(i, kind, member, peerOk, fabric, gDir, gNth, t, s) ==
  [s EXCEPT !.att[i] = [kind |-> kind, member |-> member, peerOk |-> peerOk, fabric |-> fabric, gDir |-> gDir, gNth |-> gNth, resumed |-> FALSE, dev |-> <<>>, ini |-> <<>>]]
AfterHs(src, dst, opcode, s) == IF src = 0 /\ dst \in 1..3 /\ opcode = 51 THEN [s EXCEPT !.att[dst].resumed = TRUE] ELSE s

\* An altered, replayed, lost or reordered message may leave either end with no session or with the session of the
\* untouched run (some bytes are not protected by design: the final status, the closing byte of a message, the fields
\* of Sigma1 the resumption flow does not use).  What must never happen: a session for an initiator that is no holder of
\* a valid NOC of the addressed fabric, a session bound to another fabric / node id / CATs, or two ends holding the
\* session of one attempt with different keys.
Legit(a) == a.kind = "case" /\ a.member /\ a.peerOk
DevMayHold(a) == Legit(a)
IniMayHold(a) == Legit(a)

\* SessionImpliesAuth (responder): an operational session for initiator i only for a legitimate, untampered handshake,
\* bound to the addressed fabric, the NOC's node id and its CASE authenticated tags
DevSessOk(what, mode, reserved, i, fab, peerNode, cats, enc, dec, s) ==
  (what = "added" /\ mode = "case") =>
     /\ i \in 1..3 /\ DevMayHold(s.att[i])
     /\ fab = s.att[i].fabric /\ peerNode = NodeOf(i) /\ cats = CatsOf(i)
AfterDevSess(what, mode, reserved, i, fab, peerNode, cats, enc, dec, s) ==
  IF what = "added" /\ mode = "case" /\ i \in 1..3 THEN [s EXCEPT !.att[i].dev = <<enc, dec>>] ELSE s

\* SessionImpliesAuth (initiator) + KeyAgreement: both ends hold the same directional keys
IniSessOk(i, mode, fab, peerNode, enc, dec, s) ==
  mode = "case" =>
     /\ IniMayHold(s.att[i])
     /\ peerNode = (IF s.att[i].fabric = 2 THEN DevNode2 ELSE DevNode1)
     /\ (s.att[i].dev # <<>> => (s.att[i].dev[1] = dec /\ s.att[i].dev[2] = enc))
AfterIniSess(i, mode, fab, peerNode, enc, dec, s) == [s EXCEPT !.att[i].ini = <<enc, dec>>]
=============================================================================
