SPECIFICATION Spec
CONSTANTS
  Full = TRUE
INVARIANTS RoundTrip Emit
CHECK_DEADLOCK FALSE
