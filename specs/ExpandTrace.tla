---------------------------- MODULE ExpandTrace ----------------------------
(* Trace validation for C06 (node composition changing during an answer) against the Layer P rules of Expand.tla.      *)
(* Events, recorded from the real path expander: Reset(run, node, req) starts an answer; Change(node); Item(e, c, a);   *)
(* Status(e, c, a, code); Done.  The index of the path an item belongs to is not observable: it is chosen (the paths of  *)
(* a request are answered in order).                                                                                    *)
EXTENDS Expand, IOUtils
Rec == ndJsonDeserialize(IOEnv.TRACE)
VARIABLE i
tvars == <<allvars, i>>
R == Rec[i]
SeqSet(s) == {s[j] : j \in 1..Len(s)}
IsEvent(x) == i <= Len(Rec) /\ Rec[i].ev = x /\ i' = i + 1
Unused == UNCHANGED <<todo, item, epId, ci, li, done, changes, ok, h>>
TInit == /\ i = 1 /\ node = {} /\ req = <<>> /\ todo = <<>> /\ k = 0 /\ item = None /\ epId = -1 /\ ci = 0 /\ li = 0 /\ done = FALSE
         /\ changes = 0 /\ reported = {} /\ statused = {} /\ stable = {} /\ ok = TRUE /\ h = <<>>
TReset  == IsEvent("Reset") /\ node' = SeqSet(R.node) /\ stable' = SeqSet(R.node) /\ req' = R.req /\ reported' = {} /\ statused' = {} /\ k' = 1 /\ Unused
TChange == IsEvent("Change") /\ node' = SeqSet(R.node) /\ stable' = stable \cap SeqSet(R.node) /\ UNCHANGED <<req, reported, statused, k>> /\ Unused
TItem   == /\ IsEvent("Item")
           /\ \E kk \in k..Len(req) : /\ ItemOk(kk, req[kk], node, R.e, R.c, R.a)
                                      /\ ~IsWild(req[kk]) => kk \notin statused
                                      /\ k' = kk /\ reported' = reported \cup {<<kk, R.e, R.c, R.a>>}
           /\ UNCHANGED <<node, stable, req, statused>> /\ Unused
TStatus == /\ IsEvent("Status")
           /\ \E kk \in k..Len(req) : /\ req[kk] = P(R.e, R.c, R.a) /\ StatusOk(kk, req[kk], node)
                                      /\ k' = kk /\ statused' = statused \cup {kk}
           /\ UNCHANGED <<node, stable, req, reported>> /\ Unused
TDone   == IsEvent("Done") /\ Complete(req) /\ UNCHANGED <<node, stable, req, reported, statused, k>> /\ Unused
TNext == TReset \/ TChange \/ TItem \/ TStatus \/ TDone
TSpec == TInit /\ [][TNext]_tvars
TraceAccepted ==
  LET d == TLCGet("stats").diameter IN
  IF d - 1 = Len(Rec) THEN TRUE ELSE Print(<<"REJECTED", d, ToJson(Rec[d])>>, FALSE)
=============================================================================
