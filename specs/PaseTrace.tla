----------------------------- MODULE PaseTrace -----------------------------
(* Trace validation for C02 against Layer P (PaseProp).  {"ev":"Reset"} starts a new run. *)
EXTENDS PaseProp, TLC, Json, IOUtils
Rec == ndJsonDeserialize(IOEnv.TRACE)
VARIABLES i, st
vars == <<i, st>>
Init == i = 1 /\ st = Fresh
IsEvent(x) == i <= Len(Rec) /\ Rec[i].ev = x /\ i' = i + 1
R == Rec[i]
Reset   == IsEvent("Reset") /\ st' = Fresh
Open    == IsEvent("Open") /\ OpenOk(R.ok, R.timeout, R.t, st) /\ st' = AfterOpen(R.ok, R.timeout, R.t, st)
Close   == IsEvent("Close") /\ CloseOk(R.ok, R.t, st) /\ st' = AfterClose(R.ok, R.t, st)
Start   == IsEvent("Start") /\ StartOk(R.i, R.kind, R.pass_ok, R.garbled, R.t, st) /\ st' = AfterStart(R.i, R.kind, R.pass_ok, R.garbled, R.t, st)
DevSess == IsEvent("DevSess") /\ DevSessOk(R.what, R.mode, R.reserved, R.i, R.t, st) /\ st' = AfterDevSess(R.what, R.mode, R.reserved, R.i, R.t, st)
IniEnd  == IsEvent("IniEnd") /\ IniEndOk(R.i, R.ok, R.t, st) /\ st' = AfterIniEnd(R.i, R.ok, R.t, st)
Win     == IsEvent("Win") /\ WinOk(R.open, R.failures, R.advertised, R.expiry, R.t, st) /\ st' = AfterWin(R.open, R.failures, R.advertised, R.expiry, R.t, st)
Proof   == IsEvent("Proof") /\ ProofOk(R.i, R.t, st) /\ st' = AfterProof(R.i, R.t, st)
End     == IsEvent("End") /\ EndOk(st) /\ UNCHANGED st
Other   == i <= Len(Rec) /\ Rec[i].ev \notin {"Reset", "Open", "Close", "Start", "DevSess", "IniEnd", "Win", "Proof", "End"} /\ i' = i + 1 /\ UNCHANGED st
Next == Reset \/ Open \/ Close \/ Start \/ DevSess \/ IniEnd \/ Win \/ Proof \/ End \/ Other
Spec == Init /\ [][Next]_vars
TraceAccepted ==
  LET d == TLCGet("stats").diameter IN
  IF d - 1 = Len(Rec) THEN TRUE ELSE Print(<<"REJECTED", d, ToJson(Rec[d])>>, FALSE)
=============================================================================
