SPECIFICATION Spec
CONSTANTS
  TRecover = 3000
POSTCONDITION TraceAccepted
CHECK_DEADLOCK FALSE
