SPECIFICATION Spec
CONSTANTS
  TRecover = 3000
  AcceptDeadline = 1300
POSTCONDITION TraceAccepted
CHECK_DEADLOCK FALSE
