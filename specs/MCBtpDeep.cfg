\* two well-behaved ends, window 3, up to 3 messages of 1 or 3 segments per end, sequence numbers up to 7
SPECIFICATION Spec
CONSTANTS
  Wnd = 3
  Variant = "fixed"
  LastSlot = "pendingAck"
  MaxSdu = 3
  SegChoices = {1, 3}
  MaxSeq = 7
  MaxOps = 60
  Hostile = FALSE
VIEW view
INVARIANTS Refines NoPanic WindowRespected NoDeadEnd
CONSTRAINT SeqBound
CHECK_DEADLOCK FALSE
