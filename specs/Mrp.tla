-------------------------------- MODULE Mrp --------------------------------
(***************************************************************************)
(* Layer I for C09 / C15: reliable messaging on one exchange between two   *)
(* nodes, transcribed from transport/mrp.rs (ReliableMessage: the pending  *)
(* retransmission entry and the pending ack entry of an exchange),         *)
(* transport/exchange.rs (Exchange::send: transmit, wait for the ack or    *)
(* the back-off, rebuild and retransmit, give up with TxTimeout),          *)
(* transport/session.rs (session-level duplicate detection, counter reuse  *)
(* for retransmissions) and transport.rs (a duplicate is answered with a   *)
(* stand-alone ack).  The network is an adversary: it delivers, duplicates *)
(* (a delivered datagram stays available) and drops datagrams in any order.*)
(*                                                                         *)
(* Application script: Rounds request/response rounds on one exchange:     *)
(* A sends request 2r-1 reliably, B answers 2r reliably; after the last    *)
(* answer A acknowledges explicitly.                                       *)
(***************************************************************************)
EXTENDS Integers, FiniteSets, Sequences, TLC, Json
CONSTANTS MaxRetrans,      \* retransmissions after the first transmission (5 in the code)
          MaxDeliveries,   \* bound on adversary deliveries
          Rounds, MaxOps,
          MaxSlow,         \* how many retransmissions may linger in the single TX buffer (a slow network send)
          Recheck          \* TRUE = as the code: the sender re-checks "still unacknowledged?" after it got the TX buffer

Nodes == {"A", "B"}
Peer(n) == IF n = "A" THEN "B" ELSE "A"
NONE == [ctr |-> -1, cnt |-> 0, id |-> 0]
NOACK == [ctr |-> -1, acked |-> FALSE]
NOPKT == [from |-> "-"]
VARIABLES retrans, ack,      \* per node: ReliableMessage.retrans / .ack of the exchange
          txCtr,             \* per node: session send counter
          rxSeen,            \* per node: counters accepted by the session receive window
          net,               \* datagrams ever put on the wire (delivery does not remove them: duplication)
          lost,              \* datagrams the adversary dropped for good
          rxq,               \* per node: message waiting in the exchange for the application (or 0)
          app, round,        \* application state
          result,            \* per node: result of its last send ("" | "ok" | "timeout")
          log,               \* per node: ids the application received, in order
          deliveries, sentCtr, nops, h,
          outbox,            \* per node: the datagram sitting in the single TX buffer while the network send is slow (or NOPKT)
          want,              \* per node: the back-off fired and the sender is queued for the TX buffer
          slowLeft, lastId
vars == <<retrans, ack, txCtr, rxSeen, net, lost, rxq, app, round, result, log, deliveries, sentCtr, nops, h, outbox, want, slowLeft, lastId>>
view == <<retrans, ack, txCtr, rxSeen, net, lost, rxq, app, round, result, log, deliveries, sentCtr, outbox, want, slowLeft, lastId>>
TxVars == <<outbox, want, slowLeft, lastId>>

Init == /\ retrans = [n \in Nodes |-> NONE] /\ ack = [n \in Nodes |-> NOACK]
        /\ txCtr = [A |-> 10, B |-> 50] /\ rxSeen = [n \in Nodes |-> {}] /\ net = {} /\ lost = {}
        /\ rxq = [n \in Nodes |-> 0] /\ app = [A |-> "idle", B |-> "recving"] /\ round = 1
        /\ result = [n \in Nodes |-> ""] /\ log = [n \in Nodes |-> <<>>]
        /\ deliveries = 0 /\ sentCtr = [n \in Nodes |-> -1] /\ nops = 0 /\ h = <<>>
        /\ outbox = [n \in Nodes |-> NOPKT] /\ want = [n \in Nodes |-> FALSE] /\ slowLeft = MaxSlow /\ lastId = [n \in Nodes |-> 0]

Pkt(n, c, rel, a, kind, id) == [from |-> n, to |-> Peer(n), ctr |-> c, rel |-> rel, ack |-> a, kind |-> kind, id |-> id]
Log(op) == h' = Append(h, op) /\ nops' = nops + 1
MsgId(n) == IF n = "A" THEN 2 * round - 1 ELSE 2 * round

\* Exchange::send, first transmission: ReliableMessage::pre_send piggy-backs the pending ack and creates the entry
AppSend(n) ==
  /\ app[n] = "idle" /\ retrans[n] = NONE /\ outbox[n] = NOPKT
  /\ lastId' = [lastId EXCEPT ![n] = MsgId(n)] /\ UNCHANGED <<outbox, want, slowLeft>>
  /\ net' = net \cup {Pkt(n, txCtr[n], TRUE, ack[n].ctr, "data", MsgId(n))}
  /\ retrans' = [retrans EXCEPT ![n] = [ctr |-> txCtr[n], cnt |-> 0, id |-> MsgId(n)]]
  /\ ack' = [ack EXCEPT ![n] = IF @.ctr = -1 THEN @ ELSE [@ EXCEPT !.acked = TRUE]]
  /\ txCtr' = [txCtr EXCEPT ![n] = @ + 1] /\ app' = [app EXCEPT ![n] = "sending"]
  /\ sentCtr' = [sentCtr EXCEPT ![n] = txCtr[n]] /\ result' = [result EXCEPT ![n] = ""]
  /\ nops' = nops /\ h' = h
  /\ UNCHANGED <<rxSeen, lost, rxq, round, log, deliveries>>

\* the back-off timer of the sender fires: rebuild (same counter, ack re-stamped) and retransmit, or give up.
\* Exchange::send -> Sender::tx: with the single TX buffer occupied (a slow network send) the sender queues for it.
Retransmit(n, slow) ==
  LET p == Pkt(n, retrans[n].ctr, TRUE, ack[n].ctr, "data", retrans[n].id) IN
  /\ IF slow THEN /\ outbox' = [outbox EXCEPT ![n] = p] /\ slowLeft' = slowLeft - 1 /\ UNCHANGED net
             ELSE /\ net' = net \cup {p} /\ UNCHANGED <<outbox, slowLeft>>
  /\ retrans' = [retrans EXCEPT ![n].cnt = @ + 1]
  /\ ack' = [ack EXCEPT ![n] = IF @.ctr = -1 THEN @ ELSE [@ EXCEPT !.acked = TRUE]]
Timeout(n) ==
  /\ app[n] = "sending" /\ retrans[n] # NONE /\ ~want[n]
  /\ IF retrans[n].cnt < MaxRetrans
     THEN IF outbox[n] # NOPKT
          THEN /\ want' = [want EXCEPT ![n] = TRUE] /\ Log([op |-> "Timeout", n |-> n, slow |-> FALSE, busy |-> TRUE])
               /\ UNCHANGED <<retrans, ack, net, outbox, slowLeft, app, result, txCtr>>
          ELSE \E slow \in (IF slowLeft > 0 THEN BOOLEAN ELSE {FALSE}) :
               /\ Retransmit(n, slow) /\ Log([op |-> "Timeout", n |-> n, slow |-> slow, busy |-> FALSE])
               /\ UNCHANGED <<want, app, result, txCtr>>
     ELSE /\ retrans' = [retrans EXCEPT ![n] = NONE] /\ ack' = [ack EXCEPT ![n] = NOACK]
          /\ app' = [app EXCEPT ![n] = "done"] /\ result' = [result EXCEPT ![n] = "timeout"]
          /\ Log([op |-> "Timeout", n |-> n, slow |-> FALSE, busy |-> FALSE])
          /\ UNCHANGED <<net, outbox, want, slowLeft, txCtr>>
  /\ UNCHANGED <<rxSeen, lost, rxq, round, log, deliveries, sentCtr, lastId>>
\* the slow network send completes: the datagram reaches the wire and the TX buffer is free again
SendComplete(n) ==
  /\ outbox[n] # NOPKT /\ net' = net \cup {outbox[n]} /\ outbox' = [outbox EXCEPT ![n] = NOPKT]
  /\ Log([op |-> "SendComplete", n |-> n])
  /\ UNCHANGED <<retrans, ack, txCtr, rxSeen, lost, rxq, app, round, result, log, deliveries, sentCtr, want, slowLeft, lastId>>
\* the queued sender gets the TX buffer.  As the code: it looks again whether the message is still unacknowledged -
\* the acknowledgement may have arrived while it was queued.  (Recheck = FALSE: it sends regardless; with the entry
\* gone the message goes out as a new one, under a fresh counter.)
RetransGo(n) ==
  /\ want[n] /\ outbox[n] = NOPKT /\ want' = [want EXCEPT ![n] = FALSE]
  /\ IF retrans[n] # NONE
     THEN /\ Retransmit(n, FALSE) /\ UNCHANGED <<txCtr, sentCtr>>
     ELSE IF Recheck THEN UNCHANGED <<retrans, ack, net, outbox, slowLeft, txCtr, sentCtr>>
     ELSE /\ net' = net \cup {Pkt(n, txCtr[n], TRUE, ack[n].ctr, "data", lastId[n])}
          /\ retrans' = [retrans EXCEPT ![n] = [ctr |-> txCtr[n], cnt |-> 0, id |-> lastId[n]]]
          /\ txCtr' = [txCtr EXCEPT ![n] = @ + 1] /\ sentCtr' = [sentCtr EXCEPT ![n] = txCtr[n]]
          /\ UNCHANGED <<ack, outbox, slowLeft>>
  /\ nops' = nops /\ h' = h
  /\ UNCHANGED <<rxSeen, lost, rxq, app, round, result, log, deliveries, lastId>>

\* Exchange::send returns Ok once the retransmission entry was cleared by an acknowledgement
SendDone(n) == /\ app[n] = "sending" /\ retrans[n] = NONE /\ ~want[n] /\ UNCHANGED TxVars
               /\ result' = [result EXCEPT ![n] = "ok"]
               /\ app' = [app EXCEPT ![n] = IF n = "A" THEN "recving" ELSE IF round < Rounds THEN "recving" ELSE "done"]
               /\ round' = IF n = "B" /\ round < Rounds THEN round ELSE round
               /\ nops' = nops /\ h' = h
               /\ UNCHANGED <<retrans, ack, txCtr, rxSeen, net, lost, rxq, log, deliveries, sentCtr>>

StandaloneAck(n, c) == Pkt(n, txCtr[n], FALSE, c, "sack", 0)

\* the adversary hands datagram p to its destination (again, if it did so before)
Deliver(p) ==
  /\ p \in net /\ p \notin lost /\ deliveries < MaxDeliveries /\ deliveries' = deliveries + 1
  /\ LET n == p.to IN
     IF p.ctr \in rxSeen[n] THEN    \* session-level duplicate: re-acknowledged unless it does not ask for it
        /\ IF p.rel THEN /\ net' = net \cup {StandaloneAck(n, p.ctr)} /\ txCtr' = [txCtr EXCEPT ![n] = @ + 1]
                    ELSE UNCHANGED <<net, txCtr>>
        /\ UNCHANGED <<retrans, ack, rxSeen, rxq>>
     ELSE
        /\ rxSeen' = [rxSeen EXCEPT ![n] = @ \cup {p.ctr}]
        /\ IF p.ack # -1 /\ retrans[n] # NONE /\ retrans[n].ctr # p.ack
           THEN \* ack for another counter than the one we wait for: treated as a duplicate - acknowledged, dropped
                /\ IF p.rel THEN /\ net' = net \cup {StandaloneAck(n, p.ctr)} /\ txCtr' = [txCtr EXCEPT ![n] = @ + 1]
                            ELSE UNCHANGED <<net, txCtr>>
                /\ UNCHANGED <<retrans, ack, rxq>>
           ELSE /\ LET cleared == p.ack # -1 /\ retrans[n] # NONE IN
                   /\ retrans' = [retrans EXCEPT ![n] = IF cleared THEN NONE ELSE @]
                   /\ ack' = [ack EXCEPT ![n] = IF p.rel THEN [ctr |-> p.ctr, acked |-> FALSE]
                                                ELSE IF cleared THEN NOACK ELSE @]
                /\ rxq' = [rxq EXCEPT ![n] = IF p.kind = "data" THEN p.id ELSE @]
                /\ UNCHANGED <<net, txCtr>>
  /\ Log([op |-> "Deliver", from |-> p.from, k |-> p.ctr - (IF p.from = "A" THEN 10 ELSE 50), rep |-> Cardinality({q \in net : q.from = p.from /\ q.ctr = p.ctr})])
  /\ UNCHANGED <<lost, app, round, result, log, sentCtr>> /\ UNCHANGED TxVars

\* the adversary drops every copy of datagram p that is still in the network
Drop(p) == /\ p \in net /\ p \notin lost /\ lost' = lost \cup {p}
           /\ Log([op |-> "Drop", from |-> p.from, k |-> p.ctr - (IF p.from = "A" THEN 10 ELSE 50)])
           /\ UNCHANGED <<retrans, ack, txCtr, rxSeen, net, rxq, app, round, result, log, deliveries, sentCtr>> /\ UNCHANGED TxVars

AppRecv(n) == /\ app[n] = "recving" /\ rxq[n] # 0
              /\ rxq' = [rxq EXCEPT ![n] = 0]
              /\ log' = [log EXCEPT ![n] = Append(@, rxq[n])]
              /\ app' = [app EXCEPT ![n] = IF n = "B" THEN "idle" ELSE IF round < Rounds THEN "idle" ELSE "acking"]
              /\ round' = IF n = "A" /\ round < Rounds THEN round + 1 ELSE round
              /\ nops' = nops /\ h' = h
              /\ UNCHANGED <<retrans, ack, txCtr, rxSeen, net, lost, result, deliveries, sentCtr>> /\ UNCHANGED TxVars

\* Exchange::acknowledge(): a stand-alone ack if one is still owed
AppAck(n) == /\ app[n] = "acking" /\ outbox[n] = NOPKT /\ UNCHANGED TxVars
             /\ IF ack[n].ctr # -1 /\ ~ack[n].acked
                THEN /\ net' = net \cup {StandaloneAck(n, ack[n].ctr)}
                     /\ txCtr' = [txCtr EXCEPT ![n] = @ + 1] /\ ack' = [ack EXCEPT ![n].acked = TRUE]
                ELSE UNCHANGED <<net, txCtr, ack>>
             /\ app' = [app EXCEPT ![n] = "done"]
             /\ nops' = nops /\ h' = h
             /\ UNCHANGED <<retrans, rxSeen, lost, rxq, round, result, log, deliveries, sentCtr>>

Next == /\ nops < MaxOps
        /\ \/ \E n \in Nodes : AppSend(n) \/ Timeout(n) \/ SendDone(n) \/ AppRecv(n) \/ AppAck(n) \/ SendComplete(n) \/ RetransGo(n)
           \/ \E p \in net : Deliver(p) \/ Drop(p)
Spec == Init /\ [][Next]_vars

(* ---- the property, over the model's own state ---- *)
\* SuccessIsTrue: a send reports success only if the peer's stack accepted that message
SuccessIsTrue == \A n \in Nodes : result[n] = "ok" => sentCtr[n] \in rxSeen[Peer(n)]
\* AtMostOnceInOrder: what the application receives is duplicate-free and in sending order
AtMostOnceInOrder == \A n \in Nodes : \A i, j \in 1..Len(log[n]) : i < j => log[n][i] < log[n][j]
\* C15: a retransmission is identical to the original: same counter => same datagram
RetransIdentical == \A p, q \in net : (p.from = q.from /\ p.ctr = q.ctr) => p = q
\* never more transmissions than the budget
Budget == \A n \in Nodes : retrans[n].cnt <= MaxRetrans

EmitAtEnd == (nops = MaxOps \/ (app["A"] = "done" /\ app["B"] = "done")) => PrintT(<<"REPLAY", ToJson(h)>>)
=============================================================================
