------------------------------- MODULE MCBtp -------------------------------
(***************************************************************************)
(* Exhaustive check that two BTP ends (Btp) refine Layer P (BtpProp) for   *)
(* every order of their send / poll / deliver / fetch / timer steps, and   *)
(* generator of step schedules (ending in one hostile segment or not) for  *)
(* the replay on two real Btp objects.                                     *)
(***************************************************************************)
EXTENDS Btp, TLC, Json, FiniteSets
CONSTANTS MaxSdu, SegChoices, MaxSeq, MaxOps, Hostile

P == INSTANCE BtpProp WITH AckTimeout <- 15, Slack <- 2

VARIABLES e,          \* end -> record (see Btp)
          chan,       \* end -> sequence of segments travelling TO that end
          sent, got,  \* end -> number of SDUs submitted / fetched
          panic,
          pst, ok,
          done, nops, h,
          injAt       \* hostile runs: no injection before this many steps
vars == <<e, chan, sent, got, panic, pst, ok, done, nops, h, injAt>>
view == <<e, chan, sent, got, panic, pst, ok, done>>

Ends == {"I", "R"}
Peer(x) == IF x = "I" THEN "R" ELSE "I"
Init == /\ e = [x \in Ends |-> NewEnd(x = "I")] /\ chan = [x \in Ends |-> <<>>]
        /\ sent = [x \in Ends |-> 0] /\ got = [x \in Ends |-> 0] /\ panic = FALSE
        /\ pst = P!Fresh /\ ok = TRUE /\ done = FALSE /\ nops = 0 /\ h = <<>>
        /\ injAt \in (IF Hostile THEN {0, 4, 8, 14, 20, 28} ELSE {0})

Log(op) == h' = Append(h, op) /\ nops' = nops + 1 /\ UNCHANGED injAt
Live == ~panic /\ ~done /\ nops < MaxOps

\* message ids: 10 * (1 for I, 2 for R) + ordinal
MsgId(x, k) == (IF x = "I" THEN 10 ELSE 20) + k

Send(x) == /\ Live /\ e[x].out = 0 /\ sent[x] < MaxSdu
           /\ \E n \in SegChoices :
                /\ e' = [e EXCEPT ![x].out = n, ![x].outFirst = TRUE]
                /\ Log([op |-> "Send", e |-> x, n |-> n, id |-> MsgId(x, sent[x] + 1)])
           /\ sent' = [sent EXCEPT ![x] = @ + 1]
           /\ pst' = P!AfterSubmit(x, MsgId(x, sent[x] + 1), pst)
           /\ UNCHANGED <<chan, got, panic, ok, done>>

\* BtpInner::process_outgoing, with the ack timer fired or not
Poll(x, timer) ==
  /\ Live
  /\ IF e[x].hsPending THEN            \* prep_tx_handshake (the response counts as a sent segment)
        /\ e' = [e EXCEPT ![x] = IF x = "R" THEN [@ EXCEPT !.hsPending = FALSE, !.swLevel = @ - 1, !.swLast = @ + 1]
                                               ELSE [@ EXCEPT !.hsPending = FALSE]]
        /\ chan' = [chan EXCEPT ![Peer(x)] = Append(@, HsSeg)]
        /\ ok' = ok /\ pst' = P!AfterTx(x, TRUE, -1, -1, Wnd, 0, pst) /\ UNCHANGED panic
        /\ Log([op |-> "Poll", e |-> x, timer |-> timer, out |-> "hs"])
     ELSE IF e[x].est /\ e[x].out > 0 /\ ~Full(e[x]) THEN     \* next data segment
        LET s == DataSeg(e[x]) IN
        /\ e' = [e EXCEPT ![x] = [PostSend(@) EXCEPT !.out = e[x].out - 1, !.outFirst = FALSE]]
        /\ chan' = [chan EXCEPT ![Peer(x)] = Append(@, s)]
        /\ ok' = (ok /\ P!TxOk(x, FALSE, s.seq, s.ack, 0, 0, pst)) /\ pst' = P!AfterTx(x, FALSE, s.seq, s.ack, 0, 0, pst)
        /\ UNCHANGED panic
        /\ Log([op |-> "Poll", e |-> x, timer |-> timer, out |-> "data"])
     ELSE IF e[x].est /\ AckDue(e[x], timer) THEN              \* stand-alone ack
        IF Full(e[x]) THEN                                      \* prep_tx_data returns 0 -> assert!(len > 0)
           /\ panic' = (Variant = "orig") /\ UNCHANGED <<e, chan, ok, pst>>
           /\ Log([op |-> "Poll", e |-> x, timer |-> timer, out |-> "none"])
        ELSE LET s == AckSeg(e[x]) IN
           /\ e' = [e EXCEPT ![x] = PostSend(@)]
           /\ chan' = [chan EXCEPT ![Peer(x)] = Append(@, s)]
           /\ ok' = (ok /\ P!TxOk(x, FALSE, s.seq, s.ack, 0, 0, pst)) /\ pst' = P!AfterTx(x, FALSE, s.seq, s.ack, 0, 0, pst)
           /\ UNCHANGED panic
           /\ Log([op |-> "Poll", e |-> x, timer |-> timer, out |-> "ack"])
     ELSE /\ UNCHANGED <<e, chan, panic, ok, pst>>
          /\ Log([op |-> "Poll", e |-> x, timer |-> timer, out |-> "none"])
  /\ UNCHANGED <<sent, got, done>>

Deliver(x) ==
  /\ Live /\ chan[x] # <<>>
  /\ LET s == Head(chan[x]) IN
     /\ chan' = [chan EXCEPT ![x] = Tail(@)]
     /\ IF s.hs THEN /\ e' = [e EXCEPT ![x] = Setup(@, x = "I")]
                     /\ UNCHANGED <<panic, ok, pst>>
                     /\ Log([op |-> "Deliver", e |-> x, res |-> "ok"])
        ELSE LET r == RxData(e[x], s) IN
             /\ e' = [e EXCEPT ![x] = r.x]
             /\ panic' = (r.res = "panic")
             /\ ok' = (ok /\ r.res # "panic" /\ P!RxOk(x, r.res, s.ack, s.seq, 0, pst))
             /\ pst' = P!AfterRx(x, r.res, s.ack, s.seq, 0, pst)
             /\ Log([op |-> "Deliver", e |-> x, res |-> r.res])
  /\ UNCHANGED <<sent, got, done>>

Fetch(x) == /\ Live /\ e[x].rwMsgs > 0
            /\ e' = [e EXCEPT ![x].rwMsgs = @ - 1] /\ got' = [got EXCEPT ![x] = @ + 1]
            /\ ok' = (ok /\ P!FetchOk(x, MsgId(Peer(x), got[x] + 1), pst)) /\ pst' = P!AfterFetch(x, MsgId(Peer(x), got[x] + 1), pst)
            /\ Log([op |-> "Fetch", e |-> x])
            /\ UNCHANGED <<chan, sent, panic, done>>

\* one hostile segment handed to end x, then the run ends.  The class fixes the shape; viol says whether it
\* violates the protocol in the current state (the harness builds the bytes from the real state of x's peer).
HostileClasses == {"seqMinus1", "seqPlus2", "ackNeverSent", "overrun", "contWithoutBegin", "finalShort",
                   "lenLessThanPayload", "nonFinalShort", "noFlags", "beginAndContinue", "beginInMiddle",
                   "dataBeforeHandshake", "hsRespTinyMtu", "hsRespZeroWindow", "truncatedHeader"}
Applicable(x, c) ==
  CASE c = "overrun" -> e[x].est /\ e[x].rwLevel = 0
    [] c = "dataBeforeHandshake" -> ~e[x].est /\ x = "R"
    [] c \in {"hsRespTinyMtu", "hsRespZeroWindow"} -> x = "I" /\ ~e[x].est /\ ~e[x].hsPending
    [] c \in {"finalShort", "contWithoutBegin", "lenLessThanPayload", "nonFinalShort"} -> e[x].est /\ e[x].rwRem = 0 /\ e[x].rwLevel > 0
    [] c = "beginInMiddle" -> e[x].est /\ e[x].rwRem > 0 /\ e[x].rwLevel > 0
    [] c = "ackNeverSent" -> e[x].est /\ e[x].rwLevel > 0
    [] OTHER -> e[x].est /\ e[x].rwLevel > 0
Inject(x, c) ==
  /\ Hostile /\ Live /\ nops >= injAt /\ chan[x] = <<>> /\ Applicable(x, c)
  /\ done' = TRUE
  /\ Log([op |-> "Inject", e |-> x, cls |-> c])
  /\ UNCHANGED <<e, chan, sent, got, panic, pst, ok>>

Next == \E x \in Ends : Send(x) \/ (\E t \in BOOLEAN : Poll(x, t)) \/ Deliver(x) \/ Fetch(x) \/ (\E c \in HostileClasses : Inject(x, c))
Spec == Init /\ [][Next]_vars

Refines == ok
NoPanic == ~panic
WindowRespected == \A x \in Ends : e[x].est => (e[x].swLevel >= 0 /\ e[x].swLevel <= e[x].W /\ e[x].rwLevel >= 0)
\* no dead end between two well-behaved ends: with nothing travelling and both applications having picked up every complete
\* message, an end that still has segments to send or acknowledgements to give can do so (at the latest when its timer fires)
CanMove(x) == e[x].hsPending \/ (e[x].est /\ ~Full(e[x]) /\ (e[x].out > 0 \/ AckDue(e[x], TRUE)))
NoDeadEnd == (/\ \A x \in Ends : e[x].est /\ chan[x] = <<>> /\ e[x].rwMsgs = 0
              /\ \E x \in Ends : e[x].out > 0 \/ e[x].rwAckLevel > 0)
             => \E x \in Ends : CanMove(x)
SeqBound == \A x \in Ends : e[x].swLast <= MaxSeq
EmitAtEnd == (nops = MaxOps \/ done) => PrintT(<<"REPLAY", ToJson(h)>>)
=============================================================================
