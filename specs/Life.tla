--------------------------------- MODULE Life ---------------------------------
(***************************************************************************)
(* Layer I for C07 / C08 / C11: the life cycle of fabrics on a node,       *)
(* transcribed from failsafe.rs (arm / check_state / add_noc / expire),    *)
(* dm/clusters/gen_comm.rs (ArmFailSafe, CommissioningComplete),           *)
(* dm/clusters/noc.rs (CSRRequest, AddTrustedRootCertificate, AddNOC,      *)
(* UpdateFabricLabel, RemoveFabric), fabric.rs (index = highest used + 1,  *)
(* persisted copy per fabric), transport/session.rs (remove_for_fabric,    *)
(* remove_pase), sc/case (sessions and resumption records carry a fabric   *)
(* index), lib.rs (startup from the key-value store, lazily persisted      *)
(* resumption cache).  Two administrators (controllers) with their own     *)
(* root CAs; each has at most one PASE and two CASE sessions to the node   *)
(* (n = 1, 2: RemoveFabric and the rollback must take all of them).        *)
(* FactoryReset = Matter::factory_reset followed by a restart.             *)
(* The staged root certificate (FailSafe::root_ca) is not a variable: the  *)
(* code never clears the buffer, only the per-context flag "root" says     *)
(* whether it may be used - which is what Check models.                    *)
(* `gen` is a history counter (the incarnation of the fabric at an index)  *)
(* that exists only in the model.                                          *)
(* Variant "orig" = the code as found; "fixed" = with the repairs:         *)
(*   rollback drops sessions / resumption records of the fabric it removes *)
(*   and tolerates an already removed fabric (F-C07a, F-C08b);             *)
(*   ArmFailSafe(0) only from the arming context (F-C08a);                 *)
(*   UpdateFabricLabel is stored (F-C11a);                                 *)
(*   resumption records are filtered against the fabrics at start-up       *)
(*   (F-C07b).                                                             *)
(***************************************************************************)
EXTENDS Integers, FiniteSets, Sequences, TLC, Json
CONSTANTS Ctl, MaxIdx, MaxGen, MaxOps, Variant, StoreFaults

Fixed == Variant = "fixed"
NULL == [own |-> 0, gen |-> 0, ver |-> 0, noc |-> 0]
Idx == 1..MaxIdx
VARIABLES fabrics,   \* [Idx -> [own, gen, ver, noc]]   own = 0: absent; ver = label / ACL version; noc = version of the operational certificate
          kv,        \* persisted copy, same shape
          fs,        \* fail-safe: [armed, c, mode, fab, flags]
          sess,      \* set of [c, mode, fab, gen, expired, n]
          resum,     \* in-memory resumption cache: set of [c, fab, gen]
          resumKv,   \* its persisted copy
          nextGen,
          snap,      \* history: [fabrics, kv] when the fail-safe was armed
          stuck,     \* the fail-safe could not expire (the node stops serving)
          acked,     \* history: what peers were told is committed: [Idx -> [own, gen, ver]]
          failNext,  \* the next mutating operation of the key-value store returns an error and changes nothing (StoreFaults)
          uncommitted, \* history: the fail-safe was disarmed by a CommissioningComplete whose store write failed
          h, nops
vars == <<fabrics, kv, fs, sess, resum, resumKv, nextGen, snap, stuck, acked, failNext, uncommitted, h, nops>>
view == <<fabrics, kv, fs, sess, resum, resumKv, nextGen, snap, stuck, acked, failNext, uncommitted>>

Idle == [armed |-> FALSE, c |-> 0, mode |-> "none", fab |-> 0, flags |-> {}]
Init == /\ fabrics = [i \in Idx |-> NULL] /\ kv = [i \in Idx |-> NULL] /\ fs = Idle
        /\ sess = {} /\ resum = {} /\ resumKv = {} /\ nextGen = 1
        /\ snap = [fabrics |-> fabrics, kv |-> kv] /\ stuck = FALSE /\ acked = [i \in Idx |-> NULL]
        /\ failNext = FALSE /\ uncommitted = FALSE /\ h = <<>> /\ nops = 0
Log(op) == h' = Append(h, op) /\ nops' = nops + 1
NoStore == UNCHANGED <<failNext, uncommitted>>       \* the action does not touch the store

Present(i) == fabrics[i].own # 0
S(c, m) == {s \in sess : s.c = c /\ s.mode = m /\ ~s.expired}
Has(c, m) == S(c, m) # {}
The(c, m) == CHOOSE s \in S(c, m) : \A t \in S(c, m) : s.n <= t.n
Replace(c, m, new) == {s \in sess : ~(s.c = c /\ s.mode = m /\ s.n = new.n)} \cup {new}
RemovePase(t) == {s \in t : s.mode # "pase"}
SameCtx(s) == fs.armed /\ fs.fab = s.fab /\ fs.mode = s.mode /\ (s.mode = "pase" => fs.c = s.c)

\* PASE established (the harness opens a window when needed): auto-arms the fail-safe
Pase(c) == /\ NoStore /\ ~stuck /\ sess' = Replace(c, "pase", [c |-> c, mode |-> "pase", fab |-> 0, gen |-> 0, expired |-> FALSE, n |-> 1])
           /\ IF ~fs.armed THEN /\ fs' = [armed |-> TRUE, c |-> c, mode |-> "pase", fab |-> 0, flags |-> {}]
                                /\ snap' = [fabrics |-> fabrics, kv |-> kv]
              ELSE UNCHANGED <<fs, snap>>
           /\ Log([op |-> "Pase", c |-> c])
           /\ UNCHANGED <<fabrics, kv, resum, resumKv, nextGen, stuck, acked>>

Arm(c, m) == /\ NoStore /\ ~stuck /\ Has(c, m) /\ Log([op |-> "Cmd", c |-> c, via |-> m, cmd |-> "arm"])
             /\ LET s == The(c, m) IN
                IF ~fs.armed THEN /\ fs' = [armed |-> TRUE, c |-> c, mode |-> m, fab |-> s.fab, flags |-> {}]
                                  /\ snap' = [fabrics |-> fabrics, kv |-> kv]
                ELSE UNCHANGED <<fs, snap>>                       \* same context: re-armed; other context: BusyWithOtherAdmin
             /\ UNCHANGED <<fabrics, kv, sess, resum, resumKv, nextGen, stuck, acked>>

Check(s, present, absent) == SameCtx(s) /\ present \subseteq fs.flags /\ fs.flags \cap absent = {}
Csr(c, m) == /\ NoStore /\ ~stuck /\ Has(c, m) /\ Log([op |-> "Cmd", c |-> c, via |-> m, cmd |-> "csr"])
             /\ IF Check(The(c, m), {}, {"csr", "csru"}) THEN fs' = [fs EXCEPT !.flags = @ \cup {"csr"}] ELSE UNCHANGED fs
             /\ UNCHANGED <<fabrics, kv, sess, resum, resumKv, nextGen, snap, stuck, acked>>
\* CSRRequest(isForUpdateNOC) and UpdateNOC: only over the operational session whose fabric the fail-safe is armed for;
\* the new certificate replaces the old one in memory, the persisted copy follows at CommissioningComplete
Csru(c) == /\ NoStore /\ ~stuck /\ Has(c, "case") /\ Log([op |-> "Cmd", c |-> c, via |-> "case", cmd |-> "csru"])
           /\ IF Check(The(c, "case"), {}, {"csr", "csru"}) THEN fs' = [fs EXCEPT !.flags = @ \cup {"csru"}] ELSE UNCHANGED fs
           /\ UNCHANGED <<fabrics, kv, sess, resum, resumKv, nextGen, snap, stuck, acked>>
Unoc(c) == /\ NoStore /\ ~stuck /\ Has(c, "case") /\ Log([op |-> "Cmd", c |-> c, via |-> "case", cmd |-> "unoc"])
           /\ LET s == The(c, "case") IN
              IF Check(s, {"csru"}, {"csr", "root", "noc", "unoc"}) /\ Present(s.fab) /\ fabrics[s.fab].gen = s.gen /\ fabrics[s.fab].noc < 2
              THEN fabrics' = [fabrics EXCEPT ![s.fab].noc = @ + 1] /\ fs' = [fs EXCEPT !.flags = @ \cup {"unoc"}]
              ELSE UNCHANGED <<fabrics, fs>>
           /\ UNCHANGED <<kv, sess, resum, resumKv, nextGen, snap, stuck, acked>>
AddRoot(c, m) == /\ NoStore /\ ~stuck /\ Has(c, m) /\ Log([op |-> "Cmd", c |-> c, via |-> m, cmd |-> "root"])
                 /\ IF Check(The(c, m), {}, {"root"}) THEN fs' = [fs EXCEPT !.flags = @ \cup {"root"}] ELSE UNCHANGED fs
                 /\ UNCHANGED <<fabrics, kv, sess, resum, resumKv, nextGen, snap, stuck, acked>>
MaxUsed == IF \E i \in Idx : Present(i) THEN CHOOSE i \in Idx : Present(i) /\ \A j \in Idx : Present(j) => j <= i ELSE 0
AddNoc(c, m) ==
  /\ NoStore /\ ~stuck /\ Has(c, m) /\ Log([op |-> "Cmd", c |-> c, via |-> m, cmd |-> "noc"])
  /\ LET s == The(c, m) IN
     IF Check(s, {"root", "csr"}, {"noc", "unoc"}) /\ MaxUsed < MaxIdx /\ nextGen <= MaxGen /\ ~(\E i \in Idx : fabrics[i].own = c)
     THEN LET n == MaxUsed + 1 IN
          /\ fabrics' = [fabrics EXCEPT ![n] = [own |-> c, gen |-> nextGen, ver |-> 0, noc |-> 0]]
          /\ fs' = [fs EXCEPT !.fab = n, !.flags = @ \cup {"noc"}]
          /\ sess' = {IF x = s /\ s.mode = "pase" THEN [x EXCEPT !.fab = n, !.gen = nextGen] ELSE x : x \in sess}
          /\ nextGen' = nextGen + 1
     ELSE UNCHANGED <<fabrics, fs, sess, nextGen>>
  /\ UNCHANGED <<kv, resum, resumKv, snap, stuck, acked>>

\* the administrator opens (or re-uses) its operational session: needs a fabric of its root on the node
Case(c) == /\ NoStore /\ ~stuck /\ \E f \in Idx : fabrics[f].own = c
           /\ LET f == CHOOSE f \in Idx : fabrics[f].own = c IN
              /\ sess' = Replace(c, "case", [c |-> c, mode |-> "case", fab |-> f, gen |-> fabrics[f].gen, expired |-> FALSE, n |-> 1])
              /\ resum' = {r \in resum : r.c # c} \cup {[c |-> c, fab |-> f, gen |-> fabrics[f].gen]}
           /\ Log([op |-> "Read", c |-> c, fresh |-> TRUE])
           /\ UNCHANGED <<fabrics, kv, fs, resumKv, nextGen, snap, stuck, acked>>
\* one more operational session of the same administrator, next to the one it holds
Case2(c) == /\ NoStore /\ ~stuck /\ Has(c, "case") /\ \E f \in Idx : fabrics[f].own = c
            /\ LET f == CHOOSE f \in Idx : fabrics[f].own = c IN
               sess' = Replace(c, "case", [c |-> c, mode |-> "case", fab |-> f, gen |-> fabrics[f].gen, expired |-> FALSE, n |-> 2])
            /\ Log([op |-> "Case", c |-> c])
            /\ UNCHANGED <<fabrics, kv, fs, resum, resumKv, nextGen, snap, stuck, acked>>
\* a request over the operational session the administrator already holds
Use(c) == /\ NoStore /\ ~stuck /\ Has(c, "case") /\ Log([op |-> "Read", c |-> c, fresh |-> FALSE])
          /\ UNCHANGED <<fabrics, kv, fs, sess, resum, resumKv, nextGen, snap, stuck, acked>>

\* UpdateFabricLabel (stands for every write to the fabric's own data: label, ACL, groups)
Label(c) == /\ ~stuck /\ Has(c, "case") /\ Log([op |-> "Cmd", c |-> c, via |-> "case", cmd |-> "label"])
            /\ LET s == The(c, "case") IN
               IF Present(s.fab) /\ fabrics[s.fab].gen = s.gen /\ fabrics[s.fab].ver < 2
               THEN LET writes == ~((fs.armed /\ fs.fab = s.fab) \/ ~Fixed) IN          \* persist.store(fabric) after the change in memory
                    /\ fabrics' = [fabrics EXCEPT ![s.fab].ver = @ + 1]
                    /\ kv' = IF writes /\ ~failNext THEN [kv EXCEPT ![s.fab] = fabrics'[s.fab]] ELSE kv
                    \* (a failed write answers Failure: nothing was confirmed)
                    /\ acked' = IF (fs.armed /\ fs.fab = s.fab) \/ (writes /\ failNext) THEN acked ELSE [acked EXCEPT ![s.fab] = fabrics'[s.fab]]
                    /\ failNext' = IF writes THEN FALSE ELSE failNext
               ELSE UNCHANGED <<fabrics, kv, acked, failNext>>
            /\ UNCHANGED <<fs, sess, resum, resumKv, nextGen, snap, stuck, uncommitted>>

Complete(c) == /\ ~stuck /\ Has(c, "case") /\ Log([op |-> "Cmd", c |-> c, via |-> "case", cmd |-> "complete"])
               /\ LET s == The(c, "case") IN
                  IF fs.armed /\ fs.fab = s.fab /\ Present(s.fab) /\ fabrics[s.fab].gen = s.gen
                  THEN \* as found: failsafe.disarm, close window, remove_pase - and only then persist.store(fabric)?: when it fails
                       \* the answer is Failure with the fail-safe idle and nothing stored (F-C08e).  Repaired: the store comes
                       \* first, a failure leaves the fail-safe armed (the commissioner retries, or the expiry undoes everything)
                       /\ IF failNext /\ Fixed THEN UNCHANGED <<fs, sess, kv, acked, uncommitted>>
                          ELSE /\ fs' = Idle /\ sess' = RemovePase(sess)
                               /\ IF failNext THEN UNCHANGED <<kv, acked>> /\ uncommitted' = TRUE
                                  ELSE kv' = [kv EXCEPT ![s.fab] = fabrics[s.fab]] /\ acked' = [acked EXCEPT ![s.fab] = fabrics[s.fab]] /\ UNCHANGED uncommitted
                       /\ failNext' = FALSE
                  ELSE UNCHANGED <<fs, sess, kv, acked, failNext, uncommitted>>
               /\ UNCHANGED <<fabrics, resum, resumKv, nextGen, snap, stuck>>

RemoveFabric(c, f) ==
  /\ ~stuck /\ Has(c, "case") /\ Log([op |-> "Cmd", c |-> c, via |-> "case", cmd |-> "remove", idx |-> f])
  /\ LET s == The(c, "case") IN
     IF Present(s.fab) /\ fabrics[s.fab].gen = s.gen /\ Present(f)
     THEN /\ fabrics' = [fabrics EXCEPT ![f] = NULL]
          \* persist.remove(idx)? after the removal in memory: a failing store answers Failure and keeps the stored copy
          /\ IF failNext THEN UNCHANGED <<kv, acked>> ELSE kv' = [kv EXCEPT ![f] = NULL] /\ acked' = [acked EXCEPT ![f] = NULL]
          /\ failNext' = FALSE
          /\ sess' = {IF x = s THEN [x EXCEPT !.expired = TRUE] ELSE x : x \in {y \in sess : y.fab # f \/ y = s}}
          /\ resum' = {r \in resum : r.fab # f}
          /\ fs' = IF Fixed /\ fs.armed /\ fs.fab = f THEN Idle ELSE fs
     ELSE UNCHANGED <<fabrics, kv, acked, sess, resum, fs, failNext>>
  /\ UNCHANGED <<resumKv, nextGen, snap, stuck, uncommitted>>

\* FailSafe::expire
Rollback ==
  IF fs.fab # 0 /\ ~Present(fs.fab) /\ ~Fixed
  THEN /\ stuck' = TRUE /\ UNCHANGED <<fabrics, fs, sess, resum>>          \* fabrics.remove(idx)? -> Err: stays armed for ever
  ELSE /\ fabrics' = IF fs.fab = 0 \/ ~Present(fs.fab) THEN fabrics ELSE [fabrics EXCEPT ![fs.fab] = kv[fs.fab]]
       /\ fs' = Idle /\ UNCHANGED stuck
       \* (expire(): fabrics.remove(idx); fabrics.add_load(idx, kv); the sessions go with the fabric when nothing was loaded)
       /\ LET gone == fs.fab # 0 /\ Present(fs.fab) /\ kv[fs.fab].own = 0 IN
          /\ sess' = IF Fixed /\ gone THEN {s \in RemovePase(sess) : s.fab # fs.fab} ELSE RemovePase(sess)
          /\ resum' = IF Fixed /\ gone THEN {r \in resum : r.fab # fs.fab} ELSE resum
ExpireTimer == /\ NoStore /\ ~stuck /\ fs.armed /\ Rollback /\ Log([op |-> "Wait", ms |-> 61000])
               /\ UNCHANGED <<kv, resumKv, nextGen, snap, acked>>
ArmZero(c, m) == /\ NoStore /\ ~stuck /\ Has(c, m) /\ Log([op |-> "Cmd", c |-> c, via |-> m, cmd |-> "arm0"])
                 /\ IF fs.armed /\ (SameCtx(The(c, m)) \/ ~Fixed) THEN Rollback ELSE UNCHANGED <<fabrics, fs, sess, resum, stuck>>
                 /\ UNCHANGED <<kv, resumKv, nextGen, snap, acked>>

\* AdministratorCommissioning::RevokeCommissioning from any administrator: the fail-safe is forced to expire
Revoke(c) == /\ NoStore /\ ~stuck /\ Has(c, "case") /\ Log([op |-> "Cmd", c |-> c, via |-> "case", cmd |-> "revoke"])
             /\ IF fs.armed THEN Rollback ELSE UNCHANGED <<fabrics, fs, sess, resum, stuck>>
             /\ UNCHANGED <<kv, resumKv, nextGen, snap, acked>>

\* the lazy writer of the resumption cache, and a power cut + start-up from the store
PersistResum == /\ resumKv # resum /\ resumKv' = (IF failNext THEN resumKv ELSE resum) /\ failNext' = FALSE
                /\ Log([op |-> "Wait", ms |-> 2500])
                /\ UNCHANGED <<fabrics, kv, fs, sess, resum, nextGen, snap, stuck, acked, uncommitted>>
Restart == /\ ~failNext /\ uncommitted' = FALSE /\ UNCHANGED failNext
           /\ fabrics' = kv /\ fs' = Idle /\ sess' = {} /\ stuck' = FALSE
           /\ resum' = IF Fixed THEN {r \in resumKv : kv[r.fab].own # 0 /\ kv[r.fab].gen = r.gen} ELSE resumKv
           /\ Log([op |-> "Restart"])
           /\ UNCHANGED <<kv, resumKv, nextGen, snap, acked>>

\* Matter::factory_reset, then a power cycle: nothing of any fabric is left, in memory or in the store
FactoryReset == /\ ~failNext /\ uncommitted' = FALSE /\ UNCHANGED failNext
                /\ fabrics' = [i \in Idx |-> NULL] /\ kv' = [i \in Idx |-> NULL] /\ acked' = [i \in Idx |-> NULL]
                /\ fs' = Idle /\ sess' = {} /\ resum' = {} /\ resumKv' = {} /\ stuck' = FALSE
                /\ Log([op |-> "FactoryReset"])
                /\ UNCHANGED <<nextGen, snap>>

\* fault injection: the next mutating operation of the store fails
KvFail == /\ ~failNext /\ ~stuck /\ failNext' = TRUE /\ Log([op |-> "KvFail", k |-> 0])
          /\ UNCHANGED <<fabrics, kv, fs, sess, resum, resumKv, nextGen, snap, stuck, acked, uncommitted>>

Next == /\ nops < MaxOps
        /\ \/ \E c \in Ctl : Pase(c) \/ Case(c) \/ Case2(c) \/ Use(c) \/ Label(c) \/ Complete(c) \/ Csru(c) \/ Unoc(c) \/ Revoke(c)
           \/ \E c \in Ctl, m \in {"pase", "case"} : Arm(c, m) \/ ArmZero(c, m) \/ Csr(c, m) \/ AddRoot(c, m) \/ AddNoc(c, m)
           \/ \E c \in Ctl, f \in Idx : RemoveFabric(c, f)
           \/ ExpireTimer \/ PersistResum \/ Restart \/ FactoryReset
           \/ (StoreFaults /\ KvFail)
Spec == Init /\ [][Next]_vars

(* ---- the properties on the model ---- *)
\* C07 NoOrphans: a usable session / resumption record belongs to the fabric that is at its index now
NoOldSessionOnNewFabric == \A s \in sess : (~s.expired /\ s.mode = "case") => (Present(s.fab) /\ fabrics[s.fab].gen = s.gen)
NoOldResumptionOnNewFabric == \A r \in resum : Present(r.fab) => fabrics[r.fab].gen = r.gen
\* C08 NeverStuck + RollbackRestores: once the fail-safe is idle again without a commit, the fabrics are what they were
NeverStuck == ~stuck
RollbackRestores == (~fs.armed) => \A i \in Idx : fabrics[i] = kv[i]
\* ... with store failures: a failed write leaves memory ahead of the store (the answer was Failure); what must still hold is
\* that the fail-safe never goes idle with uncommitted credential changes in memory - CommittedOrUndone was violated by the
\* code as found (F-C08e, variant "orig"); it holds with the repair, as do the other invariants
CommittedOrUndone == ~uncommitted
\* C11 CommittedSurvives: what a peer was told is committed is what the store holds
CommittedSurvives == \A i \in Idx : (acked[i].own # 0 /\ kv[i].gen = acked[i].gen) => kv[i].ver = acked[i].ver

EmitAtEnd == nops = MaxOps => PrintT(<<"REPLAY", ToJson(h)>>)
=============================================================================
