SPECIFICATION Spec
CONSTANTS
  Which = "C08"
POSTCONDITION TraceAccepted
CHECK_DEADLOCK FALSE
