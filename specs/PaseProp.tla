------------------------------ MODULE PaseProp ------------------------------
(***************************************************************************)
(* Layer P for C02, written from the property text.  Observable events     *)
(* (t in ms, virtual time):                                                *)
(*  Open(ok, timeout, t) / Close(ok, t)   the administrator opens / closes *)
(*                    the commissioning window                             *)
(*  Start(i, kind, passOk, garbled, t)    initiator i begins an attempt:   *)
(*                    it knows the passcode or not; the network garbles    *)
(*                    one of the handshake messages or not                 *)
(*  IniEnd(i, ok, t)  the initiator's handshake call returned              *)
(*  DevSess(what, mode, reserved, i, t)   the device's session table       *)
(*                    gained ("added") / lost ("removed") an entry for     *)
(*                    initiator i; mode "pase" = passcode-authenticated    *)
(*  Win(open, failures, advertised, expiry, t)  the device's window state, *)
(*                    failure counter, whether it is advertised as         *)
(*                    commissionable, and the window's expiry time         *)
(*  End                                                                    *)
(***************************************************************************)
EXTENDS Integers, FiniteSets, Sequences
CONSTANTS MaxFailures,   \* 20
          PollMs         \* the expiry polling period (plus slack)

NoAtt == [kind |-> "none", passOk |-> FALSE, garbled |-> FALSE, at |-> 0]
Fresh == [open |-> FALSE, expiry |-> 0, fails |-> 0,
          adminClosed |-> FALSE,          \* the last closing was the administrator's
          att |-> [i \in 1..3 |-> NoAtt],  \* the attempt in progress per initiator
          devPase |-> {},                  \* initiators for which the device holds a PASE session
          proofs |-> 0, counted |-> 0,     \* failed proofs presented while the window was open / failures counted
          pendingProof |-> {}]             \* initiators whose failed proof is not accounted for yet

OpenOk(ok, timeout, t, s) == ok = ~s.open
AfterOpen(ok, timeout, t, s) == IF ok THEN [s EXCEPT !.open = TRUE, !.expiry = t + timeout * 1000, !.fails = 0, !.adminClosed = FALSE] ELSE s
CloseOk(ok, t, s) == ok = s.open
AfterClose(ok, t, s) == IF ok THEN [s EXCEPT !.open = FALSE, !.fails = 0, !.adminClosed = TRUE] ELSE s

StartOk(i, kind, passOk, garbled, t, s) == TRUE
AfterStart(i, kind, passOk, garbled, t, s) == [s EXCEPT !.att[i] = [kind |-> kind, passOk |-> passOk, garbled |-> garbled, at |-> t]]

\* SessionOnlyWhileOpen + SessionOnlyWithPasscode: a passcode-authenticated session appears only while a window is open
\* and not expired, and only for an initiator that knows the passcode and whose handshake was not tampered with
DevSessOk(what, mode, reserved, i, t, s) ==
  (what = "added" /\ mode = "pase") =>
     /\ s.open /\ t <= s.expiry
     /\ i \in 1..3 /\ s.att[i].kind = "pase" /\ s.att[i].passOk /\ ~s.att[i].garbled
AfterDevSess(what, mode, reserved, i, t, s) ==
  IF mode = "pase" /\ i \in 1..3
  THEN [s EXCEPT !.devPase = IF what = "added" THEN @ \cup {i} ELSE @ \ {i}]
  ELSE s

\* the initiator ends up with a session only if it knows the passcode, nothing was tampered with, and the device holds
\* the session too; a failed proof is remembered until the device's counter shows it
IniEndOk(i, ok, t, s) ==
  (ok /\ s.att[i].kind = "pase") => (s.att[i].passOk /\ ~s.att[i].garbled /\ i \in s.devPase)
AfterIniEnd(i, ok, t, s) == s

\* FailuresCounted / RevokedAt20 / AdvertisedIffOpen: the counter never decreases within a window, an open window has
\* fewer than MaxFailures failures, a window disappears on its own only by expiry or at the MaxFailures-th failure,
\* and the node is advertised exactly while the window is open (an expired window may linger for the polling period)
WinOk(open, failures, advertised, expiry, t, s) ==
  /\ advertised = open
  /\ open => (failures < MaxFailures /\ t <= expiry + PollMs)
  /\ (open /\ s.open) => failures >= s.fails
  /\ (s.open /\ ~open) => (t > s.expiry \/ s.fails = MaxFailures - 1)      \* closed by the device itself
  /\ (~s.open /\ open) => FALSE                                              \* only the administrator opens
AfterWin(open, failures, advertised, expiry, t, s) ==
  [s EXCEPT !.open = open, !.fails = IF open THEN failures ELSE 0,
            !.counted = @ + (IF open /\ s.open THEN failures - s.fails ELSE IF s.open /\ ~open /\ t <= s.expiry THEN 1 ELSE 0)]

\* Proof(i): a handshake that cannot verify (wrong passcode / tampered message) delivered its final message to the device
ProofOk(i, t, s) == TRUE
AfterProof(i, t, s) == IF s.open THEN [s EXCEPT !.proofs = @ + 1] ELSE s
\* every failed proof presented to an open window has been counted by the time everything is quiet
EndOk(s) == s.counted >= s.proofs
=============================================================================
