--------------------------------- MODULE Chunk ---------------------------------
EXTENDS Integers, Sequences, FiniteSets, TLC, Json
\* Layer I for C14: the report writer loop of im.rs (report_attributes / send / send_array_items),
\* sizes abstracted to small integers. An item is a scalar [k |-> "s", sz |-> n] or a list
\* [k |-> "l", hdr |-> h, el |-> <<n1, n2, ...>>] (whole-list request).
CONSTANTS Cap,        \* size units available for elements in one message (after the reserved trailer)
          Universe,   \* set of item sequences a request may select (expansion order)
          Variant     \* "orig": an item that does not fit an empty message is retried for ever (the code as found, F-C14b);
                      \* "fixed": a second NoSpace for the same item right after a flush is answered with a
                      \* ResourceExhausted status (the `chunked` flag of report_attributes / send_array_items)
VARIABLES Items,      \* the item sequence of this run (chosen in Init)
          used,       \* bytes used in the message being built
          cur,        \* index of the item being written
          li,         \* 0 = not streaming a list; k > 0 = next list element to stream; -1 = must write the empty-list header first
          chunks,     \* history: sequence of messages, each a sequence of element tags
          msg,        \* history: element tags in the message being built
          chunked,    \* a message was already flushed for the item being written
          done
vars == <<Items, used, cur, li, chunks, msg, chunked, done>>
Size(it) == IF it.k = "s" THEN it.sz ELSE it.hdr + (LET S[i \in 0..Len(it.el)] == IF i = 0 THEN 0 ELSE S[i-1] + it.el[i] IN S[Len(it.el)])
Init == Items \in Universe /\ used = 0 /\ cur = 1 /\ li = 0 /\ chunks = <<>> /\ msg = <<>> /\ chunked = FALSE /\ done = FALSE
Flush == /\ chunks' = Append(chunks, msg) /\ msg' = <<>> /\ used' = 0
\* process_read(item): fits -> written as one element
WriteWhole == /\ ~done /\ cur <= Len(Items) /\ li = 0
              /\ used + Size(Items[cur]) <= Cap
              /\ used' = used + Size(Items[cur]) /\ msg' = Append(msg, <<cur, 0>>) /\ cur' = cur + 1 /\ chunked' = FALSE
              /\ UNCHANGED <<li, chunks, done>>
\* NoSpace on a scalar: rewind (implicit), send the chunk, retry   (im.rs:1991-1999)
NoSpaceScalar == /\ ~done /\ cur <= Len(Items) /\ li = 0 /\ Items[cur].k = "s"
                 /\ used + Size(Items[cur]) > Cap
                 /\ IF Variant = "fixed" /\ chunked
                    THEN /\ msg' = Append(msg, <<cur, -9>>) /\ used' = used + 1 /\ cur' = cur + 1 /\ chunked' = FALSE /\ UNCHANGED <<li, chunks, done>>   \* a status element
                    ELSE Flush /\ chunked' = TRUE /\ UNCHANGED <<cur, li, done>>
\* NoSpace on a whole list: switch to element streaming (send_array_items)
NoSpaceList == /\ ~done /\ cur <= Len(Items) /\ li = 0 /\ Items[cur].k = "l"
               /\ used + Size(Items[cur]) > Cap
               /\ li' = -1 /\ chunked' = FALSE /\ UNCHANGED <<used, cur, chunks, msg, done>>
ListHdr == /\ ~done /\ li = -1
           /\ IF used + Items[cur].hdr <= Cap
              THEN used' = used + Items[cur].hdr /\ msg' = Append(msg, <<cur, -1>>) /\ li' = 1 /\ chunked' = FALSE /\ UNCHANGED chunks
              ELSE Flush /\ chunked' = TRUE /\ UNCHANGED li
           /\ UNCHANGED <<cur, done>>
ListEl == /\ ~done /\ li > 0
          /\ IF li > Len(Items[cur].el) THEN li' = 0 /\ cur' = cur + 1 /\ chunked' = FALSE /\ UNCHANGED <<used, msg, chunks>>
             ELSE IF used + Items[cur].el[li] <= Cap
                  THEN used' = used + Items[cur].el[li] /\ msg' = Append(msg, <<cur, li>>) /\ li' = li + 1 /\ chunked' = FALSE /\ UNCHANGED <<cur, chunks>>
                  ELSE IF Variant = "fixed" /\ chunked
                       THEN /\ msg' = Append(msg, <<cur, -9>>) /\ used' = used + 1 /\ li' = 0 /\ cur' = cur + 1 /\ chunked' = FALSE /\ UNCHANGED chunks   \* an element that can never fit: status, the list ends here
                       ELSE Flush /\ chunked' = TRUE /\ UNCHANGED <<cur, li>>
          /\ UNCHANGED done
Finish == /\ ~done /\ cur > Len(Items) /\ li = 0
          /\ chunks' = Append(chunks, msg) /\ done' = TRUE /\ UNCHANGED <<used, cur, li, msg, chunked>>
Term == done /\ UNCHANGED <<used, cur, li, chunks, msg, chunked, done>>
Next == (Term \/ WriteWhole \/ NoSpaceScalar \/ NoSpaceList \/ ListHdr \/ ListEl \/ Finish) /\ UNCHANGED Items
Spec == Init /\ [][Next]_vars /\ WF_vars(Next)
\* ---- Layer P (on the history) ----
Flat == LET F[i \in 0..Len(chunks)] == IF i = 0 THEN <<>> ELSE F[i-1] \o chunks[i] IN F[Len(chunks)]
\* every item delivered exactly once: either whole (<<i,0>>) or as header + every element once, in order
DeliveredOnce(i) ==
  LET pos == {p \in 1..Len(Flat) : Flat[p][1] = i} IN
  \/ Cardinality(pos) = 1 /\ \E p \in pos : Flat[p][2] = 0
  \/ Cardinality(pos) = 1 /\ Items[i].k = "s" /\ Size(Items[i]) > Cap /\ \E p \in pos : Flat[p][2] = -9     \* can never fit: a status
  \/ /\ Items[i].k = "l" /\ Cardinality(pos) = Len(Items[i].el) + 1
     /\ {Flat[p][2] : p \in pos} = {-1} \cup (1..Len(Items[i].el))
     /\ \A p \in pos, q \in pos : p < q => (Flat[p][2] = -1 \/ Flat[p][2] < Flat[q][2])
  \* a list with an element that can never fit: the header, the elements before it in order, then a status
  \/ /\ Items[i].k = "l" /\ \E k \in 1..Len(Items[i].el) :
          /\ Items[i].el[k] > Cap /\ \A j \in 1..(k - 1) : Items[i].el[j] <= Cap
          /\ {Flat[p][2] : p \in pos} = {-1, -9} \cup (1..(k - 1)) /\ Cardinality(pos) = k + 1
          /\ \A p \in pos, q \in pos : p < q => (Flat[p][2] = -1 \/ Flat[q][2] = -9 \/ Flat[p][2] < Flat[q][2])
Complete == done => \A i \in 1..Len(Items) : DeliveredOnce(i)
Ordered == done => \A p, q \in 1..Len(Flat) : p < q => Flat[p][1] <= Flat[q][1]
Bounded == Len(chunks) <= 12                 \* step bound: more than this many messages means no progress
Terminates == <>done
=============================================================================
