SPECIFICATION TSpec
CONSTANTS
  EPs = {0, 1, 2, 3}
  MaxChanges = 4
  Requests <- ReqSet
  Variant = "code"
POSTCONDITION TraceAccepted
CHECK_DEADLOCK FALSE
