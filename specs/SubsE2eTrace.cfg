SPECIFICATION Spec
CONSTANTS
  Clusters = {101, 102}
  Attrs = {0, 1, 2, 3}
  TolMs = 50
  SlackMs = 2000
POSTCONDITION TraceAccepted
CHECK_DEADLOCK FALSE
