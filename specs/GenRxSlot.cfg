\* disturbance schedules (simulation): 3 exchange ids, 2 handlers, 7 packets
SPECIFICATION Spec
CONSTANTS
  ExIds = {1, 2, 3}
  Handlers = {1, 2}
  MaxPkts = 7
  Policies = {"reply", "drop", "hold"}
INVARIANTS RightExchangeOnly OpensOnlyIfAllowed EmitAtEnd
CHECK_DEADLOCK FALSE
