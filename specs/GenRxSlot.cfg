\* disturbance schedules (simulation): 2 sessions x 3 exchange ids, 2 handlers, 8 packets
SPECIFICATION Spec
CONSTANTS
  Sess = {1, 2}
  ExIds = {1, 2, 3}
  Handlers = {1, 2}
  MaxPkts = 8
  MaxOwn = 1
  OwnKeys <- Own11
  RoleBlind = FALSE
  Policies = {"reply", "drop", "hold", "relDrop"}
INVARIANTS RightExchangeOnly OpensOnlyIfAllowed EmitAtEnd
CHECK_DEADLOCK FALSE
