SPECIFICATION Spec
CONSTANTS
  R = 268435456
POSTCONDITION TraceAccepted
CHECK_DEADLOCK FALSE
