----------------------------- MODULE SlotsTrace -----------------------------
(* Trace validation for C20 against Layer P (SlotsProp).  {"ev":"Reset"} starts a new run. *)
EXTENDS SlotsProp, TLC, Json, IOUtils
Rec == ndJsonDeserialize(IOEnv.TRACE)
VARIABLES i, st
vars == <<i, st>>
Init == i = 1 /\ st = Fresh
IsEvent(x) == i <= Len(Rec) /\ Rec[i].ev = x /\ i' = i + 1
R == Rec[i]
Reset   == IsEvent("Reset") /\ st' = Fresh
Start   == IsEvent("Start") /\ st' = IF R.complete /\ R.pass_ok /\ ~R.garbled THEN st ELSE AfterDisturb(R.t, st)
Garbage == (IsEvent("Garbage") \/ IsEvent("Cancel")) /\ st' = AfterDisturb(R.t, st)
Win     == IsEvent("Win") /\ st' = AfterWindow(R.open, R.t, st)
PStart  == IsEvent("ProbeStart") /\ ProbeStartOk(R.i, R.usable, R.t, st) /\ st' = AfterProbeStart(R.i, R.usable, R.t, st)
PTry    == IsEvent("IniEnd") /\ (R.probe => ProbeTryOk(R.i, R.ok, R.code, R.t, st)) /\ UNCHANGED st
PEnd    == IsEvent("ProbeEnd") /\ ProbeEndOk(R.i, R.ok, R.tries, R.t, st) /\ UNCHANGED st
End     == IsEvent("End") /\ EndOk(R.n_reserved, R.n_exch, R.marker, R.busy_fillers, R.busy_fillers_alive, R.left_idle, R.t, st) /\ UNCHANGED st
Other   == i <= Len(Rec) /\ Rec[i].ev \notin {"Reset", "Start", "Garbage", "Cancel", "Win", "ProbeStart", "IniEnd", "ProbeEnd", "End"} /\ i' = i + 1 /\ UNCHANGED st
Next == Reset \/ Start \/ Garbage \/ Win \/ PStart \/ PTry \/ PEnd \/ End \/ Other
Spec == Init /\ [][Next]_vars
TraceAccepted ==
  LET d == TLCGet("stats").diameter IN
  IF d - 1 = Len(Rec) THEN TRUE ELSE Print(<<"REJECTED", d, ToJson(Rec[d])>>, FALSE)
=============================================================================
