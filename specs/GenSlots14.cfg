\* schedule generator (simulation): the real table (16 slots) with 13 permanently busy sessions leaves 2
SPECIFICATION Spec
CONSTANTS
  Inits = {1, 2, 3}
  Cap = 16
  Busy = 14
  MaxOps = 16
INVARIANTS NeverEvictBusy NoLeak Capacity EmitAtEnd
CHECK_DEADLOCK FALSE
