\* the code as found: a scalar larger than an empty message is retried for ever (TLC must find Bounded violated); every sequence of up to 3 items (scalars of 1..5 units, lists of 0..3 elements) with a message capacity of 4 units
SPECIFICATION Spec
CONSTANTS
  Cap = 4
  Universe <- UBig
  Variant = "orig"
INVARIANTS Complete Ordered Bounded
PROPERTIES Terminates
CHECK_DEADLOCK FALSE
