---------------------------- MODULE CtrPair ----------------------------
(***************************************************************************)
(* Message counters as pairs <<h, l>> of base-B digits, i.e. the value     *)
(* h*B + l in a ring of B*B values.  TLC integers are 32-bit signed, so    *)
(* the real 32-bit unsigned counters (B = 65536) do not fit an integer;    *)
(* the exhaustive models use the same operators with a small even B.       *)
(***************************************************************************)
EXTENDS Integers
CONSTANT B
ASSUME B \in Nat /\ B >= 2 /\ B % 2 = 0

Ctr == (0..(B-1)) \X (0..(B-1))
Lt(a, b) == a[1] < b[1] \/ (a[1] = b[1] /\ a[2] < b[2])
Le(a, b) == a = b \/ Lt(a, b)
\* (a - b) mod B^2, as a pair
SubMod(a, b) ==
  LET borrow == IF a[2] < b[2] THEN 1 ELSE 0
  IN  << (a[1] - b[1] - borrow) % B, a[2] - b[2] + borrow * B >>
\* (a + n) mod B^2 for 0 <= n < B
AddSmall(a, n) ==
  LET s == a[2] + n
  IN  IF s < B THEN <<a[1], s>> ELSE << (a[1] + 1) % B, s - B >>
IsSmall(d, n) == d[1] = 0 /\ d[2] <= n          \* the value of d is <= n   (n < B)
Small(d) == d[2]                                \* value of d when d[1] = 0
\* modular half-space test: a is "forward" of b iff (a - b) mod ring in 1 .. ring/2 - 1
FwdMod(a, b) == LET d == SubMod(a, b) IN d # <<0, 0>> /\ d[1] < B \div 2
=============================================================================
