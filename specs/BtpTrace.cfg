SPECIFICATION Spec
CONSTANTS
  AckTimeout = 15
  Slack = 2
POSTCONDITION TraceAccepted
CHECK_DEADLOCK FALSE
