\* schedule generator (simulation): window 3, up to 3 messages of 1..3 segments per end, optional hostile segment at the end
SPECIFICATION Spec
CONSTANTS
  Wnd = 3
  Variant = "fixed"
  LastSlot = "pendingAck"
  MaxSdu = 3
  SegChoices = {1, 2, 3}
  MaxSeq = 12
  MaxOps = 50
  Hostile = TRUE
INVARIANTS Refines NoPanic EmitAtEnd
CONSTRAINT SeqBound
CHECK_DEADLOCK FALSE
