\* group sender table: 3 senders, capacity 2, ring of 16, window 3, all histories of 5 messages
SPECIFICATION Spec
CONSTANTS
  B = 4
  W = 3
  K = 2
  Variant = "fixed"
  Senders = {1, 2, 3}
  MaxSteps = 5
  Directed = FALSE
  Kinds = {"grp"}
VIEW view
INVARIANTS Refines TypeOK
CHECK_DEADLOCK FALSE
