\* behaviour generator at the real scale (32-bit counters, window 16, 16 group senders + 2)
SPECIFICATION GenSpec
CONSTANTS
  B = 65536
  W = 16
  K = 16
  Variant = "fixed"
  Senders = {1,2,3,4,5,6,7,8,9,10,11,12,13,14,15,16,17,18}
  MaxSteps = 60
  Directed = TRUE
  Kinds = {"sec", "plain", "grp"}
INVARIANTS Refines EmitAtEnd
CHECK_DEADLOCK FALSE
