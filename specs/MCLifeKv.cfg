\* as MCLife.cfg with key-value store failures injected (KvFail): the invariants that must hold under store failures
SPECIFICATION Spec
CONSTANTS
  Ctl = {1, 2}
  MaxIdx = 2
  MaxGen = 3
  MaxOps = 11
  Variant = "fixed"
  StoreFaults = TRUE
VIEW view
INVARIANTS NoOldSessionOnNewFabric NoOldResumptionOnNewFabric NeverStuck CommittedSurvives CommittedOrUndone
CHECK_DEADLOCK FALSE
