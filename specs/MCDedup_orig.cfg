\* unicast windows (secure + unsecured), ring of 16, window 3, all histories of 7 counters
SPECIFICATION Spec
CONSTANTS
  B = 4
  W = 3
  K = 2
  Variant = "orig"
  Senders = {}
  MaxSteps = 7
  Directed = FALSE
  Kinds = {"sec", "plain"}
VIEW view
INVARIANTS Refines TypeOK
CHECK_DEADLOCK FALSE
