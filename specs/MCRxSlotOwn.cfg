\* 2 sessions x 2 exchange ids, 2 handlers, 3 packets of any (session, id, initiator, reliable), every handler policy; the device opens one exchange of its own; safety
SPECIFICATION Spec
CONSTANTS
  Sess = {1, 2}
  ExIds = {1, 2}
  Handlers = {1, 2}
  MaxPkts = 3
  MaxOwn = 1
  OwnKeys <- Own11
  RoleBlind = FALSE
  Policies = {"reply", "hold", "relDrop"}
VIEW view
INVARIANTS RightExchangeOnly OpensOnlyIfAllowed

CHECK_DEADLOCK FALSE
