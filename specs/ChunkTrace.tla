---------------------------- MODULE ChunkTrace ----------------------------
(* C14: trace validation of the answers to wildcard reads recorded by the IM world (harness c14).  One run:
     Req(items, events, evstatus)   the attributes of the selected cluster in expansion order; {a, k = "s", size} or
                  {a, k = "l", els}; the payload sizes of the selected events waiting in the node's queue, oldest first;
                  the number of concrete event paths that select nothing (each is answered by one status)
     El(...)      one AttributeReportIB (k = data / status) or EventReportIB (k = ev / evstatus) decoded by the client,
                  in the order received; chunk = number of the message
     End(...)     the client's exchange ended: error text ("" = the last message said so), per-message summary
                  (elements, more-chunks flag, malformed), the largest datagram of the device.
   Layer I (Chunk.tla with the `fits` decision left to the implementation): the elements follow the writer's state
   machine - WriteWhole / ListHdr / ListEl / status - and a ResourceExhausted status can only open a message.
   Layer P (property text): every selected value exactly once and in order, lists split at element boundaries only and
   reassembling to the original, every message well-formed and within the transport's maximum, only the last message
   ends the interaction, and the answer ends (Bounded).  A value larger than the transmit buffer less Overhead bytes may be answered by a
   ResourceExhausted status instead (it can not be carried by any message); no value may be cut or dropped silently. *)
EXTENDS Integers, Sequences, FiniteSets, TLC, Json, IOUtils
CONSTANTS Overhead      \* bytes of a message that are not available to one value (headers, report framing, reserve)
Rec == ndJsonDeserialize(IOEnv.TRACE)
VARIABLES safeFit, maxDatagram,         \* from Req: transmit buffer of the build less Overhead; largest datagram of the transport
          i, items, cur, li, lastChunk, nEl,
          evs, nEv, evSt, nSt, lastNo      \* expected events, events seen, expected / seen event statuses, last event number
vars == <<safeFit, maxDatagram, i, items, cur, li, lastChunk, nEl, evs, nEv, evSt, nSt, lastNo>>
Init == safeFit = 0 /\ maxDatagram = 0 /\ i = 1 /\ items = <<>> /\ cur = 1 /\ li = 0 /\ lastChunk = 0 /\ nEl = 0 /\ evs = <<>> /\ nEv = 0 /\ evSt = 0 /\ nSt = 0 /\ lastNo = -1
IsEvent(x) == i <= Len(Rec) /\ Rec[i].ev = x /\ i' = i + 1
R == Rec[i]
Reset == IsEvent("Reset") /\ UNCHANGED <<safeFit, maxDatagram>> /\ items' = <<>> /\ cur' = 1 /\ li' = 0 /\ lastChunk' = 0 /\ nEl' = 0 /\ evs' = <<>> /\ nEv' = 0 /\ evSt' = 0 /\ nSt' = 0 /\ lastNo' = -1
Req == IsEvent("Req") /\ safeFit' = R.cap - Overhead /\ maxDatagram' = R.max_dgram /\ items' = R.items /\ cur' = 1 /\ li' = 0 /\ lastChunk' = 0 /\ nEl' = 0
       /\ evs' = (IF "events" \in DOMAIN R THEN R.events ELSE <<>>) /\ evSt' = (IF "evstatus" \in DOMAIN R THEN R.evstatus ELSE 0)
       /\ nEv' = 0 /\ nSt' = 0 /\ lastNo' = -1
It == items[cur]
Advance == cur' = cur + 1 /\ li' = 0
\* the element is the one the writer produces next
ElOk ==
  /\ cur <= Len(items) /\ R.leaf = It.a /\ R.chunk >= lastChunk
  /\ IF R.k = "status"
     THEN \* only for a value no message can carry, and only as the first element of a message (the writer tried an empty one)
          /\ R.status = "ResourceExhausted" /\ R.chunk > lastChunk
          /\ IF li = 0 THEN It.k = "s" /\ It.size > safeFit
                       ELSE li <= Len(It.els) /\ It.els[li] > safeFit
          /\ Advance
     ELSE IF li = 0
          THEN IF It.k = "s" THEN R.li = "whole" /\ R.len = It.size /\ Advance
               ELSE /\ R.li = "whole"
                    /\ \/ R.els = It.els /\ Advance                                 \* the whole list in one element
                       \/ R.els = <<>> /\ Len(It.els) > 0 /\ li' = 1 /\ cur' = cur    \* the empty list first, the elements follow
          ELSE /\ R.li = "append" /\ li <= Len(It.els) /\ R.len = It.els[li]
               /\ IF li = Len(It.els) THEN Advance ELSE li' = li + 1 /\ cur' = cur
AttrEl == IsEvent("El") /\ R.k \in {"data", "status"} /\ ElOk /\ lastChunk' = R.chunk /\ nEl' = nEl + 1 /\ UNCHANGED <<safeFit, maxDatagram, items, evs, nEv, evSt, nSt, lastNo>>
\* event reports come after every attribute report; the statuses of the paths that select nothing first, then every selected
\* event exactly once, oldest first, with its payload
EvEl == /\ IsEvent("El") /\ R.k \in {"ev", "evstatus"}
        /\ cur = Len(items) + 1 /\ li = 0 /\ R.chunk >= lastChunk
        /\ IF R.k = "evstatus" /\ R.status = "ResourceExhausted"
           THEN \* stands for an event no message can carry; only as the first element of a message
                /\ nEv < Len(evs) /\ evs[nEv + 1] > safeFit /\ R.chunk > lastChunk /\ R.cl = 101
                /\ nEv' = nEv + 1 /\ UNCHANGED <<nSt, lastNo>>
           ELSE IF R.k = "evstatus" THEN nSt < evSt /\ nEv = 0 /\ nSt' = nSt + 1 /\ UNCHANGED <<nEv, lastNo>>
           ELSE /\ nEv < Len(evs) /\ R.len = evs[nEv + 1] /\ R.no > lastNo
                /\ nEv' = nEv + 1 /\ lastNo' = R.no /\ UNCHANGED nSt
        /\ lastChunk' = R.chunk /\ nEl' = nEl + 1 /\ UNCHANGED <<safeFit, maxDatagram, items, cur, li, evs, evSt>>
El == AttrEl \/ EvEl
EndOk ==
  /\ R.error = ""
  /\ cur = Len(items) + 1 /\ li = 0                                       \* Complete / exactly once / ordered
  /\ nEv = Len(evs) /\ nSt = evSt                                         \* every selected event, every status
  /\ Len(R.chunks) >= 1 /\ Len(R.chunks) >= lastChunk
  /\ \A c \in 1..Len(R.chunks) : /\ R.chunks[c].malformed = ""             \* well-formed on its own
                                 /\ R.chunks[c].more = (c < Len(R.chunks))  \* only the last one ends the interaction
  /\ R.max_size <= maxDatagram                                            \* fits the transport's maximum size
  /\ Len(R.chunks) <= 2 * nEl + 2                                         \* Bounded: no run of empty messages
End == IsEvent("End") /\ EndOk /\ UNCHANGED <<safeFit, maxDatagram, items, cur, li, lastChunk, nEl, evs, nEv, evSt, nSt, lastNo>>
Other == i <= Len(Rec) /\ Rec[i].ev \notin {"Reset", "Req", "El", "End"} /\ i' = i + 1 /\ UNCHANGED <<safeFit, maxDatagram, items, cur, li, lastChunk, nEl, evs, nEv, evSt, nSt, lastNo>>
Next == Reset \/ Req \/ El \/ End \/ Other
Spec == Init /\ [][Next]_vars
TraceAccepted ==
  LET d == TLCGet("stats").diameter IN
  IF d - 1 = Len(Rec) THEN TRUE ELSE Print(<<"REJECTED", d, ToJson(Rec[d])>>, FALSE)
=============================================================================
