------------------------------ MODULE LifeProp ------------------------------
(***************************************************************************)
(* Layer P for C07, C08 and C11, written from the property texts.          *)
(* Observable events of the administrative world (one device, two          *)
(* administrators c = 1, 2 with their own root CAs):                       *)
(*  Op(op, c, via, cmd, ok, code, fresh, idx)  an administrator's          *)
(*      operation and its outcome: "Commission" (ok), "Pase", "Read" (a    *)
(*      request over its operational session; fresh = FALSE: only over the *)
(*      session it already holds), "Cmd" (cmd = arm / arm0 / csr / root /  *)
(*      noc / csru / unoc (CSRRequest for update, UpdateNOC) / complete /  *)
(*      remove / label over its PASE or CASE session),                     *)
(*      "Wait", "Restart" (power cut and start-up from the store),         *)
(*      "FactoryReset" (Matter::factory_reset, then a restart),            *)
(*      "CorruptResum"                                                     *)
(*  State(fabrics, sessions, resum, fs, imDead)  the device afterwards:    *)
(*      fabrics [idx, own (whose root), inc (incarnation), label],         *)
(*      secure sessions [id, mode, fab, c, expired, inc (incarnation of    *)
(*      their fabric when they were created)], resumption records [fab,    *)
(*      inc], fail-safe [armed, fab, flags]                                *)
(* Which = "C07" | "C08" | "C11" selects the rules that decide.            *)
(***************************************************************************)
EXTENDS Integers, FiniteSets, Sequences
CONSTANT Which

SeqSet(s) == {s[k] : k \in 1..Len(s)}
NoCtx == [armed |-> FALSE, c |-> 0, via |-> "none", flags |-> {}, noc |-> FALSE]
Fresh == [fabs |-> {}, sess |-> {}, fsArmed |-> FALSE, fsFlags |-> 0,
          ctx |-> NoCtx,                 \* reference fail-safe context (C08)
          snap |-> {},                   \* fabrics when the fail-safe got armed (C08)
          committed |-> {},              \* [own, label]: what administrators were told is committed (C11)
          pendingLabel |-> {},           \* labels written under an armed fail-safe: [own, label]
          lastOp |-> [op |-> "none"], removedIdx |-> 0, dirty |-> FALSE,
          gone |-> {},                   \* indices of the fabrics removed by RemoveFabric while the fail-safe is armed (C08)
          booted |-> TRUE]

\* (noc: fingerprint of the fabric's operational certificate - UpdateNOC replaces it under the fail-safe)
Cfg(fabs) == {[idx |-> f.idx, own |-> f.own, label |-> f.label, noc |-> f.noc] : f \in fabs}
Bit(flags, b) == (flags \div b) % 2 = 1

(* ------------------------------------------------------------------ Op *)
SameCtx(s, c, via) == s.ctx.armed /\ s.ctx.c = c /\ (s.ctx.via = via \/ (s.ctx.noc /\ via = "case"))
\* C08 OrderAndOnce + SameContext: the reference verdict for a credential command in the current fail-safe context
Expect(s, c, via, cmd) ==
  CASE cmd = "arm"  -> ~s.ctx.armed \/ SameCtx(s, c, via)
    [] cmd = "arm0" -> ~s.ctx.armed \/ SameCtx(s, c, via)
    [] cmd = "csr"  -> SameCtx(s, c, via) /\ {"csr", "csru"} \cap s.ctx.flags = {}
    \* a key for UpdateNOC: one CSRRequest per context, of one kind; the update flavour only over an operational session
    [] cmd = "csru" -> SameCtx(s, c, via) /\ via = "case" /\ {"csr", "csru"} \cap s.ctx.flags = {}
    [] cmd = "root" -> SameCtx(s, c, via) /\ "root" \notin s.ctx.flags
    [] cmd = "noc"  -> SameCtx(s, c, via) /\ {"csr", "root"} \subseteq s.ctx.flags /\ {"noc", "unoc"} \cap s.ctx.flags = {}
                       /\ ~\E f \in s.fabs : f.own = c             \* (a fabric of this root and id is on the node already: FabricConflict, C19)
    \* UpdateNOC: after its own kind of CSRRequest, once, never mixed with the commands that add a fabric
    [] cmd = "unoc" -> SameCtx(s, c, via) /\ via = "case" /\ "csru" \in s.ctx.flags /\ {"csr", "root", "noc", "unoc"} \cap s.ctx.flags = {}
    [] cmd = "complete" -> SameCtx(s, c, via) /\ via = "case"
    [] OTHER -> TRUE
\* C07: old credentials / old sessions never reach a fabric that is not theirs
ReadOk(c, ok, fresh, s) == ok => \E f \in s.fabs : f.own = c
OpOk(op, c, via, cmd, ok, code, fresh, s) ==
  /\ (Which = "C07" /\ op = "Read") => ReadOk(c, ok, fresh, s)
  /\ (Which = "C11" /\ op \in {"Restart", "FactoryReset"}) => ok                     \* a damaged optional cache never prevents start-up
AfterOp(op, c, via, cmd, ok, code, fresh, idx, ms, s) ==
  [s EXCEPT !.lastOp = [op |-> op, c |-> c, via |-> via, cmd |-> cmd, ok |-> ok, code |-> code, ms |-> ms],
            !.removedIdx = IF op = "Cmd" /\ cmd = "remove" /\ ok /\ code = "OK" THEN idx ELSE 0]

(* --------------------------------------------------------------- State *)
\* what the last command did, read off the device: accepted or not
Accepted(s, flags, armed) ==
  LET o == s.lastOp IN
  CASE o.cmd = "arm"  -> o.ok /\ o.code = "OK"
    [] o.cmd = "arm0" -> o.ok /\ o.code = "OK"
    [] o.cmd = "csr"  -> Bit(flags, 1) /\ ~Bit(s.fsFlags, 1)
    [] o.cmd = "csru" -> Bit(flags, 2) /\ ~Bit(s.fsFlags, 2)
    [] o.cmd = "unoc" -> Bit(flags, 16) /\ ~Bit(s.fsFlags, 16)
    [] o.cmd = "root" -> Bit(flags, 4) /\ ~Bit(s.fsFlags, 4)
    [] o.cmd = "noc"  -> Bit(flags, 8) /\ ~Bit(s.fsFlags, 8)
    [] o.cmd = "complete" -> o.ok /\ o.code = "OK"
    [] OTHER -> TRUE
\* the reference context after the last operation
NextCtx(s, fabs, armed) ==
  LET o == s.lastOp  acc == o.op = "Cmd" /\ Expect(s, o.c, o.via, o.cmd) IN
  IF ~armed THEN NoCtx
  ELSE IF o.op = "Pase" /\ o.ok /\ ~s.ctx.armed THEN [armed |-> TRUE, c |-> o.c, via |-> "pase", flags |-> {}, noc |-> FALSE]
  ELSE IF o.op = "Commission" /\ ~s.ctx.armed THEN [armed |-> TRUE, c |-> o.c, via |-> "pase", flags |-> {"csr", "root", "noc"}, noc |-> TRUE]
  ELSE IF acc /\ o.cmd = "arm" /\ ~s.ctx.armed THEN [armed |-> TRUE, c |-> o.c, via |-> o.via, flags |-> {}, noc |-> FALSE]
  ELSE IF acc /\ o.cmd \in {"csr", "root", "csru", "unoc"} THEN [s.ctx EXCEPT !.flags = @ \cup {o.cmd}]
  ELSE IF acc /\ o.cmd = "noc" THEN [s.ctx EXCEPT !.flags = @ \cup {"noc"}, !.noc = TRUE]
  ELSE s.ctx

StateOk(fabrics, sessions, resum, fsArmed, fsFlags, imDead, s) ==
  LET fabs == SeqSet(fabrics)  ss == SeqSet(sessions)  rs == SeqSet(resum)  o == s.lastOp IN
  /\ Which = "C07" =>
       \* NoOrphans: a usable operational session / resumption record belongs to the fabric that is at its index now
       /\ \A x \in ss : (x.mode = "case" /\ ~x.expired) => \E f \in fabs : f.idx = x.fab /\ f.inc = x.inc
       /\ \A r \in rs : \A f \in fabs : f.idx = r.fab => f.inc = r.inc
       \* OthersUntouched: removing a fabric leaves the sessions of the other fabrics alone
       /\ s.removedIdx # 0 => \A p \in s.sess : (p.fab # s.removedIdx /\ p.mode = "case") => \E x \in ss : x.id = p.id
       \* OthersUntouched (rollback): when the fail-safe goes idle - by its timer, ArmFailSafe(0), RevokeCommissioning,
       \* CommissioningComplete - the operational sessions of the fabrics that stay are neither removed nor expired
       /\ (s.fsArmed /\ ~fsArmed /\ o.op \notin {"Restart", "FactoryReset"})
            => \A p \in s.sess : (p.mode = "case" /\ ~p.expired /\ \E f \in fabs : f.idx = p.fab /\ f.inc = p.inc)
                                    => \E x \in ss : x.id = p.id /\ ~x.expired
       \* GoneStaysGone: a fabric is on the node only if it was there before, or its administrator has just commissioned it
       /\ \A f \in fabs : \/ \E g \in s.fabs : g.idx = f.idx /\ g.own = f.own
                          \/ o.op = "Commission" /\ o.c = f.own
                          \/ o.op = "Cmd" /\ o.cmd = "noc" /\ o.c = f.own
  /\ Which = "C08" =>
       \* OrderAndOnce + SameContext: the device accepted the command iff the reference does
       /\ (o.op = "Cmd" /\ o.cmd \in {"arm", "arm0", "csr", "csru", "root", "noc", "unoc", "complete"} /\ o.ok /\ s.booted)
            => (Accepted(s, fsFlags, fsArmed) <=> Expect(s, o.c, o.via, o.cmd))
       \* RollbackRestores: the fail-safe went idle without a commit: the fabrics are what they were when it was armed,
       \* less the ones an administrator removed in the meantime (a removal is final at once)
       /\ (s.fsArmed /\ ~fsArmed /\ ~(o.op = "Cmd" /\ o.cmd = "complete" /\ o.code = "OK") /\ ~s.dirty /\ o.op # "FactoryReset")
            => Cfg(fabs) = {f \in s.snap : f.idx \notin (s.gone \cup (IF s.removedIdx # 0 THEN {s.removedIdx} ELSE {}))}
       \* the fail-safe cannot stay armed past its time, and the node keeps serving
       /\ (o.op = "Wait" /\ o.ms >= 61000 /\ s.fsArmed) => ~fsArmed
       /\ ~imDead
  /\ Which = "C11" =>
       \* after a restart the node has every change that was confirmed as committed, and nothing else
       /\ ((o.op = "Restart" /\ o.ok) => ({[own |-> f.own, label |-> f.label] : f \in fabs} = s.committed))
       \* a factory reset leaves no fabric behind, in memory or in the store
       /\ (o.op = "FactoryReset" => fabs = {})

AfterState(fabrics, sessions, resum, fsArmed, fsFlags, imDead, s) ==
  LET fabs == SeqSet(fabrics)  o == s.lastOp
      acc == o.op = "Cmd" /\ o.ok /\ Accepted(s, fsFlags, fsArmed)
      armedFor == IF s.ctx.armed THEN s.ctx.c ELSE 0
      lab(c) == {f.label : f \in {g \in fabs : g.own = c}}
      committed1 ==
        IF o.op = "Commission" /\ o.ok /\ ~fsArmed THEN {x \in s.committed : x.own # o.c} \cup {[own |-> o.c, label |-> l] : l \in lab(o.c)}
        ELSE IF acc /\ o.cmd = "complete" /\ o.code = "OK" THEN {x \in s.committed : x.own # o.c} \cup {[own |-> o.c, label |-> l] : l \in lab(o.c)}
        ELSE IF o.op = "Cmd" /\ o.cmd = "label" /\ o.ok /\ o.code = "OK" /\ armedFor # o.c THEN {x \in s.committed : x.own # o.c} \cup {[own |-> o.c, label |-> l] : l \in lab(o.c)}
        ELSE IF o.op = "Cmd" /\ o.cmd = "remove" /\ o.ok /\ o.code = "OK" THEN {x \in s.committed : \E f \in fabs : f.own = x.own}
        ELSE IF o.op = "FactoryReset" THEN {}
        ELSE s.committed IN
  [s EXCEPT !.fabs = fabs, !.sess = SeqSet(sessions), !.fsArmed = fsArmed, !.fsFlags = fsFlags,
            !.ctx = IF o.op \in {"Restart", "FactoryReset"} THEN NoCtx ELSE NextCtx(s, fabs, fsArmed),
            !.snap = IF fsArmed /\ ~s.fsArmed THEN Cfg(s.fabs) ELSE @,
            !.dirty = IF ~fsArmed THEN FALSE
                      ELSE @ \/ (o.op = "Cmd" /\ o.cmd = "label" /\ o.ok /\ o.c # armedFor),    \* another administrator's committed write
            !.gone = IF ~fsArmed THEN {} ELSE IF s.removedIdx # 0 THEN @ \cup {s.removedIdx} ELSE @,
            !.committed = committed1, !.removedIdx = 0, !.lastOp = [op |-> "none"], !.booted = TRUE]
=============================================================================
