---------------------------- MODULE DedupProp ----------------------------
(***************************************************************************)
(* Layer P for C04: what the property text allows a receiver to answer for *)
(* each received message counter.  Written from the property statement,    *)
(* not from the code.                                                      *)
(*                                                                         *)
(* Kinds of peer state:                                                    *)
(*   "sec"   secure unicast session  (numeric order, no roll-over)         *)
(*   "plain" unsecured unicast session (may accept a restart of the peer)  *)
(*   "grp"   one tracked sender of a group (modular order, trust-first)    *)
(*                                                                         *)
(* A peer state is [acc, hi, floor]: the set of counters accepted so far   *)
(* (in the current epoch of the peer), the newest of them (or None) and the*)
(* counter below which "was it received before?" is unknowable (the first  *)
(* counter seen from a group sender / after a restart of an unsecured peer)*)
(***************************************************************************)
EXTENDS CtrPair, FiniteSets
CONSTANT W            \* size of the receive window (16 in the implementation)
ASSUME W \in Nat /\ W >= 1 /\ W < B

None == <<-1, -1>>
Fresh == [acc |-> {}, hi |-> None, floor |-> None]

Ahead(kind, c, s)  ==   \* c is newer than everything accepted so far
  s.hi = None \/ (IF kind = "grp" THEN FwdMod(c, s.hi) ELSE Lt(s.hi, c))
Behind(kind, c, s) ==   \* c is older than (or equal to) the newest accepted one
  s.hi # None /\ ~Ahead(kind, c, s)
Dist(kind, c, s)   == SubMod(s.hi, c)                \* how far behind (only if Behind)
InWin(kind, c, s)  == Behind(kind, c, s) /\ c # s.hi /\ IsSmall(Dist(kind, c, s), W)
Older(kind, c, s)  == Behind(kind, c, s) /\ c # s.hi /\ ~IsSmall(Dist(kind, c, s), W)
\* c is at or above the epoch floor (only then "not received before" is knowable)
AboveFloor(kind, c, s) ==
  s.floor = None \/ (IF kind = "grp" THEN c = s.floor \/ FwdMod(c, s.floor) ELSE Le(s.floor, c))

(* Is verdict v (TRUE = accepted as new, FALSE = rejected as duplicate/old) allowed? *)
Allowed(kind, c, v, s) ==
  /\ Ahead(kind, c, s) => v                                   \* newer: always accepted (incl. the first)
  /\ (v /\ kind # "plain") => c \notin s.acc                  \* never accepted twice
  /\ (v /\ kind # "plain") => ~Older(kind, c, s)              \* never older than the window
  /\ (kind = "plain" /\ v /\ ~Older(kind, c, s)) => c \notin s.acc
  /\ (kind # "grp" /\ InWin(kind, c, s) /\ c \notin s.acc /\ AboveFloor(kind, c, s)) => v
                                                              \* unicast: overtaken, in window, first time
  /\ (c = s.hi) => ~v

Update(kind, c, v, s) ==
  IF ~v THEN s
  ELSE IF kind = "plain" /\ Older(kind, c, s)
       THEN [acc |-> {c}, hi |-> c, floor |-> c]              \* peer restart: a new epoch
       ELSE LET nhi == IF Ahead(kind, c, s) THEN c ELSE s.hi IN
            [acc   |-> IF kind = "grp"   \* modular order: values a full half-ring behind fall off the horizon
                       THEN {a \in s.acc \cup {c} : ~FwdMod(a, nhi)}
                       ELSE s.acc \cup {c},
             hi    |-> nhi,
             floor |-> IF s.hi = None /\ kind = "grp" THEN c ELSE s.floor]
=============================================================================
