-------------------------------- MODULE Acl --------------------------------
(***************************************************************************)
(* C05: the access-control decision, written from the property text and    *)
(* the Matter Core specification (Access Control Privilege Granting        *)
(* algorithm) - not from the code.  The module is both the reference       *)
(* (operator Allow / Reach) and a generator of test vectors: every step of *)
(* the one-variable system below draws a configuration and prints it with  *)
(* the reference verdicts.                                                 *)
(*                                                                         *)
(* Configuration:                                                          *)
(*   fabs  : set of [idx, acl (sequence of entries), groups (gid -> eps)]  *)
(*   acc   : [mode \in PASE/CASE/Group, fab, node, cats (set of [id, ver]),*)
(*            grp]                                                         *)
(*   req   : [op \in read/write, access (declared access of the element),  *)
(*            ep, cl, dts (device types of the endpoint)]                  *)
(* Entry: [priv, auth, subj (None | sequence), tgt (None | sequence)]      *)
(***************************************************************************)
EXTENDS Integers, FiniteSets, Sequences, TLC, Json
CONSTANTS Seed

None == "null"
Wild == -1        \* absent field of a target
Null == [null |-> TRUE, items |-> <<>>]
List(x) == [null |-> FALSE, items |-> x]
Privs == {"View", "ProxyView", "Operate", "Manage", "Admin"}
Rank(p) == CASE p = "View" -> 1 [] p = "Operate" -> 2 [] p = "Manage" -> 3 [] p = "Admin" -> 4 [] OTHER -> 0

\* the declared access of an element: the operations it supports and the privilege each needs
\* (RV = readable with View; RWVM = read View / write Manage; ...), as in dm/types/privilege.rs
AccessDecl == [ RV   |-> [read |-> "View",  write |-> None],
                RA   |-> [read |-> "Admin", write |-> None],
                RWVM |-> [read |-> "View",  write |-> "Manage"],
                RWVA |-> [read |-> "View",  write |-> "Admin"],
                WO   |-> [read |-> None,    write |-> "Operate"],
                WM   |-> [read |-> None,    write |-> "Manage"],
                WA   |-> [read |-> None,    write |-> "Admin"] ]
Needed(req) == AccessDecl[req.access][req.op]
PrivOk(priv, req) == Needed(req) # None /\ Rank(priv) >= Rank(Needed(req))     \* ProxyView (rank 0) grants nothing here

SubjectMatch(e, a) ==
  \/ e.subj.null \/ e.subj.items = <<>>                              \* null or empty: any subject
  \/ \E i \in 1..Len(e.subj.items) : LET s == e.subj.items[i] IN
       \/ s.k = "node" /\ a.mode = "CASE" /\ s.a = a.node
       \/ s.k = "cat"  /\ a.mode = "CASE" /\ \E c \in a.cats : c.id = s.a /\ c.ver >= s.b
       \/ s.k = "grp"  /\ a.mode = "Group" /\ s.a = a.grp
TargetMatch(e, r) ==
  \/ e.tgt.null \/ e.tgt.items = <<>>                                \* null or empty: the whole node
  \/ \E i \in 1..Len(e.tgt.items) : LET t == e.tgt.items[i] IN
       /\ (t.ep = Wild \/ t.ep = r.ep)
       /\ (t.cl = Wild \/ t.cl = r.cl)
       /\ (t.dt = Wild \/ t.dt \in r.dts)

Allow(fabs, a, r) ==
  \/ a.mode = "PASE"                                                  \* passcode-authenticated commissioner
  \/ \E f \in fabs : /\ f.idx = a.fab                                 \* only the accessor's own, existing fabric
                     /\ \E i \in 1..Len(f.acl) : LET e == f.acl[i] IN
                          /\ e.auth = a.mode
                          /\ SubjectMatch(e, a) /\ TargetMatch(e, r) /\ PrivOk(e.priv, r)
\* group accessors reach only endpoints that are members of their group (in their fabric)
Reach(fabs, a, ep) ==
  a.mode # "Group" \/ \E f \in fabs : f.idx = a.fab /\ \E g \in DOMAIN f.groups : g = a.grp /\ ep \in f.groups[g]

(* ---- universe ---- *)
\* 65537, 65538, 131073: ordinary node ids whose low 32 bits read like the tags (1, v1), (1, v2), (2, v1) - a node id is
\* never a tag
Nodes == {11, 12, 65537, 65538, 131073}
Cats == {[id |-> 1, ver |-> 1], [id |-> 1, ver |-> 2], [id |-> 2, ver |-> 1]}
Subj(k, a, b) == [k |-> k, a |-> a, b |-> b]      \* node: a = node id; cat: a = id, b = version; grp: a = group id
SubjLists == {Null, List(<<>>)} \cup {List(<<Subj("node", n, 0)>>) : n \in Nodes}
             \cup {List(<<Subj("cat", c.id, c.ver)>>) : c \in Cats}
             \cup {List(<<Subj("node", 12, 0), Subj("cat", 2, 1)>>), List(<<Subj("grp", 7, 0)>>), List(<<Subj("grp", 8, 0)>>)}
Tgts == ([ep : {Wild, 0, 1}, cl : {Wild, 6}, dt : {Wild, 256, 65792}]) \ {[ep |-> Wild, cl |-> Wild, dt |-> Wild]}
TgtLists == {Null, List(<<>>)} \cup {List(<<t>>) : t \in Tgts} \cup {List(<<[ep |-> 0, cl |-> Wild, dt |-> Wild], [ep |-> Wild, cl |-> 8, dt |-> Wild]>>)}
Entries == [priv : Privs, auth : {"CASE", "Group"}, subj : SubjLists, tgt : TgtLists]
AclLists == {<<>>} \cup {<<e>> : e \in Entries}
GroupTabs == {<<>>, (7 :> {1}), (7 :> {0, 1}), (8 :> {1})}
Accessors == [mode : {"PASE", "CASE", "Group"}, fab : 0..3, node : Nodes,
              cats : {{}, {[id |-> 1, ver |-> 1]}, {[id |-> 1, ver |-> 2]}, {[id |-> 2, ver |-> 1], [id |-> 1, ver |-> 1]}},
              grp : {7, 8}]
Reqs == [op : {"read", "write"}, access : DOMAIN AccessDecl, ep : {0, 1}, cl : {6, 8}, dts : {{}, {256}, {257}}]

VARIABLES cfg, n
\* fabric 1 and/or 2 exist, each with zero, one or two entries
DrawAcl == LET a == RandomElement(AclLists) b == RandomElement(AclLists) IN
           IF RandomElement({TRUE, FALSE}) THEN a ELSE a \o b
DrawFabs == LET f1 == [idx |-> 1, acl |-> DrawAcl, groups |-> RandomElement(GroupTabs)]
                f2 == [idx |-> 2, acl |-> DrawAcl, groups |-> RandomElement(GroupTabs)]
            IN RandomElement({{f1}, {f2}, {f1, f2}, {f1, f2}, {}})
Draw == [fabs |-> DrawFabs, acc |-> RandomElement(Accessors), req |-> RandomElement(Reqs)]
Vec(c) == [fabs |-> c.fabs, acc |-> c.acc, req |-> c.req,
           allow |-> Allow(c.fabs, c.acc, c.req), reach |-> Reach(c.fabs, c.acc, c.req.ep)]
Init == cfg = Draw /\ n = 0
Next == cfg' = Draw /\ n' = n + 1
Spec == Init /\ [][Next]_<<cfg, n>>
Emit == PrintT(<<"REPLAY", ToJson(Vec(cfg))>>)

\* sanity of the reference itself (checked by TLC on every drawn configuration)
FabricSeparation == Allow(cfg.fabs, cfg.acc, cfg.req) /\ cfg.acc.mode # "PASE" => \E f \in cfg.fabs : f.idx = cfg.acc.fab
NoFabricNoAccess == cfg.acc.mode # "PASE" /\ cfg.acc.fab \in {0, 3} => ~Allow(cfg.fabs, cfg.acc, cfg.req)
=============================================================================
