SPECIFICATION Spec
CONSTANTS
  Full = FALSE
INVARIANTS RoundTrip Emit
CHECK_DEADLOCK FALSE
