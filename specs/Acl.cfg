SPECIFICATION Spec
CONSTANTS
  Seed = 0
INVARIANTS Emit FabricSeparation NoFabricNoAccess
CHECK_DEADLOCK FALSE
