\* schedule generator (simulation): window 3, up to 3 messages of 1..3 segments per end, well-behaved only, longer
SPECIFICATION Spec
CONSTANTS
  Wnd = 3
  Variant = "fixed"
  LastSlot = "pendingAck"
  MaxSdu = 3
  SegChoices = {1, 2, 3}
  MaxSeq = 20
  MaxOps = 70
  Hostile = FALSE
INVARIANTS Refines NoPanic EmitAtEnd
CONSTRAINT SeqBound
CHECK_DEADLOCK FALSE
