------------------------------ MODULE ImAccess ------------------------------
(***************************************************************************)
(* C06: what an Interaction Model request returns / acts on.  Reference    *)
(* written from the property text on top of the access-control decision of *)
(* Acl.tla (Allow).  The module is the reference (Expected...) and the     *)
(* generator of test vectors: every step draws a node composition, an      *)
(* access-control list, a requester and a request and prints them with the *)
(* reference result.                                                       *)
(*   node: endpoints 1, 2 (present or not); each present endpoint has      *)
(*     cluster 1 and optionally cluster 2; each cluster has attribute 0    *)
(*     (readable with View), attribute 1 (read View, write Manage or Admin,*)
(*     possibly timed-only), optionally attribute 2 (readable with View or *)
(*     Admin), optionally command 0 (Operate / Manage / Admin, possibly    *)
(*     timed-only or fabric-scoped)                                        *)
(*   request: read / write / invoke of 1-3 paths, each component a value,  *)
(*     an absent value, or a wildcard; timed or not                        *)
(***************************************************************************)
EXTENDS Acl

CL(c) == 100 + c                        \* cluster ids as the harness maps them
EpSet == {1, 2}
A1Decl == {"RWVM", "RWVA"}
A2Decl == {"RV", "RA"}
C0Decl == {"WO", "WM", "WA"}
Cluster(a1, a1timed, a2, c0, c0timed, c0fab) == [a1 |-> a1, a1timed |-> a1timed, a2 |-> a2, c0 |-> c0, c0timed |-> c0timed, c0fab |-> c0fab]
DrawCluster(k) == Cluster(RandomElement(A1Decl), RandomElement({TRUE, FALSE, FALSE}), RandomElement(A2Decl \cup {"absent"}),
                       RandomElement(C0Decl \cup {"absent"}), RandomElement({TRUE, FALSE, FALSE}), RandomElement({TRUE, FALSE, FALSE}))
\* endpoint -> sequence of clusters (cluster 1, and maybe cluster 2); <<>> = the endpoint does not exist
DrawEp(k) == RandomElement({<<>>, <<DrawCluster(k)>>, <<DrawCluster(k), DrawCluster(k + 10)>>})
\* (an explicit tuple: a function constructor would be kept lazy by TLC and re-draw its body at every application)
FixNode(nd) == IF nd[1] = <<>> /\ nd[2] = <<>> THEN <<<<DrawCluster(5)>>, <<>>>> ELSE nd
DrawNode(k) == FixNode(<<DrawEp(1 + k), DrawEp(2 + k)>>)

ITgts == {[ep |-> Wild, cl |-> Wild, dt |-> Wild], [ep |-> 1, cl |-> Wild, dt |-> Wild], [ep |-> 2, cl |-> Wild, dt |-> Wild],
          [ep |-> 1, cl |-> CL(2), dt |-> Wild], [ep |-> Wild, cl |-> CL(1), dt |-> Wild]}
IEntry(k) == [priv |-> RandomElement({"View", "Operate", "Manage", "Admin"}), auth |-> "CASE",
           subj |-> RandomElement({List(<<>>), List(<<Subj("node", 100, 0)>>), List(<<Subj("node", 999, 0)>>)}),
           tgt |-> LET t == RandomElement(ITgts) IN IF t.ep = Wild /\ t.cl = Wild THEN List(<<>>) ELSE List(<<t>>)]
DrawIAcl(k) == RandomElement({<<>>, <<IEntry(1)>>, <<IEntry(1), IEntry(2)>>, <<IEntry(3), IEntry(4)>>})
Requesters == {[mode |-> "CASE", fab |-> 1, node |-> 100, cats |-> {}, grp |-> 0], [mode |-> "CASE", fab |-> 1, node |-> 100, cats |-> {}, grp |-> 0],
               [mode |-> "PASE", fab |-> 0, node |-> 0, cats |-> {}, grp |-> 0]}
\* a path component: a value, 9 = a value that does not exist, Wild
\* only well-formed paths: a wildcard cluster goes with a wildcard attribute; writes and invokes name their cluster and
\* leaf (a write may address every endpoint); one command per invoke request
RawPath(kind, k) == [ep |-> RandomElement({Wild, 1, 2, 1, 2, 9}), cl |-> RandomElement({Wild, 1, 2, 1, 9}),
                     leaf |-> IF kind = "invoke" THEN RandomElement({0, 0, 0, 9}) ELSE RandomElement({Wild, 0, 1, 2, 1, 9})]
FixPath(kind, p) ==
  CASE kind = "read" -> IF p.cl = Wild THEN [p EXCEPT !.leaf = Wild] ELSE p
    [] kind = "write" -> [p EXCEPT !.cl = IF @ = Wild THEN 1 ELSE @, !.leaf = IF @ = Wild THEN 1 ELSE @]
    [] OTHER -> [p EXCEPT !.ep = IF @ = Wild THEN 1 ELSE @, !.cl = IF @ = Wild THEN 2 ELSE @]
DrawPath(kind, k) == FixPath(kind, RawPath(kind, k))
Pick(a, b, c) == RandomElement({<<a>>, <<a, b>>, <<a, b, c>>, <<a, a>>})
DrawPaths(kind, k) == IF kind = "invoke" THEN <<DrawPath(kind, 1)>> ELSE Pick(DrawPath(kind, 1), DrawPath(kind, 2), DrawPath(kind, 3))
\* timed: a Timed Request opens the interaction; claim: the TimedRequest flag the request message itself carries (normally
\* the same; a requester may claim a timed interaction it never opened, or hide one);
\* late: the write / invoke of a timed interaction reaches the node only after the announced time window has passed;
\* paths2 / claim2 / late2: a write may come in two WriteRequest chunks - the second one with its own flag, possibly
\* arriving after the window has passed (drawn only when the first chunk is in order)
MkReq3(k, j, t, flip, lateD, two, flip2, late2D) ==
  LET claim == IF k # "read" /\ flip THEN ~t ELSE t
      late  == t /\ k # "read" /\ claim = t /\ lateD
      ok1   == claim = t /\ ~late
      claim2 == IF flip2 THEN ~t ELSE t
  IN [kind |-> k, paths |-> DrawPaths(k, j), timed |-> t, claim |-> claim, late |-> late,
      paths2 |-> IF k = "write" /\ ok1 /\ two THEN DrawPaths(k, j + 7) ELSE <<>>,
      claim2 |-> claim2, late2 |-> t /\ claim2 = t /\ late2D]
MkReq2(k, j, t) == MkReq3(k, j, t, RandomElement({TRUE, FALSE, FALSE, FALSE, FALSE, FALSE}), RandomElement({TRUE, FALSE, FALSE, FALSE}),
                          RandomElement({TRUE, FALSE, FALSE}), RandomElement({TRUE, FALSE, FALSE}), RandomElement({TRUE, FALSE, FALSE}))
MkReq(k, j) == MkReq2(k, j, RandomElement({TRUE, FALSE, FALSE}))
DrawReq(j) == MkReq(RandomElement({"read", "read", "write", "invoke"}), j)
IDraw(k) == [node |-> DrawNode(k), acl |-> DrawIAcl(k), who |-> RandomElement(Requesters), req |-> DrawReq(k)]

(* ---- reference ---- *)
Exists(node, ep, cl) == ep \in EpSet /\ cl \in 1..Len(node[ep])
\* the elements of a cluster: <<leaf id, declared access, timed-only, fabric-scoped>> per kind
Attrs(c) == {<<0, "RV", FALSE, FALSE>>, <<1, c.a1, c.a1timed, FALSE>>} \cup (IF c.a2 = "absent" THEN {} ELSE {<<2, c.a2, FALSE, FALSE>>})
Cmds(c) == IF c.c0 = "absent" THEN {} ELSE {<<0, c.c0, c.c0timed, c.c0fab>>}
Leaves(c, kind) == IF kind = "invoke" THEN Cmds(c) ELSE Attrs(c)
Op(kind) == IF kind = "read" THEN "read" ELSE "write"
\* a request message (chunk) is refused as a whole when its flag does not match how the interaction was opened, or when the
\* timed window has expired
Refused1(r) == r.kind # "read" /\ (r.claim # r.timed \/ r.late)
Refused2(r) == r.claim2 # r.timed \/ r.late2
Permitted(cfg2, ep, cl, l, kind) ==
  /\ AccessDecl[l[2]][Op(kind)] # None                          \* the element supports the operation at all
  /\ Allow({[idx |-> 1, acl |-> cfg2.acl, groups |-> <<>>]}, cfg2.who, [op |-> Op(kind), access |-> l[2], ep |-> ep, cl |-> CL(cl), dts |-> {}])
  /\ (kind # "read" /\ l[3]) => cfg2.req.timed                 \* timed-only elements act only inside a timed interaction
  /\ l[4] => cfg2.who.fab # 0                                   \* fabric-scoped commands need a requester with a fabric
Match(p, ep, cl, id) == (p.ep = Wild \/ p.ep = ep) /\ (p.cl = Wild \/ p.cl = cl) /\ (p.leaf = Wild \/ p.leaf = id)
IsWild(p) == p.ep = Wild \/ p.cl = Wild \/ p.leaf = Wild
\* what one path selects: the permitted existing elements that match it
SelOf(cfg2, p) ==
  UNION { IF Exists(cfg2.node, ep, cl)
          THEN {<<ep, cl, x[1]>> : x \in {y \in Leaves(cfg2.node[ep][cl], cfg2.req.kind) : Match(p, ep, cl, y[1]) /\ Permitted(cfg2, ep, cl, y, cfg2.req.kind)}}
          ELSE {} : ep \in EpSet, cl \in {1, 2} }
\* per path: the set it acts on / returns, and whether it must be answered with a status instead
\* (nothing is acted on, and no per-path answer is given, in a refused message)
PathResultR(cfg2, p, refused) == [sel |-> IF refused THEN {} ELSE SelOf(cfg2, p), status |-> ~refused /\ ~IsWild(p) /\ SelOf(cfg2, p) = {}]
PathResult(cfg2, p) == PathResultR(cfg2, p, Refused1(cfg2.req))

VARIABLES icfg
IInit == icfg = IDraw(0) /\ cfg = 0 /\ n = 0
INext == icfg' = IDraw(n + 1) /\ n' = n + 1 /\ UNCHANGED cfg
ISpec == IInit /\ [][INext]_<<icfg, cfg, n>>
ResultsOf(c) == LET R(k) == LET r == PathResult(c, c.req.paths[k]) IN [sel |-> r.sel, status |-> r.status] IN
  CASE Len(c.req.paths) = 1 -> <<R(1)>> [] Len(c.req.paths) = 2 -> <<R(1), R(2)>> [] OTHER -> <<R(1), R(2), R(3)>>
Results2Of(c) == LET R(k) == PathResultR(c, c.req.paths2[k], Refused2(c.req)) IN
  CASE Len(c.req.paths2) = 0 -> <<>> [] Len(c.req.paths2) = 1 -> <<R(1)>> [] Len(c.req.paths2) = 2 -> <<R(1), R(2)>> [] OTHER -> <<R(1), R(2), R(3)>>
IVec(c) == [node |-> c.node, acl |-> c.acl, who |-> c.who, req |-> c.req, results |-> ResultsOf(c), results2 |-> Results2Of(c),
            refused |-> Refused1(c.req), refused2 |-> Refused2(c.req)]
IEmit == PrintT(<<"REPLAY", ToJson(IVec(icfg))>>)
\* sanity of the reference: nothing is selected on an endpoint / cluster that does not exist; PASE never runs a fabric-scoped command
ISane == /\ \A k \in 1..Len(icfg.req.paths) : \A t \in PathResult(icfg, icfg.req.paths[k]).sel : Exists(icfg.node, t[1], t[2])
         \* a timed-only element is acted on only in a message of a timed interaction within its window
         /\ \A k \in 1..Len(icfg.req.paths) : \A t \in PathResult(icfg, icfg.req.paths[k]).sel :
              (icfg.req.kind # "read" /\ \E l \in Leaves(icfg.node[t[1]][t[2]], icfg.req.kind) : l[1] = t[3] /\ l[3]) => (icfg.req.timed /\ ~icfg.req.late)
         /\ \A k \in 1..Len(icfg.req.paths2) : \A t \in PathResultR(icfg, icfg.req.paths2[k], Refused2(icfg.req)).sel :
              (\E l \in Leaves(icfg.node[t[1]][t[2]], "write") : l[1] = t[3] /\ l[3]) => (icfg.req.timed /\ ~icfg.req.late2 /\ icfg.req.claim2)
=============================================================================
