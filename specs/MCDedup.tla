------------------------------ MODULE MCDedup ------------------------------
(***************************************************************************)
(* Exhaustive check that Layer I (Dedup) refines Layer P (DedupProp) for a *)
(* small window and ring, for the three kinds of peer; also the behaviour  *)
(* generator for the replay into the real RxCtrState / GroupCtrStore.      *)
(***************************************************************************)
EXTENDS Dedup, TLC, Json
CONSTANTS Senders, MaxSteps, Kinds,
          Directed     \* TRUE: pick counters near the window edges / ring extremes (for B = 65536)

P == INSTANCE DedupProp

VARIABLES kind,        \* which scenario this behaviour is: "sec" | "plain" | "grp"
          win,         \* I: the unicast window
          tab,         \* I: the group table
          pst,         \* P: peer id -> peer state  (peer 0 = the unicast peer)
          ok,          \* did P allow every verdict I produced so far
          last,        \* the last step as a record (for the counterexample / replay)
          h            \* history of steps (hidden by VIEW in exhaustive runs)
vars == <<kind, win, tab, pst, ok, last, h>>
view == <<kind, win, tab, pst, ok>>

Peers == {0} \cup Senders
Init == /\ kind \in Kinds
        /\ win = SessionInit /\ tab = <<>>
        /\ pst = [p \in Peers |-> P!Fresh]
        /\ ok = TRUE /\ last = [c |-> Zero] /\ h = <<>>

Uni(c) ==
  /\ kind \in {"sec", "plain"}
  /\ LET r == PostRecv(win, c, kind = "sec", FALSE)
         step == [kind |-> kind, peer |-> 0, c |-> c, v |-> r.v, evicted |-> -1] IN
     /\ win' = r.w
     /\ ok' = (ok /\ P!Allowed(kind, c, r.v, pst[0]))
     /\ pst' = [pst EXCEPT ![0] = P!Update(kind, c, r.v, @)]
     /\ last' = step /\ h' = Append(h, step)
  /\ UNCHANGED <<kind, tab>>

Grp(id, c) ==
  /\ kind = "grp"
  /\ LET r == GroupPostRecv(tab, id, c)
         \* P: the evicted sender (if any) is forgotten first - P does not prescribe which one
         p1 == IF r.evicted = -1 THEN pst ELSE [pst EXCEPT ![r.evicted] = P!Fresh]
         step == [kind |-> kind, peer |-> id, c |-> c, v |-> r.v, evicted |-> r.evicted] IN
     /\ tab' = r.tab
     /\ ok' = (ok /\ P!Allowed("grp", c, r.v, p1[id]))
     /\ pst' = [p1 EXCEPT ![id] = P!Update("grp", c, r.v, @)]
     /\ last' = step /\ h' = Append(h, step)
  /\ UNCHANGED <<kind, win>>

\* Candidate counters.  Exhaustive models (small B): all of them.  Real scale: values around the
\* current maximum (both window edges +- 2), window-sized and large jumps, and the ring extremes.
Extremes == { <<0, 0>>, <<0, 1>>, <<0, W>>, <<0, W + 1>>, <<B \div 2 - 1, B - 1>>, <<B \div 2, 0>>,
              <<B \div 2, 1>>, <<B - 1, B - 2>>, <<B - 1, B - 1>> }
Around(m) == { AddSmall(m, n) : n \in 0..(W + 2) } \cup { SubMod(m, <<0, n>>) : n \in 1..(W + 2) }
              \cup { AddSmall(m, 2 * W), AddSmall(m, 3 * W + 1), SubMod(m, <<0, 3 * W>>),
                     SubMod(AddSmall(m, 1), <<B \div 2, 0>>), SubMod(m, <<B \div 2, 0>>),
                     SubMod(m, <<B \div 2, 1>>), SubMod(m, <<1, 0>>), SubMod(m, <<B - 1, 0>>) }
Cand(m) == IF Directed THEN Around(m) \cup Extremes ELSE Ctr
GrpMax(id) == IF GrpIdx(tab, id) = {} THEN Zero ELSE tab[CHOOSE j \in GrpIdx(tab, id) : TRUE].w.max

\* Simulation-only next-state relation: one random successor per state (RandomElement), so that
\* `tlc -simulate` costs one evaluation per step instead of enumerating all candidates.
GenNext == /\ Len(h) < MaxSteps
           /\ IF kind = "grp"
              THEN LET id == RandomElement(Senders) IN Grp(id, RandomElement(Cand(GrpMax(id))))
              ELSE Uni(RandomElement(Cand(win.max)))
GenSpec == Init /\ [][GenNext]_vars

Next == /\ Len(h) < MaxSteps
        /\ \/ \E c \in Cand(win.max) : Uni(c)
           \/ \E id \in Senders : \E c \in Cand(GrpMax(id)) : Grp(id, c)

Spec == Init /\ [][Next]_vars

Refines == ok        \* the invariant: every verdict of I is allowed by P

\* I-level sanity: the window never marks more than it should (bits within 1..W)
TypeOK == win.bits \subseteq 1..W /\ Len(tab) <= K

\* behaviour generation: print the history of every maximal behaviour (simulation mode)
EmitAtEnd == Len(h) = MaxSteps => PrintT(<<"REPLAY", ToJson(h)>>)
=============================================================================
