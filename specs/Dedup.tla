------------------------------- MODULE Dedup -------------------------------
(***************************************************************************)
(* Layer I for C04: the receive window of rs-matter, transcribed branch by *)
(* branch from transport/dedup.rs (RxCtrState::post_recv, GroupCtrStore::  *)
(* post_recv) and from the way transport/session.rs initialises it.        *)
(*                                                                         *)
(* A window is [synced, max, bits]: bits \subseteq 1..W, o \in bits <=>    *)
(* counter max - o is marked as received.                                  *)
(*                                                                         *)
(* Variant = "fixed": the code after the repair of F-C04a/b (sessions start*)
(*   unsynchronised; a forward jump >= W clears the window).               *)
(* Variant = "orig":  the pinned code (sessions start as new(0) with a full*)
(*   bitmap; a forward jump >= W marks the whole window as received).      *)
(***************************************************************************)
EXTENDS CtrPair, FiniteSets, Sequences
CONSTANTS W, Variant, K     \* K = capacity of the group sender table

Zero == <<0, 0>>
Full == 1..W
\* Session::new -> RxCtrState::new_unsynced() (fixed) / RxCtrState::new(0) (orig)
SessionInit == IF Variant = "fixed" THEN [synced |-> FALSE, max |-> Zero, bits |-> {}]
                                    ELSE [synced |-> TRUE,  max |-> Zero, bits |-> Full]
\* RxCtrState::new(c): group trust-first entry
NewAt(c) == [synced |-> TRUE, max |-> c, bits |-> Full]

Shift(bits, d) == {o + d : o \in {x \in bits : x + d <= W}}

\* RxCtrState::post_recv(msg_ctr, is_encrypted, with_rollover) -> [v, w]
PostRecv(w, c, enc, roll) ==
  IF ~w.synced THEN [v |-> TRUE, w |-> [synced |-> TRUE, max |-> c, bits |-> {}]]
  ELSE IF c = w.max THEN [v |-> FALSE, w |-> w]
  ELSE
    LET fwd == IF roll THEN FwdMod(c, w.max) ELSE Lt(w.max, c)
        d   == IF fwd THEN SubMod(c, w.max) ELSE SubMod(w.max, c)
    IN
    IF ~fwd /\ IsSmall(d, W) THEN
         IF Small(d) \in w.bits THEN [v |-> FALSE, w |-> w]
         ELSE [v |-> TRUE, w |-> [w EXCEPT !.bits = @ \cup {Small(d)}]]
    ELSE IF fwd THEN
         IF IsSmall(d, W - 1)
         THEN [v |-> TRUE, w |-> [w EXCEPT !.max = c, !.bits = Shift(@, Small(d)) \cup {Small(d)}]]
         ELSE [v |-> TRUE, w |-> [w EXCEPT !.max = c,
                 !.bits = IF Variant = "orig" THEN Full
                          ELSE IF d = <<0, W>> THEN {W} ELSE {}]]
    ELSE IF ~enc THEN [v |-> TRUE, w |-> [w EXCEPT !.max = c, !.bits = Full]]
    ELSE [v |-> FALSE, w |-> w]

(* GroupCtrStore: the code keeps entries [fab, src, window, last_used] and a clock, and evicts   *)
(* the entry with the smallest last_used.  Here the table is a sequence ordered by recency  *)
(* (least recently used first), which is the same order as long as the 32-bit clock does not *)
(* wrap; the property does not depend on which entry is evicted.                            *)
GrpIdx(tab, id) == {i \in 1..Len(tab) : tab[i].id = id}
Without(tab, i) == [j \in 1..(Len(tab) - 1) |-> IF j < i THEN tab[j] ELSE tab[j + 1]]
\* -> [v, tab, evicted]   (evicted = id of the evicted sender or -1)
GroupPostRecv(tab, id, c) ==
  IF GrpIdx(tab, id) # {} THEN
       LET i == CHOOSE i \in GrpIdx(tab, id) : TRUE
           r == PostRecv(tab[i].w, c, TRUE, TRUE)
       IN [v |-> r.v, tab |-> Append(Without(tab, i), [id |-> id, w |-> r.w]), evicted |-> -1]
  ELSE LET e == [id |-> id, w |-> NewAt(c)] IN
       IF Len(tab) < K THEN [v |-> TRUE, tab |-> Append(tab, e), evicted |-> -1]
       ELSE [v |-> TRUE, tab |-> Append(Tail(tab), e), evicted |-> tab[1].id]
=============================================================================
