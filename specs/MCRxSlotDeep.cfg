\* 3 exchange ids, 2 handlers, 5 packets of any (id, initiator, reliable), every handler policy; safety and liveness
SPECIFICATION Spec
CONSTANTS
  ExIds = {1, 2, 3}
  Handlers = {1, 2}
  MaxPkts = 5
  Policies = {"reply", "drop", "hold"}
VIEW view
INVARIANTS RightExchangeOnly OpensOnlyIfAllowed
PROPERTIES SlotEventuallyFree EventuallyClean
CHECK_DEADLOCK FALSE
