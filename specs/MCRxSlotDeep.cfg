\* 2 sessions x 2 exchange ids, 2 handlers, 4 packets, every handler policy; safety and liveness
SPECIFICATION Spec
CONSTANTS
  Sess = {1, 2}
  ExIds = {1, 2}
  Handlers = {1, 2}
  MaxPkts = 4
  MaxOwn = 0
  OwnKeys <- Own11
  RoleBlind = FALSE
  Policies = {"reply", "drop", "hold", "relDrop"}
VIEW view
INVARIANTS RightExchangeOnly OpensOnlyIfAllowed
PROPERTIES SlotEventuallyFree EventuallyClean
CHECK_DEADLOCK FALSE
