----------------------------- MODULE RxSlotTrace -----------------------------
(* Trace validation for C10 against Layer P (RxSlotProp).  {"ev":"Reset"} starts a new run. *)
EXTENDS RxSlotProp, TLC, Json, IOUtils
Rec == ndJsonDeserialize(IOEnv.TRACE)
VARIABLES i, st
vars == <<i, st>>
Init == i = 1 /\ st = Fresh
IsEvent(x) == i <= Len(Rec) /\ Rec[i].ev = x /\ i' = i + 1
R == Rec[i]
Reset   == IsEvent("Reset") /\ st' = Fresh
Inj     == IsEvent("Inj") /\ InjOk(R.kind, R.s, R.e, R.init, R.rel, R.t, st) /\ st' = AfterInj(R.kind, R.s, R.e, R.init, R.rel, R.t, st)
AppRx   == IsEvent("AppRx") /\ AppRxOk(R.x, R.role, R.opening, R.waited, R.minit, R.s, R.ex, R.ts, R.tag, R.t, st) /\ UNCHANGED st
DevInit == IsEvent("DevInit") /\ DevInitOk(R.s, R.e, st) /\ st' = AfterDevInit(R.s, R.e, st)
Tx      == IsEvent("Tx") /\ TxOk(R.kind, R.s, R.e, R.secured, {R.gone[j] : j \in 1..Len(R.gone)}, R.t, st) /\ st' = AfterTx(R.kind, R.s, R.e, R.secured, {R.gone[j] : j \in 1..Len(R.gone)}, R.t, st)
PSent   == IsEvent("ProbeSent") /\ ProbeSentOk(R.t, st) /\ st' = AfterProbeSent(R.t, st)
PAns    == IsEvent("ProbeAnswered") /\ ProbeAnsweredOk(R.t, st) /\ st' = AfterProbeAnswered(R.t, st)
End     == IsEvent("End") /\ EndOk(R.left, {R.gone[j] : j \in 1..Len(R.gone)}, st) /\ UNCHANGED st
Next == Reset \/ Inj \/ AppRx \/ DevInit \/ Tx \/ PSent \/ PAns \/ End
Spec == Init /\ [][Next]_vars
TraceAccepted ==
  LET d == TLCGet("stats").diameter IN
  IF d - 1 = Len(Rec) THEN TRUE ELSE Print(<<"REJECTED", d, ToJson(Rec[d])>>, FALSE)
=============================================================================
