SPECIFICATION Spec
CONSTANTS
  Which = "C07"
POSTCONDITION TraceAccepted
CHECK_DEADLOCK FALSE
