\* 2 subscribers, 3 paths in 2 clusters, change table of 2, min 1 s / max 4 s, up to 3 changes and 1 failed report
SPECIFICATION Spec
CONSTANTS
  Subs = {1, 2}
  Paths = {1, 2, 3}
  ClusterOf <- ClusterOfDef
  CAP = 2
  MinInt = 1
  MaxInt = 4
  Variant = "fixed"
  MaxChanges = 3
  MaxT = 3
  MaxOps = 14
  MaxEvents = 1
  MaxFails = 1
VIEW view
INVARIANTS Refines NoLostUpdate
CHECK_DEADLOCK FALSE
