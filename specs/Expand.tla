------------------------------- MODULE Expand -------------------------------
(***************************************************************************)
(* C06, "with the node composition changing between chunks of a long       *)
(* answer": the path expander of the Interaction Model (im/expand.rs,      *)
(* PathExpander::next / next_for_path / resume_endpoint_index) transcribed *)
(* as a resumable scan, with the application free to replace the node      *)
(* (add / remove endpoints) between any two pulled items.                  *)
(*                                                                         *)
(* Layer I: the cursor (anchor endpoint id, cluster index, leaf index) and *)
(* the scan over the CURRENT node at every pull.  The node keeps the       *)
(* invariants the code documents: endpoints sorted by id, the shape of an  *)
(* endpoint (its clusters and their attributes) fixed.                     *)
(* Layer P (from the property text): an item is reported only if it exists *)
(* on the node at that moment and matches the path, never twice for the    *)
(* same path; a concrete path is answered exactly once, with a status only *)
(* if it selects nothing at that moment; when the answer is complete every *)
(* matching element of an endpoint that was there all the time has been    *)
(* reported.                                                               *)
(* Variant "staleCluster": the recovery after the anchored endpoint        *)
(* vanished keeps the cluster cursor (must violate Complete).              *)
(***************************************************************************)
EXTENDS Integers, Sequences, FiniteSets, TLC, Json, SequencesExt
CONSTANTS EPs,          \* endpoint ids of the universe
          MaxChanges,   \* node replacements per answer
          Requests,     \* set of requests: sequences of paths [ep, cl, leaf], -1 = wildcard
          Variant

\* the fixed shape of every endpoint: clusters in declaration order, attributes in declaration order
Bridged == << [id |-> 29, attrs |-> <<1>>], [id |-> 6, attrs |-> <<1, 2>>], [id |-> 8, attrs |-> <<1>>] >>
Shape(e) == CASE e = 0 -> << [id |-> 40, attrs |-> <<1>>] >>
              [] e = 3 -> << [id |-> 29, attrs |-> <<1>>], [id |-> 6, attrs |-> <<1, 2>>] >>
              [] OTHER -> Bridged

VARIABLES node,        \* the current composition: a set of endpoint ids
          todo,        \* paths of the request not yet started
          k,           \* index of the path being expanded (0 = none yet)
          item,        \* the path being expanded, or None
          epId, ci, li,\* the cursor: anchor endpoint id (-1 = none), cluster index, leaf index (0-based, as the code)
          done,
          changes,
          reported,    \* Layer P: set of <<k, e, c, a>> reported, set of k answered with a status
          statused,
          stable,      \* Layer P: endpoints present in every composition since the request started
          ok,          \* Layer P: every output so far was allowed
          h            \* history for the replay: the operations and their outputs
vars == <<node, todo, k, item, epId, ci, li, done, changes, reported, statused, stable, ok, h>>
view == <<node, todo, k, item, epId, ci, li, done, changes, reported, statused, stable, ok>>

None == [ep |-> -2, cl |-> -2, leaf |-> -2]
IsWild(p) == p.ep = -1 \/ p.cl = -1 \/ p.leaf = -1
M(x, v) == x = -1 \/ x = v
Eps(nd) == SetToSortSeq(nd, <)

(* ---- Layer I: next_for_path over the current node ---- *)
\* result records: [kind |-> "item", e, c, a, epId, ci, li] | [kind |-> "none" | "status", code, epId, ci, li]
RECURSIVE ScanLeaves(_, _, _, _, _), ScanClusters(_, _, _, _, _), ScanEps(_, _, _, _, _)
ScanLeaves(p, e, c, cidx, lidx) ==
  LET attrs == Shape(e)[cidx + 1].attrs IN
  IF lidx >= Len(attrs) THEN [kind |-> "exhausted"]
  ELSE IF M(p.leaf, attrs[lidx + 1]) THEN [kind |-> "item", e |-> e, c |-> c, a |-> attrs[lidx + 1], epId |-> e, ci |-> cidx, li |-> lidx + 1]
  ELSE ScanLeaves(p, e, c, cidx, lidx + 1)
\* -> item | status | [kind "exhausted"] (then the caller resets the cluster cursor)
ScanClusters(p, e, cidx, lidx, dummy) ==
  IF cidx >= Len(Shape(e)) THEN [kind |-> "exhausted"]
  ELSE LET c == Shape(e)[cidx + 1] IN
       IF M(p.cl, c.id)
       THEN LET r == ScanLeaves(p, e, c.id, cidx, lidx) IN
            IF r.kind = "item" THEN r
            ELSE IF ~IsWild(p) THEN [kind |-> "status", code |-> "UnsupportedAttribute", epId |-> e, ci |-> cidx, li |-> Len(c.attrs)]
            ELSE ScanClusters(p, e, cidx + 1, 0, dummy)
       ELSE ScanClusters(p, e, cidx + 1, lidx, dummy)          \* a cluster that does not match leaves the leaf cursor alone
ScanEps(p, eps, idx, cidx, lidx) ==
  IF idx > Len(eps) THEN (IF IsWild(p) THEN [kind |-> "none"] ELSE [kind |-> "status", code |-> "UnsupportedEndpoint"])
  ELSE LET e == eps[idx] IN
       IF M(p.ep, e)
       THEN LET r == ScanClusters(p, e, cidx, lidx, 0) IN
            IF r.kind # "exhausted" THEN r
            ELSE IF ~IsWild(p) THEN [kind |-> "status", code |-> "UnsupportedCluster"]
            ELSE ScanEps(p, eps, idx + 1, 0, 0)
       ELSE ScanEps(p, eps, idx + 1, cidx, lidx)
(* ---- Layer P ---- *)
Exists(nd, e, c, a) == e \in nd /\ \E x \in 1..Len(Shape(e)) : Shape(e)[x].id = c /\ \E y \in 1..Len(Shape(e)[x].attrs) : Shape(e)[x].attrs[y] = a
Match(p, e, c, a) == M(p.ep, e) /\ M(p.cl, c) /\ M(p.leaf, a)
Triples(nd) == UNION {UNION {{<<e, Shape(e)[x].id, Shape(e)[x].attrs[y]>> : y \in 1..Len(Shape(e)[x].attrs)} : x \in 1..Len(Shape(e))} : e \in nd}
ItemOk(kk, p, nd, e, c, a) == Exists(nd, e, c, a) /\ Match(p, e, c, a) /\ <<kk, e, c, a>> \notin reported
StatusOk(kk, p, nd) == ~IsWild(p) /\ ~Exists(nd, p.ep, p.cl, p.leaf) /\ kk \notin statused /\ ~\E t \in reported : t[1] = kk
\* at the end: everything that was there all the time and matches has been reported; every concrete path was answered
Complete(req) == \A kk \in 1..Len(req) :
                    /\ \A t \in Triples(stable) : Match(req[kk], t[1], t[2], t[3]) => <<kk, t[1], t[2], t[3]>> \in reported
                    /\ ~IsWild(req[kk]) => (kk \in statused \/ \E t \in reported : t[1] = kk)

\* the requests of the bounded model: all-wildcard, cluster / attribute given, endpoint given, concrete (present, absent
\* cluster, absent attribute, endpoint that comes and goes), and two paths in one request
P(e, c, a) == [ep |-> e, cl |-> c, leaf |-> a]
ReqSet == { <<P(-1, -1, -1)>>, <<P(-1, 6, -1)>>, <<P(-1, 6, 2)>>, <<P(2, -1, -1)>>, <<P(2, 6, 2)>>, <<P(3, 8, 1)>>, <<P(1, 6, 3)>>,
            <<P(-1, 29, -1), P(-1, 8, -1)>>, <<P(1, 6, 1), P(-1, -1, -1)>>, <<P(-1, 8, -1), P(2, 29, 1)>> }
VARIABLE req
allvars == <<vars, req>>
Init == /\ req \in Requests /\ node \in (SUBSET EPs \ {{}})
        /\ todo = req /\ k = 0 /\ item = None /\ epId = -1 /\ ci = 0 /\ li = 0 /\ done = FALSE /\ changes = 0
        /\ reported = {} /\ statused = {} /\ stable = node /\ ok = TRUE
        /\ h = <<[op |-> "Start", node |-> Eps(node), req |-> req]>>

\* the application replaces the node between two pulls
Change == /\ ~done /\ changes < MaxChanges
          /\ \E nd \in (SUBSET EPs \ {{}}) : nd # node /\ node' = nd /\ stable' = stable \cap nd
                                              /\ h' = Append(h, [op |-> "Change", node |-> Eps(nd)])
          /\ changes' = changes + 1
          /\ UNCHANGED <<todo, k, item, epId, ci, li, done, reported, statused, ok, req>>

\* PathExpander::next: one pull (internally it may move on to the next path when the current one is exhausted)
RECURSIVE Step(_, _, _, _, _, _)
\* -> [out, todo, k, item, epId, ci, li]
Step(td, kk, it, ep, cidx, lidx) ==
  IF it = None
  THEN IF td = <<>> THEN [out |-> [kind |-> "done"], todo |-> td, k |-> kk, item |-> None, epId |-> ep, ci |-> cidx, li |-> lidx]
       ELSE Step(Tail(td), kk + 1, Head(td), -1, 0, 0)                 \* each new item starts from scratch
  ELSE LET rz == IF ep = -1 THEN [idx |-> 1, ci |-> cidx, li |-> lidx]
                 ELSE IF ep \in node THEN [idx |-> 1 + Cardinality({e \in node : e < ep}), ci |-> cidx, li |-> lidx]
                 ELSE [idx |-> 1 + Cardinality({e \in node : e < ep}), ci |-> IF Variant = "staleCluster" THEN cidx ELSE 0, li |-> 0]
           r == ScanEps(it, Eps(node), rz.idx, rz.ci, rz.li)
       IN CASE r.kind = "item" -> [out |-> [kind |-> "item", k |-> kk, e |-> r.e, c |-> r.c, a |-> r.a], todo |-> td, k |-> kk,
                                   item |-> IF IsWild(it) THEN it ELSE None, epId |-> r.epId, ci |-> r.ci, li |-> r.li]
            [] r.kind = "status" -> [out |-> [kind |-> "status", k |-> kk, code |-> r.code], todo |-> td, k |-> kk, item |-> None, epId |-> ep, ci |-> cidx, li |-> lidx]
            [] OTHER -> Step(td, kk, None, ep, cidx, lidx)               \* this path is exhausted: on to the next one
Pull == /\ ~done
        /\ LET s == Step(todo, k, item, epId, ci, li) IN
           /\ todo' = s.todo /\ k' = s.k /\ item' = s.item /\ epId' = s.epId /\ ci' = s.ci /\ li' = s.li
           /\ done' = (s.out.kind = "done")
           /\ h' = Append(h, [op |-> "Pull", out |-> s.out])
           /\ CASE s.out.kind = "item" -> /\ ok' = (ok /\ ItemOk(s.out.k, req[s.out.k], node, s.out.e, s.out.c, s.out.a))
                                          /\ reported' = reported \cup {<<s.out.k, s.out.e, s.out.c, s.out.a>>} /\ UNCHANGED statused
                [] s.out.kind = "status" -> /\ ok' = (ok /\ StatusOk(s.out.k, req[s.out.k], node))
                                            /\ statused' = statused \cup {s.out.k} /\ UNCHANGED reported
                [] OTHER -> ok' = ok /\ UNCHANGED <<reported, statused>>
        /\ UNCHANGED <<node, changes, stable, req>>

Next == Change \/ Pull
Spec == Init /\ [][Next]_allvars

Refines == ok
CompleteAtEnd == done => Complete(req)
Emit == done => PrintT(<<"REPLAY", ToJson(h)>>)
=============================================================================
