-------------------------------- MODULE Codec --------------------------------
(***************************************************************************)
(* C17: reference encoders / decoders of the flag-driven and digit-packed  *)
(* formats, written from the Matter specification (message header 4.4.1,   *)
(* protocol header 4.4.3, status report appendix D, BDX 11.22, manual      *)
(* pairing code 5.1.4, QR code payload 5.1.3 with base-38) - not from the  *)
(* code.  Wide integers are byte sequences (little-endian) so that 64-bit  *)
(* values are representable; everything else stays below 2^31.            *)
(* TLC draws field values (palettes of extremes and ordinary values),      *)
(* computes the reference encoding and the reference verdict of every      *)
(* mutation, checks sanity invariants (decode(encode(x)) = x on the        *)
(* reference itself, Verhoeff catches every single-digit error and every   *)
(* adjacent transposition) and emits one vector per state; the harness     *)
(* runs the real encoder and decoder on it.                                *)
(***************************************************************************)
EXTENDS Integers, Sequences, FiniteSets, TLC, Json
CONSTANT Seed

Pow2(k) == 2 ^ k
Err == [err |-> TRUE]                  \* every reference decoder returns Err or a record with err = FALSE
LE(n, k) == [j \in 1..k |-> (n \div (256 ^ (j - 1))) % 256]
FromLE(bs) == LET S[j \in 0..Len(bs)] == IF j = 0 THEN 0 ELSE S[j - 1] + bs[j] * (256 ^ (j - 1)) IN S[Len(bs)]
Take(s, k) == SubSeq(s, 1, k)
Drop(s, k) == SubSeq(s, k + 1, Len(s))

B8 == {<<0, 0, 0, 0, 0, 0, 0, 0>>, <<255, 255, 255, 255, 255, 255, 255, 255>>, <<1, 2, 3, 4, 5, 6, 7, 8>>, <<0, 0, 0, 0, 0, 0, 0, 128>>,
       <<239, 205, 171, 137, 103, 69, 35, 1>>, <<255, 255, 255, 255, 0, 0, 0, 0>>, <<0, 0, 0, 0, 1, 0, 0, 0>>}
B4 == {<<0, 0, 0, 0>>, <<255, 255, 255, 255>>, <<1, 0, 0, 0>>, <<0, 0, 0, 128>>, <<120, 86, 52, 18>>, <<255, 255, 255, 127>>}
U16 == {0, 1, 255, 256, 4660, 32767, 32768, 65535}
U8 == {0, 1, 2, 7, 32, 64, 127, 128, 255}
Blobs == {<<>>, <<0>>, <<255, 0, 255>>, <<1, 2, 3, 4, 5, 6, 7, 8, 9, 10, 11, 12, 13, 14, 15, 16, 17>>}
Bool == {TRUE, FALSE}

(* ---------------------------------------------------------- message header *)
\* h = [src: <<>> | 8 bytes, dk: 0 none / 1 node / 2 group, dst: bytes, sess, sec (bits), ctr: 4 bytes]
SecBits == {0, 1, 32, 64, 128, 33, 65, 193, 225}           \* combinations of group-session 0x01, extensions 0x20, control 0x40, privacy 0x80
PlainBytes(h) == <<h.dk + (IF h.src # <<>> THEN 4 ELSE 0)>> \o LE(h.sess, 2) \o <<h.sec>> \o h.ctr \o h.src \o h.dst
PlainParse(b) ==
  IF Len(b) < 8 THEN Err
  ELSE LET fl == b[1]  sec == b[4]  dk == fl % 4  sp == (fl \div 4) % 2 = 1
           need == 8 + (IF sp THEN 8 ELSE 0) + (IF dk = 1 THEN 8 ELSE IF dk = 2 THEN 2 ELSE 0) IN
       IF fl >= 8 THEN Err                                 \* version # 0 or reserved bits
       ELSE IF (sec \div 2) % 16 # 0 THEN Err             \* session types 2, 3 and reserved bits
       ELSE IF Len(b) < need THEN Err
       ELSE [err |-> FALSE, src |-> IF sp THEN SubSeq(b, 9, 16) ELSE <<>>, dk |-> dk,
             dst |-> LET o == IF sp THEN 16 ELSE 8 IN IF dk = 1 THEN SubSeq(b, o + 1, o + 8) ELSE IF dk = 2 THEN SubSeq(b, o + 1, o + 2) ELSE <<>>,
             sess |-> FromLE(SubSeq(b, 2, 3)), sec |-> sec, ctr |-> SubSeq(b, 5, 8), rest |-> Len(b) - need]
\* (drawn values are passed as operator arguments: a LET body would draw again at every use)
MkPlain(dk, d8, d2) == [src |-> RandomElement(B8 \cup {<<>>, <<>>, <<>>}), dk |-> dk,
   dst |-> IF dk = 1 THEN d8 ELSE IF dk = 2 THEN LE(d2, 2) ELSE <<>>,
   sess |-> RandomElement(U16), sec |-> RandomElement(SecBits), ctr |-> RandomElement(B4)]
DrawPlain(k) == MkPlain(RandomElement({0, 0, 1, 2}), RandomElement(B8), RandomElement(U16))

(* --------------------------------------------------------- protocol header *)
\* p = [init, ack: <<>> | 4 bytes, rel, sx, vendor: -1 | u16, op, exch, proto]
ProtoBytes(p) == <<(IF p.init THEN 1 ELSE 0) + (IF p.ack # <<>> THEN 2 ELSE 0) + (IF p.rel THEN 4 ELSE 0) + (IF p.sx THEN 8 ELSE 0) + (IF p.vendor >= 0 THEN 16 ELSE 0)>>
                 \o <<p.op>> \o LE(p.exch, 2) \o LE(p.proto, 2) \o (IF p.vendor >= 0 THEN LE(p.vendor, 2) ELSE <<>>) \o p.ack
ProtoParse(b) ==
  IF Len(b) < 6 THEN Err
  ELSE LET fl == b[1]  v == (fl \div 16) % 2 = 1  a == (fl \div 2) % 2 = 1
           need == 6 + (IF v THEN 2 ELSE 0) + (IF a THEN 4 ELSE 0) IN
       IF fl >= 32 THEN Err ELSE IF Len(b) < need THEN Err
       ELSE [err |-> FALSE, init |-> fl % 2 = 1, rel |-> (fl \div 4) % 2 = 1, sx |-> (fl \div 8) % 2 = 1,
             vendor |-> IF v THEN FromLE(SubSeq(b, 7, 8)) ELSE -1,
             ack |-> LET o == IF v THEN 8 ELSE 6 IN IF a THEN SubSeq(b, o + 1, o + 4) ELSE <<>>,
             op |-> b[2], exch |-> FromLE(SubSeq(b, 3, 4)), proto |-> FromLE(SubSeq(b, 5, 6)), rest |-> Len(b) - need]
DrawProto(k) == [init |-> RandomElement(Bool), ack |-> RandomElement(B4 \cup {<<>>, <<>>}), rel |-> RandomElement(Bool), sx |-> RandomElement({FALSE, FALSE, TRUE}),
                 vendor |-> RandomElement(U16 \cup {-1, -1, -1}), op |-> RandomElement(U8), exch |-> RandomElement(U16), proto |-> RandomElement(U16)]

(* ----------------------------------------------------------- status report *)
StatusBytes(s) == LE(s.gen, 2) \o s.pid \o LE(s.code, 2) \o s.data
StatusParse(b) == IF Len(b) < 8 THEN Err ELSE IF FromLE(SubSeq(b, 1, 2)) > 16 THEN Err
                  ELSE [err |-> FALSE, gen |-> FromLE(SubSeq(b, 1, 2)), pid |-> SubSeq(b, 3, 6), code |-> FromLE(SubSeq(b, 7, 8)), data |-> Drop(b, 8)]
DrawStatus(k) == [gen |-> RandomElement(0..16), pid |-> RandomElement(B4), code |-> RandomElement(U16), data |-> RandomElement(Blobs)]

(* --------------------------------------------------------------------- BDX *)
\* transfer control byte: version (low 4 bits), sender drive 0x10, receiver drive 0x20, async 0x40; range control: definite length 0x01,
\* start offset 0x02, wide 0x10
Narrow(x, w) == IF w THEN x ELSE Take(x, 4)
TcByte(t) == t.ver + (IF t.sd THEN 16 ELSE 0) + (IF t.rd THEN 32 ELSE 0) + (IF t.as THEN 64 ELSE 0)
RcByte(r) == (IF r.dl THEN 1 ELSE 0) + (IF r.so THEN 2 ELSE 0) + (IF r.wide THEN 16 ELSE 0)
InitBytes(x) == <<TcByte(x.tc), RcByte(x.rc)>> \o LE(x.mbs, 2) \o (IF x.rc.so THEN Narrow(x.off, x.rc.wide) ELSE <<>>) \o (IF x.rc.dl THEN Narrow(x.len, x.rc.wide) ELSE <<>>)
                \o LE(Len(x.fd), 2) \o x.fd \o x.meta
DrawTc(k) == [ver |-> RandomElement({0, 0, 1, 15}), sd |-> RandomElement(Bool), rd |-> RandomElement(Bool), as |-> RandomElement({FALSE, FALSE, TRUE})]
DrawRc(k) == [dl |-> RandomElement(Bool), so |-> RandomElement(Bool), wide |-> RandomElement(Bool)]
Zero8 == <<0, 0, 0, 0, 0, 0, 0, 0>>
MkInit(rc, w1, w2, n1, n2) ==
  [tc |-> DrawTc(0), rc |-> rc, mbs |-> RandomElement(U16), off |-> IF rc.so THEN (IF rc.wide THEN w1 ELSE n1 \o <<0, 0, 0, 0>>) ELSE Zero8,
   len |-> IF rc.dl THEN (IF rc.wide THEN w2 ELSE n2 \o <<0, 0, 0, 0>>) ELSE Zero8, fd |-> RandomElement(Blobs), meta |-> RandomElement(Blobs)]
DrawInit(k) == MkInit(DrawRc(k), RandomElement(B8), RandomElement(B8), RandomElement(B4), RandomElement(B4))
AcceptBytes(x) == <<TcByte(x.tc)>> \o (IF x.receive THEN <<RcByte(x.rc)>> \o LE(x.mbs, 2) \o (IF x.rc.dl THEN Narrow(x.len, x.rc.wide) ELSE <<>>) ELSE LE(x.mbs, 2)) \o x.meta
MkAccept(rcv, rc0, w, n4) ==
  [receive |-> rcv, tc |-> DrawTc(0), rc |-> IF rcv THEN rc0 ELSE [dl |-> FALSE, so |-> FALSE, wide |-> FALSE], mbs |-> RandomElement(U16),
   len |-> IF rcv /\ rc0.dl THEN (IF rc0.wide THEN w ELSE n4 \o <<0, 0, 0, 0>>) ELSE Zero8, meta |-> RandomElement(Blobs)]
DrawAccept(k) == MkAccept(RandomElement(Bool), DrawRc(k), RandomElement(B8), RandomElement(B4))
BlockBytes(x) == x.ctr \o x.data
DrawBlock(k) == [ctr |-> RandomElement(B4), data |-> RandomElement(Blobs)]

(* ------------------------------------------------------------------ base 38 *)
\* characters as codes 0..37 (0-9, A-Z, '-', '.'); 99 stands for a character outside the alphabet
B38Chunk(n, c) == [j \in 1..c |-> (n \div (38 ^ (j - 1))) % 38]
B38Enc(bs) == LET E[j \in 0..(Len(bs) \div 3)] == IF j = 0 THEN <<>> ELSE E[j - 1] \o B38Chunk(bs[3 * j - 2] + 256 * bs[3 * j - 1] + 65536 * bs[3 * j], 5)
                  q == Len(bs) \div 3  r == Len(bs) % 3 IN
              E[q] \o (IF r = 2 THEN B38Chunk(bs[3 * q + 1] + 256 * bs[3 * q + 2], 4) ELSE IF r = 1 THEN B38Chunk(bs[3 * q + 1], 2) ELSE <<>>)
ChunkVal(cs) == LET S[j \in 0..Len(cs)] == IF j = 0 THEN 0 ELSE S[j - 1] + cs[j] * (38 ^ (j - 1)) IN S[Len(cs)]
\* the bytes, or Err: a character outside the alphabet, a final group of 1 or 3 characters, a group value that does not fit its bytes
B38Dec(cs) ==
  LET q == Len(cs) \div 5  r == Len(cs) % 5
      nb(c) == IF c = 5 THEN 3 ELSE IF c = 4 THEN 2 ELSE 1
      okc(g) == (\A j \in 1..Len(g) : g[j] < 38) /\ ChunkVal(g) < 256 ^ nb(Len(g))
      G(j) == SubSeq(cs, 5 * j - 4, 5 * j)
      tail == Drop(cs, 5 * q) IN
  IF r \in {1, 3} THEN Err
  ELSE IF \E j \in 1..q : ~okc(G(j)) THEN Err
  ELSE IF r # 0 /\ ~okc(tail) THEN Err
  ELSE LET D[j \in 0..q] == IF j = 0 THEN <<>> ELSE D[j - 1] \o LE(ChunkVal(G(j)), 3) IN
       [err |-> FALSE, bytes |-> D[q] \o (IF r = 0 THEN <<>> ELSE LE(ChunkVal(tail), nb(r)))]

(* -------------------------------------------------------- manual pairing code *)
VD == <<<<0,1,2,3,4,5,6,7,8,9>>, <<1,2,3,4,0,6,7,8,9,5>>, <<2,3,4,0,1,7,8,9,5,6>>, <<3,4,0,1,2,8,9,5,6,7>>, <<4,0,1,2,3,9,5,6,7,8>>,
        <<5,9,8,7,6,0,4,3,2,1>>, <<6,5,9,8,7,1,0,4,3,2>>, <<7,6,5,9,8,2,1,0,4,3>>, <<8,7,6,5,9,3,2,1,0,4>>, <<9,8,7,6,5,4,3,2,1,0>>>>
VP == <<<<0,1,2,3,4,5,6,7,8,9>>, <<1,5,7,6,2,8,3,0,9,4>>, <<5,8,0,3,7,9,6,1,4,2>>, <<8,9,1,6,0,4,3,5,2,7>>,
        <<9,4,5,3,1,2,6,8,7,0>>, <<4,2,8,6,5,7,3,9,0,1>>, <<2,7,9,3,8,0,6,4,1,5>>, <<7,0,4,6,9,1,3,2,5,8>>>>
VInv == <<0, 4, 3, 2, 1, 5, 6, 7, 8, 9>>
\* the Verhoeff checksum of a digit sequence that ends with its check digit is 0
VSum(ds) == LET n == Len(ds)  C[j \in 0..n] == IF j = 0 THEN 0 ELSE VD[C[j - 1] + 1][VP[((j - 1) % 8) + 1][ds[n - j + 1] + 1] + 1] IN C[n]
VCheck(ds) == VInv[VSum(ds \o <<0>>) + 1]
Dec(n, k) == [j \in 1..k |-> (n \div (10 ^ (k - j))) % 10]           \* k decimal digits, most significant first
DecVal(ds) == LET S[j \in 0..Len(ds)] == IF j = 0 THEN 0 ELSE S[j - 1] * 10 + ds[j] IN S[Len(ds)]
\* m = [disc (12 bit), pass (27 bit), long, vid, pid]
ManualDigits(m) ==
  LET body == <<(IF m.long THEN 4 ELSE 0) + (m.disc \div 1024)>> \o Dec(((m.disc \div 256) % 4) * 16384 + (m.pass % 16384), 5) \o Dec(m.pass \div 16384, 4)
              \o (IF m.long THEN Dec(m.vid, 5) \o Dec(m.pid, 5) ELSE <<>>) IN
  body \o <<VCheck(body)>>
\* the fields, or Err
ManualParse(ds) ==
  IF Len(ds) \notin {11, 21} THEN Err
  ELSE IF \E j \in 1..Len(ds) : ds[j] > 9 THEN Err
  ELSE IF VSum(ds) # 0 THEN Err
  ELSE LET long == Len(ds) = 21  d1 == ds[1]  g == DecVal(SubSeq(ds, 2, 6))  ph == DecVal(SubSeq(ds, 7, 10)) IN
       IF d1 > 7 THEN Err ELSE IF (d1 \div 4 = 1) # long THEN Err ELSE IF g > 65535 THEN Err ELSE IF ph > 8191 THEN Err
       ELSE IF long /\ (DecVal(SubSeq(ds, 11, 15)) > 65535 \/ DecVal(SubSeq(ds, 16, 20)) > 65535) THEN Err
       ELSE [err |-> FALSE, sd |-> (d1 % 4) * 4 + (g \div 16384), pass |-> ph * 16384 + (g % 16384), long |-> long,
             vid |-> IF long THEN DecVal(SubSeq(ds, 11, 15)) ELSE 0, pid |-> IF long THEN DecVal(SubSeq(ds, 16, 20)) ELSE 0]
Passcodes == {1, 123456, 20202021, 34567890, 99999998, 16383, 16384, 134217727, 67108864, 12345679}
Discs == {0, 1, 250, 255, 256, 1023, 1024, 2976, 3840, 4095}
DrawManual(k) == [disc |-> RandomElement(Discs), pass |-> RandomElement(Passcodes), long |-> RandomElement(Bool), vid |-> RandomElement(U16), pid |-> RandomElement(U16)]
\* a mutation of a digit string: one digit replaced, two neighbours swapped, a digit dropped / added, a 10 (= not a digit)
Mutate(ds, kind, pos, d) ==
  CASE kind = "set" -> [ds EXCEPT ![pos] = d]
    [] kind = "swap" -> IF pos < Len(ds) THEN [ds EXCEPT ![pos] = ds[pos + 1], ![pos + 1] = ds[pos]] ELSE ds
    [] kind = "drop" -> Take(ds, pos - 1) \o Drop(ds, pos)
    [] kind = "add" -> Take(ds, pos) \o <<d>> \o Drop(ds, pos)
    [] OTHER -> ds

(* ------------------------------------------------------------------ QR code *)
Bits(n, k) == [j \in 1..k |-> (n \div (2 ^ (j - 1))) % 2]
BitsVal(bs) == LET S[j \in 0..Len(bs)] == IF j = 0 THEN 0 ELSE S[j - 1] + bs[j] * (2 ^ (j - 1)) IN S[Len(bs)]
Pack(bs) == [j \in 1..(Len(bs) \div 8) |-> BitsVal(SubSeq(bs, 8 * j - 7, 8 * j))]
Unpack(by) == LET U[j \in 0..Len(by)] == IF j = 0 THEN <<>> ELSE U[j - 1] \o Bits(by[j], 8) IN U[Len(by)]
\* q = [vid, pid, flow (0..2), caps (8 bit), disc (12 bit), pass (27 bit)]; version 0, 4 padding bits
\* a serial number (ASCII codes) is carried by the optional TLV data: an anonymous structure with the UTF-8 string under context tag 0
QrTail(q) == IF q.serial = <<>> THEN <<>> ELSE <<21, 44, 0, Len(q.serial)>> \o q.serial \o <<24>>
QrBytes(q) == Pack(Bits(0, 3) \o Bits(q.vid, 16) \o Bits(q.pid, 16) \o Bits(q.flow, 2) \o Bits(q.caps, 8) \o Bits(q.disc, 12) \o Bits(q.pass, 27) \o Bits(0, 4)) \o QrTail(q)
QrChars(q) == B38Enc(QrBytes(q))                      \* the text is "MT:" followed by these characters
\* the fields carried by the characters after "MT:", or Err
QrParse(cs) ==
  LET dec == B38Dec(cs)  by == dec.bytes IN
  IF dec.err THEN Err ELSE IF Len(by) < 11 THEN Err
  ELSE LET b == Unpack(Take(by, 11))  f(a, n) == BitsVal(SubSeq(b, a + 1, a + n)) IN
       IF f(35, 2) = 3 THEN Err
       ELSE [err |-> FALSE, ver |-> f(0, 3), vid |-> f(3, 16), pid |-> f(19, 16), flow |-> f(35, 2), caps |-> f(37, 8), disc |-> f(45, 12), pass |-> f(57, 27), extra |-> Len(by) - 11]
Serials == {<<>>, <<>>, <<65>>, <<83, 78, 45, 48, 49, 50, 51>>, <<97, 98, 99, 100, 101, 102, 103, 104, 105, 106, 107, 108, 109, 110, 111, 112, 113, 114, 115, 116, 117, 118, 119, 120, 121, 122, 48, 49, 50, 51, 52, 53>>}
DrawQr(k) == [vid |-> RandomElement(U16), pid |-> RandomElement(U16), flow |-> RandomElement({0, 1, 2}), caps |-> RandomElement({1, 2, 4, 6, 7, 20, 255}),
              disc |-> RandomElement(Discs), pass |-> RandomElement(Passcodes), serial |-> RandomElement(Serials)]
MutChars(cs, kind, pos, d) == Mutate(cs, kind, pos, d)

(* -------------------------------------------------- BLE advertisement payload *)
\* flags AD structure, then the service-data AD structure for the Matter UUID 0xFFF6: opcode 0 (commissionable), version (high 4 bits) and
\* discriminator (low 12 bits), vendor id, product id, additional-data flag
AdvBytes(a) == <<2, 1, 6, 11, 22, 246, 255, 0>> \o LE(a.disc, 2) \o LE(a.vid, 2) \o LE(a.pid, 2) \o <<0>>
DrawAdv(k) == [disc |-> RandomElement(Discs), vid |-> RandomElement(U16), pid |-> RandomElement(U16)]

(* ------------------------------------------------------- DNS-SD answer (mDNS) *)
\* names are sequences of labels, labels sequences of ASCII codes; no name compression; big-endian integers (RFC 1035 / 6763)
BE(n, k) == [j \in 1..k |-> (n \div (256 ^ (k - j))) % 256]
Cat(ss) == LET C[j \in 0..Len(ss)] == IF j = 0 THEN <<>> ELSE C[j - 1] \o ss[j] IN C[Len(ss)]
DName(ls) == Cat([j \in 1..Len(ls) |-> <<Len(ls[j])>> \o ls[j]]) \o <<0>>
RR(name, type, rdata) == DName(name) \o BE(type, 2) \o BE(1, 2) \o BE(0, 2) \o BE(120, 2) \o BE(Len(rdata), 2) \o rdata
Svc == <<<<95, 109, 97, 116, 116, 101, 114, 99>>, <<95, 117, 100, 112>>, <<108, 111, 99, 97, 108>>>>          \* _matterc._udp.local
Local == <<<<108, 111, 99, 97, 108>>>>
\* d = [inst: label, host: label, port, txt: sequence of [k, v] pairs written "k=v", a6: 16 bytes, a4: <<>> | 4 bytes, ptr: the answer starts with the PTR record]
MdnsBytes(d) ==
  LET inst == <<d.inst>> \o Svc  host == <<d.host>> \o Local
      recs == (IF d.ptr THEN <<RR(Svc, 12, DName(inst))>> ELSE <<>>)
              \o <<RR(inst, 33, BE(0, 2) \o BE(0, 2) \o BE(d.port, 2) \o DName(host)),
                    RR(inst, 16, Cat([j \in 1..Len(d.txt) |-> <<Len(d.txt[j].k) + 1 + Len(d.txt[j].v)>> \o d.txt[j].k \o <<61>> \o d.txt[j].v])),
                    RR(host, 28, d.a6)>>
              \o (IF d.a4 # <<>> THEN <<RR(host, 1, d.a4)>> ELSE <<>>) IN
  BE(0, 2) \o <<132, 0>> \o BE(0, 2) \o BE(Len(recs), 2) \o BE(0, 2) \o BE(0, 2) \o Cat(recs)
Labels == {<<65, 66, 67, 68, 49, 50, 51, 52>>, <<48>>, <<70, 48, 48, 68, 45, 49, 50, 51, 52, 53, 54, 55, 56, 57, 65, 66, 67, 68, 69, 70>>, <<109, 121, 104, 111, 115, 116>>}
\* TXT pairs: key and value; the key ends at the FIRST "=" (RFC 6763 6.4), a value may contain more of them (DN=Lamp=Desk, base-64 padding)
KV(k, v) == [k |-> k, v |-> v]
Kvs == {<<>>, <<KV(<<68>>, <<49, 50, 51, 52>>)>>,
        <<KV(<<68>>, <<51, 56, 52, 48>>), KV(<<86, 80>>, <<54, 53, 53, 50, 49, 43, 51, 50, 55, 54, 57>>), KV(<<67, 77>>, <<49>>)>>,
        <<KV(<<83, 73, 73>>, <<53, 48, 48, 48>>), KV(<<83, 65, 73>>, <<51, 48, 48>>), KV(<<84>>, <<48>>)>>,
        <<KV(<<68, 78>>, <<76, 97, 109, 112, 61, 68, 101, 115, 107>>), KV(<<68>>, <<49>>)>>,
        <<KV(<<80, 73>>, <<99, 72, 74, 108, 99, 51, 77, 103, 77, 110, 77, 61>>), KV(<<88>>, <<61>>), KV(<<89>>, <<>>)>>}
A6 == {<<254, 128, 0, 0, 0, 0, 0, 0, 2, 1, 2, 255, 254, 3, 4, 5>>, <<32, 1, 13, 184, 0, 0, 0, 0, 0, 0, 0, 0, 0, 0, 0, 1>>}
DrawMdns(k) == [inst |-> RandomElement(Labels), host |-> RandomElement(Labels), port |-> RandomElement(U16 \ {0}), txt |-> RandomElement(Kvs),
                a6 |-> RandomElement(A6), a4 |-> RandomElement({<<>>, <<192, 168, 1, 5>>, <<10, 0, 0, 255>>}), ptr |-> RandomElement(Bool)]

(* --------------------------------------------------------------- generator *)
\* one vector per state: a format, its fields, the reference encoding, and mutations with the reference verdict
MutKinds == {"set", "set", "swap", "drop", "add"}
DrawMut(len, maxd) == [kind |-> RandomElement(MutKinds), pos |-> RandomElement(1..len), d |-> RandomElement(0..maxd)]
Vec(f, k) ==
  CASE f = "plain"  -> [fmt |-> f, x |-> DrawPlain(k), t |-> RandomElement(0..24), m |-> <<>>]
    [] f = "proto"  -> [fmt |-> f, x |-> DrawProto(k), t |-> RandomElement(0..12), m |-> <<>>]
    [] f = "status" -> [fmt |-> f, x |-> DrawStatus(k), t |-> RandomElement(0..8), m |-> <<>>]
    [] f = "init"   -> [fmt |-> f, x |-> DrawInit(k), t |-> 0, m |-> <<>>]
    [] f = "accept" -> [fmt |-> f, x |-> DrawAccept(k), t |-> 0, m |-> <<>>]
    [] f = "block"  -> [fmt |-> f, x |-> DrawBlock(k), t |-> 0, m |-> <<>>]
    [] f = "adv"    -> [fmt |-> f, x |-> DrawAdv(k), t |-> RandomElement(0..15), m |-> <<>>]
    [] f = "mdns"   -> [fmt |-> f, x |-> DrawMdns(k), t |-> RandomElement(0..60), m |-> <<>>]
    [] f = "b38"    -> [fmt |-> f, x |-> RandomElement(Blobs \cup {<<255, 255, 255>>, <<255, 255>>, <<255>>, <<136, 255, 167, 145, 80, 64, 0, 71, 81, 221, 2>>}), t |-> 0,
                        m |-> <<DrawMut(8, 38), DrawMut(5, 99)>>]
    [] f = "manual" -> [fmt |-> f, x |-> DrawManual(k), t |-> 0, m |-> <<DrawMut(11, 9), DrawMut(21, 9), DrawMut(11, 10)>>]
    [] f = "qr"     -> [fmt |-> f, x |-> DrawQr(k), t |-> 0, m |-> <<DrawMut(19, 37), DrawMut(19, 99), DrawMut(19, 37)>>]
Formats == {"plain", "proto", "status", "init", "accept", "block", "b38", "manual", "qr", "qr", "adv", "mdns"}
VARIABLES vec, n
Init == vec = Vec("plain", 0) /\ n = Seed
Next == vec' = Vec(RandomElement(Formats), n + 1) /\ n' = n + 1
Spec == Init /\ [][Next]_<<vec, n>>

Enc(v) == CASE v.fmt = "plain" -> PlainBytes(v.x) [] v.fmt = "proto" -> ProtoBytes(v.x) [] v.fmt = "status" -> StatusBytes(v.x)
            [] v.fmt = "init" -> InitBytes(v.x) [] v.fmt = "accept" -> AcceptBytes(v.x) [] v.fmt = "block" -> BlockBytes(v.x)
            [] v.fmt = "adv" -> AdvBytes(v.x) [] v.fmt = "mdns" -> MdnsBytes(v.x)
            [] v.fmt = "b38" -> B38Enc(v.x) [] v.fmt = "manual" -> ManualDigits(v.x) [] v.fmt = "qr" -> QrChars(v.x)
ClampMut(s, mu) == [mu EXCEPT !.pos = IF mu.pos > Len(s) THEN Len(s) ELSE mu.pos]
Mutants(v) == LET e == Enc(v) IN
  [j \in 1..Len(v.m) |-> LET mu == ClampMut(e, v.m[j])  s == IF Len(e) = 0 /\ mu.kind # "add" THEN e ELSE Mutate(e, mu.kind, mu.pos, mu.d) IN
     [s |-> s, verdict |-> CASE v.fmt = "b38" -> B38Dec(s) [] v.fmt = "manual" -> ManualParse(s) [] v.fmt = "qr" -> QrParse(s)]]
Out(v) == [fmt |-> v.fmt, x |-> v.x, enc |-> Enc(v), trunc |-> IF v.t < Len(Enc(v)) THEN v.t ELSE -1, mut |-> Mutants(v)]
Emit == PrintT(<<"REPLAY", ToJson(Out(vec))>>)

\* sanity of the reference itself
RoundTrip ==
  LET e == Enc(vec) IN
  CASE vec.fmt = "plain" -> LET p == PlainParse(e \o <<7, 7>>) IN ~p.err /\ p.src = vec.x.src /\ p.dst = vec.x.dst /\ p.dk = vec.x.dk /\ p.sess = vec.x.sess /\ p.sec = vec.x.sec /\ p.ctr = vec.x.ctr /\ p.rest = 2
                             /\ \A k \in 0..(Len(e) - 1) : PlainParse(Take(e, k)).err
    [] vec.fmt = "proto" -> LET p == ProtoParse(e) IN ~p.err /\ p.init = vec.x.init /\ p.ack = vec.x.ack /\ p.rel = vec.x.rel /\ p.sx = vec.x.sx /\ p.vendor = vec.x.vendor /\ p.op = vec.x.op
                             /\ p.exch = vec.x.exch /\ p.proto = vec.x.proto /\ \A k \in 0..(Len(e) - 1) : ProtoParse(Take(e, k)).err
    [] vec.fmt = "status" -> LET p == StatusParse(e) IN ~p.err /\ p.gen = vec.x.gen /\ p.pid = vec.x.pid /\ p.code = vec.x.code /\ p.data = vec.x.data
    [] vec.fmt = "b38" -> LET p == B38Dec(e) IN ~p.err /\ p.bytes = vec.x
    [] vec.fmt = "manual" -> LET p == ManualParse(e) IN ~p.err /\ p.pass = vec.x.pass /\ p.sd = vec.x.disc \div 256 /\ p.long = vec.x.long /\ (vec.x.long => (p.vid = vec.x.vid /\ p.pid = vec.x.pid))
                             \* Verhoeff: every single-digit error and every transposition of different neighbours is caught
                             /\ \A j1 \in 1..Len(e) : \A d \in 0..9 : d # e[j1] => VSum([e EXCEPT ![j1] = d]) # 0
                             /\ \A j2 \in 1..(Len(e) - 1) : e[j2] # e[j2 + 1] => VSum([e EXCEPT ![j2] = e[j2 + 1], ![j2 + 1] = e[j2]]) # 0
    [] vec.fmt = "qr" -> LET p == QrParse(e) IN ~p.err /\ p.ver = 0 /\ p.vid = vec.x.vid /\ p.pid = vec.x.pid /\ p.flow = vec.x.flow /\ p.caps = vec.x.caps /\ p.disc = vec.x.disc /\ p.pass = vec.x.pass /\ p.extra = Len(QrTail(vec.x))
    [] OTHER -> TRUE
\* the two literal vectors of the specification / the repository's unit test (anchors the transcription of the tables)
Known == /\ ManualDigits([disc |-> 250, pass |-> 123456, long |-> FALSE, vid |-> 0, pid |-> 0]) = <<0, 0, 8, 7, 6, 8, 0, 0, 0, 7, 1>>
         /\ ManualDigits([disc |-> 2976, pass |-> 34567890, long |-> FALSE, vid |-> 0, pid |-> 0]) = <<2, 6, 3, 1, 8, 6, 2, 1, 0, 9, 5>>
         /\ B38Enc(<<136, 255, 167, 145, 80, 64, 0, 71, 81, 221, 2>>) = <<36, 22, 24, 10, 5, 7, 35, 30, 0, 2, 18, 29, 2, 21, 2, 11, 19, 0, 0>>
=============================================================================
