SPECIFICATION Spec
INVARIANTS Emit BaseValid MutInvalid
CHECK_DEADLOCK FALSE
