SPECIFICATION Spec
INVARIANTS Emit BaseValid MutInvalid Benign
CHECK_DEADLOCK FALSE
