-------------------------------- MODULE Slots --------------------------------
(***************************************************************************)
(* Layer I for C20: the bookkeeping of session slots during session        *)
(* establishment, transcribed from transport/session.rs (Sessions::add,    *)
(* ReservedSession: reserve / complete / drop, get_session_for_eviction:   *)
(* expired first, else least recently used among the sessions without      *)
(* exchanges that are not reserved), transport.rs (a first handshake       *)
(* message that finds the table full is answered Busy and one idle session *)
(* is evicted; ReservedSession::reserve evicts and retries), the PASE /     *)
(* CASE responders (reserve first; the reserved slot is completed only on  *)
(* success and released on every other exit, including cancellation of the *)
(* handler) and sc/pase.rs (the single PASE establishment marker, cleared  *)
(* on every exit and stale after 60 s).                                    *)
(* The table has Cap slots, Busy of which hold sessions with a live        *)
(* exchange for the whole run (never evictable).  Initiators start         *)
(* handshakes, whose messages the device handles one at a time in any      *)
(* interleaving; they may stop after any message, fail the proof, or       *)
(* complete; handlers may be cancelled; time may pass.                     *)
(***************************************************************************)
EXTENDS Integers, Sequences, FiniteSets, TLC, Json
CONSTANTS Inits, Cap, Busy, MaxOps

\* a slot: [kind, owner, exch, res]   kind: "busy" | "plain" | "sec" ; res: reserved (not yet a usable session)
VARIABLES tab,        \* set of slots (records); |tab| <= Cap
          hs,         \* per initiator: "none" | "a" (first answer sent) | "b" (second answer sent)
          marker,     \* initiator holding the PASE marker, or 0; stale
          stale,
          evictedBusy, \* a session with a live exchange was evicted (must never happen)
          refused,    \* per initiator: its last first message was refused (Busy / no space)
          established, pw, h, nops
vars == <<tab, hs, marker, stale, evictedBusy, refused, established, pw, h, nops>>
view == <<tab, hs, marker, stale, evictedBusy, refused, established, pw>>

BusySlots == {[kind |-> "busy", owner |-> -k, exch |-> 1, res |-> FALSE] : k \in 1..Busy}
Init == /\ tab = BusySlots /\ hs = [i \in Inits |-> "none"] /\ marker = 0 /\ stale = FALSE
        /\ evictedBusy = FALSE /\ refused = [i \in Inits |-> FALSE] /\ established = {} /\ pw = [i \in Inits |-> TRUE] /\ h = <<>> /\ nops = 0
Log(op) == h' = Append(h, op) /\ nops' = nops + 1

Full(t) == Cardinality(t) >= Cap
Evictable(t) == {s \in t : s.exch = 0 /\ ~s.res}
\* get_session_for_eviction + remove: any idle, unreserved session may be the least recently used one
EvictOne(t) == IF Evictable(t) = {} THEN {t} ELSE {t \ {s} : s \in Evictable(t)}

Plain(i) == [kind |-> "plain", owner |-> i, exch |-> 1, res |-> FALSE]
Resv(i) == [kind |-> "sec", owner |-> i, exch |-> 0, res |-> TRUE]

\* the first handshake message of initiator i arrives (PBKDFParamRequest)
First(i, good) ==
  /\ hs[i] = "none" /\ Log([op |-> "Pase", i |-> i, pass |-> IF good THEN "ok" ELSE "bad", locked |-> TRUE]) /\ pw' = [pw EXCEPT ![i] = good]
  /\ IF Full(tab)
     THEN \* no space for the unsecured session: Busy, and one idle session is evicted
          /\ \E t2 \in EvictOne(tab) : tab' = t2
          /\ refused' = [refused EXCEPT ![i] = TRUE] /\ UNCHANGED <<hs, marker, stale>>
     ELSE LET t1 == tab \cup {Plain(i)} IN
          \* the responder reserves a slot (evicting an idle session if need be)
          IF Full(t1) /\ Evictable(t1) = {}
          THEN /\ tab' = (t1 \ {Plain(i)}) \cup {[Plain(i) EXCEPT !.exch = 0]}      \* NoSpace: handler fails, exchange closed
               /\ refused' = [refused EXCEPT ![i] = TRUE] /\ UNCHANGED <<hs, marker, stale>>
          ELSE \E t2 \in (IF Full(t1) THEN EvictOne(t1) ELSE {t1}) :
               IF marker # 0 /\ ~stale /\ marker # i
               THEN /\ tab' = (t2 \ {Plain(i)}) \cup {[Plain(i) EXCEPT !.exch = 0]}   \* another PASE in progress: Busy status
                    /\ refused' = [refused EXCEPT ![i] = TRUE] /\ UNCHANGED <<hs, marker, stale>>
               ELSE /\ tab' = t2 \cup {Resv(i)} /\ hs' = [hs EXCEPT ![i] = "a"]
                    /\ marker' = i /\ stale' = FALSE /\ refused' = [refused EXCEPT ![i] = FALSE]
  /\ UNCHANGED <<evictedBusy, established>>

Release(t, i) == {s \in t : ~(s.owner = i /\ s.res)}
CloseExch(t, i) == {IF s.owner = i /\ s.kind = "plain" THEN [s EXCEPT !.exch = 0] ELSE s : s \in t}
\* a later handshake message of i is handled; `good` = the proof verifies (last step only)
Later(i) ==
  /\ hs[i] \in {"a", "b"} /\ Log([op |-> "Step", i |-> i]) /\ UNCHANGED pw
  /\ LET good == pw[i] IN
     IF hs[i] = "a" THEN /\ hs' = [hs EXCEPT ![i] = "b"] /\ UNCHANGED <<tab, marker, stale, established>>
     ELSE /\ hs' = [hs EXCEPT ![i] = "none"] /\ marker' = 0 /\ stale' = FALSE
          /\ IF good THEN /\ tab' = CloseExch({IF s.owner = i /\ s.res THEN [s EXCEPT !.res = FALSE] ELSE s : s \in tab}, i)
                          /\ established' = established \cup {i}
                     ELSE /\ tab' = CloseExch(Release(tab, i), i) /\ UNCHANGED established
  /\ UNCHANGED <<evictedBusy, refused>>
\* the handler of i's handshake is cancelled at an await point: the reserved slot is dropped, the exchange closes, the
\* marker stays until it goes stale
Cancel == /\ \E i \in Inits : hs[i] # "none"
          /\ tab' = {IF s.kind = "plain" THEN [s EXCEPT !.exch = 0] ELSE s : s \in {s \in tab : ~s.res}}
          /\ hs' = [i \in Inits |-> "none"] /\ Log([op |-> "Cancel"])
          /\ UNCHANGED <<marker, stale, evictedBusy, refused, established, pw>>
\* ~70 s pass: handshakes in progress time out (slots released, exchanges closed), the marker goes stale
WaitMid == /\ (\E i \in Inits : hs[i] # "none") \/ marker # 0
           /\ tab' = {IF s.kind = "plain" THEN [s EXCEPT !.exch = 0] ELSE s : s \in {s \in tab : ~s.res}}
           /\ hs' = [i \in Inits |-> "none"] /\ marker' = 0 /\ stale' = FALSE
           /\ Log([op |-> "Wait", ms |-> 70000]) /\ UNCHANGED <<evictedBusy, refused, established, pw>>

Next == /\ nops < MaxOps
        /\ \/ \E i \in Inits : First(i, TRUE) \/ First(i, FALSE) \/ Later(i)
           \/ Cancel \/ WaitMid
Spec == Init /\ [][Next]_vars

Quiet == \A i \in Inits : hs[i] = "none"
\* NeverEvictBusy: the sessions with a live exchange are all still there
NeverEvictBusy == BusySlots \subseteq tab
\* NoLeak: with no handshake in progress nothing is reserved, no exchange is open (but the busy ones), and the marker
\* is free or stale
NoLeak == Quiet => (\A s \in tab : s.kind # "busy" => (~s.res /\ s.exch = 0))
Capacity == Cardinality(tab) <= Cap
\* ServiceRestored: with nothing in progress, a first message is refused only if the table is full, and then an idle
\* session (if there is one) is evicted, so that the retry finds room
ServiceRestored == Quiet /\ marker = 0 => (Full(tab) => (Evictable(tab) # {} \/ \A s \in tab : s.kind = "busy"))

EmitAtEnd == nops = MaxOps => PrintT(<<"REPLAY", ToJson(h)>>)
=============================================================================
