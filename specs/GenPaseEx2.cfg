\* exhaustive schedule generator: two initiators (no garbling), every behaviour of 7 operations
SPECIFICATION Spec
CONSTANTS
  Inits = {1, 2}
  MaxFail = 20
  MaxOps = 7
  Garbles = {0}
  Variant = "fixed"
INVARIANTS SessionOnlyWhileOpen SessionOnlyWithPasscode FailuresCounted RevokedAtLimit EmitAtEnd
CHECK_DEADLOCK FALSE
