SPECIFICATION Spec
CONSTANTS
  Which = "C11"
POSTCONDITION TraceAccepted
CHECK_DEADLOCK FALSE
