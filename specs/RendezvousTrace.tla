--------------------------- MODULE RendezvousTrace ---------------------------
(* Trace validation for the rendezvous part of C20: the recorded operations and what the real caller futures returned,
   against the actions of Rendezvous.tla, plus the Layer P rule at the end of each run: with every caller gone, a fresh
   lookup is served (ProbeOk).  {"ev":"Reset"} starts a new run. *)
EXTENDS Rendezvous, IOUtils
Rec == ndJsonDeserialize(IOEnv.TRACE)
VARIABLE i
tvars == <<vars, i>>
TInit == Init /\ i = 1
IsEvent(x) == i <= Len(Rec) /\ Rec[i].ev = x /\ i' = i + 1
R == Rec[i]
\* what the caller's future returned when it was polled: "pending" | "ok" | "err"
Res(c) == CASE cal'[c] = "ok" -> "ok" [] cal'[c] = "err" -> "err" [] OTHER -> "pending"
TReset   == IsEvent("Reset") /\ slot' = IdleSlot /\ cal' = [c \in Callers |-> "none"] /\ h' = <<>> /\ nops' = 0
TStart   == IsEvent("Start") /\ Start(R.c) /\ R.res = Res(R.c)
TPoll    == IsEvent("Poll") /\ Poll(R.c) /\ R.res = Res(R.c)
TPick    == IsEvent("Pick") /\ IF R.got THEN Pick ELSE (slot.st # "Req" /\ UNCHANGED vars)
TDeposit == IsEvent("Deposit") /\ IF slot.st = "Fly" THEN Deposit ELSE UNCHANGED vars
TTimeout == IsEvent("Timeout") /\ Timeout(R.c) /\ R.res = Res(R.c)
TCancel  == IsEvent("Cancel") /\ Cancel(R.c)
\* Layer P: all callers are gone; a fresh lookup (placed, picked, answered, consumed) succeeds
TProbe   == IsEvent("Probe") /\ R.ok /\ UNCHANGED vars
TNext == TReset \/ TStart \/ TPoll \/ TPick \/ TDeposit \/ TTimeout \/ TCancel \/ TProbe
TSpec == TInit /\ [][TNext]_tvars
TraceAccepted ==
  LET d == TLCGet("stats").diameter IN
  IF d - 1 = Len(Rec) THEN TRUE ELSE Print(<<"REJECTED", d, ToJson(Rec[d])>>, FALSE)
=============================================================================
