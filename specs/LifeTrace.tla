----------------------------- MODULE LifeTrace -----------------------------
(* Trace validation for C07 / C08 / C11 against Layer P (LifeProp).  {"ev":"Reset"} starts a new run. *)
EXTENDS LifeProp, TLC, Json, IOUtils
Rec == ndJsonDeserialize(IOEnv.TRACE)
VARIABLES i, st
vars == <<i, st>>
Init == i = 1 /\ st = Fresh
IsEvent(x) == i <= Len(Rec) /\ Rec[i].ev = x /\ i' = i + 1
R == Rec[i]
F(r, k, d) == IF k \in DOMAIN r THEN r[k] ELSE d
Reset == IsEvent("Reset") /\ st' = Fresh
Op    == IsEvent("Op") /\ OpOk(R.op, R.c, F(R, "via", "none"), F(R, "cmd", "none"), R.ok, F(R, "code", ""), F(R, "fresh", TRUE), st)
                       /\ st' = AfterOp(R.op, R.c, F(R, "via", "none"), F(R, "cmd", "none"), R.ok, F(R, "code", ""), F(R, "fresh", TRUE), F(R, "idx", 0), F(R, "ms", 0), st)
State == IsEvent("State") /\ StateOk(R.fabrics, R.sessions, R.resum, R.fs.armed, R.fs.flags, R.im_dead, st)
                          /\ st' = AfterState(R.fabrics, R.sessions, R.resum, R.fs.armed, R.fs.flags, R.im_dead, st)
Other == i <= Len(Rec) /\ Rec[i].ev \in {"End", "StoryError"} /\ i' = i + 1 /\ UNCHANGED st
Next == Reset \/ Op \/ State \/ Other
Spec == Init /\ [][Next]_vars
TraceAccepted ==
  LET d == TLCGet("stats").diameter IN
  IF d - 1 = Len(Rec) THEN TRUE ELSE Print(<<"REJECTED", d, ToJson(Rec[d])>>, FALSE)
=============================================================================
