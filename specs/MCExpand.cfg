\* 4 endpoints (three shapes), every initial composition, up to 3 replacements of the node anywhere in the answer, 10 requests
SPECIFICATION Spec
CONSTANTS
  EPs = {0, 1, 2, 3}
  MaxChanges = 3
  Requests <- ReqSet
  Variant = "code"
VIEW view
INVARIANTS Refines CompleteAtEnd
CHECK_DEADLOCK FALSE
