SPECIFICATION ISpec
CONSTANTS
  Seed = 0
INVARIANTS IEmit ISane
CHECK_DEADLOCK FALSE
