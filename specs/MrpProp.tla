------------------------------ MODULE MrpProp ------------------------------
(***************************************************************************)
(* Layer P for C09 (and the C15 rules that can be read off the same wire   *)
(* tap).  Written from the property text.  Observable events (t in ms):    *)
(*  AppSend(n, id, t)        application n starts a reliable send of id    *)
(*  SendOk(n, id, t) / SendErr(n, id, code, t)   the send call returned    *)
(*  AppRecv(n, id, t)        application n received message id             *)
(*  Tx(n, ctr, rel, ack, id, bytes, t)  node n put a datagram on the wire: *)
(*                           message counter, R flag, acknowledged counter *)
(*                           (-1 = none), id of the application message it *)
(*                           carries (0 = none), interned bytes            *)
(*  Dlv(from, ctr, t)        the network handed (a copy of) that datagram  *)
(*                           to the other node                             *)
(*  End                      traffic has stopped, all timers ran out       *)
(***************************************************************************)
EXTENDS Integers, FiniteSets, Sequences
CONSTANTS MinBackoff,    \* ms: no retransmission earlier than this after the previous transmission
          MaxTx,         \* transmissions of one message (first one included) before giving up
          MaxSendMs,     \* a send call returns within this time
          Judge          \* "C09": the reliability rules; "C15": only the nonce rules (counters, identical retransmissions, identifiers)

Nodes == {"A", "B"}
Peer(n) == IF n = "A" THEN "B" ELSE "A"
Fresh == [sent |-> [n \in Nodes |-> <<>>],        \* ids submitted, in order
          pending |-> [n \in Nodes |-> [id |-> 0, t |-> 0]],   \* the send call in progress
          recvd |-> [n \in Nodes |-> <<>>],       \* ids received by the application, in order
          tx |-> {},                              \* [n, ctr, rel, ack, id, bytes, cnt, last]
          dlv |-> {},                             \* [from, ctr]
          owe |-> {},                             \* [n, ctr]: n received a duplicate asking for an ack
          hi |-> [n \in Nodes |-> [prev |-> -1, cur |-> -1, t |-> -1]]]   \* highest counter handed to the network before / at instant t

TxOf(st, n, c) == {x \in st.tx : x.n = n /\ x.ctr = c}

C09 == Judge = "C09"
C15 == Judge = "C15"
AppSendOk(n, id, t, st) == C09 => st.pending[n].id = 0
AfterAppSend(n, id, t, st) == [st EXCEPT !.sent[n] = Append(@, id), !.pending[n] = [id |-> id, t |-> t]]

\* C15: new messages carry strictly increasing counters; a retransmission is bit-identical.  Datagrams handed to the
\* network at the same instant (several sends queued behind one slow network send) may reach the wire in any order:
\* a new counter is unused and greater than every counter handed over at an earlier instant.
HiBefore(st, n, t) == IF t > st.hi[n].t THEN (IF st.hi[n].cur > st.hi[n].prev THEN st.hi[n].cur ELSE st.hi[n].prev) ELSE st.hi[n].prev
\* C09: retransmissions respect the back-off and the transmission budget
TxOk(n, c, rel, a, id, b, t, st) ==
  IF TxOf(st, n, c) = {} THEN (C15 => c > HiBefore(st, n, t))
  ELSE \A x \in TxOf(st, n, c) : /\ (C15 => x.bytes = b)
                                  /\ (C09 => (x.rel /\ t - x.last >= MinBackoff /\ x.cnt < MaxTx))
AfterTx(n, c, rel, a, id, b, t, st) ==
  [st EXCEPT !.tx = IF TxOf(st, n, c) = {} THEN @ \cup {[n |-> n, ctr |-> c, rel |-> rel, ack |-> a, id |-> id, bytes |-> b, cnt |-> 1, last |-> t]}
                    ELSE {IF x.n = n /\ x.ctr = c THEN [x EXCEPT !.cnt = @ + 1, !.last = t] ELSE x : x \in @},
            !.hi[n] = IF t > @.t THEN [prev |-> HiBefore(st, n, t), cur |-> c, t |-> t]
                      ELSE [@ EXCEPT !.cur = IF c > @ THEN c ELSE @],
            !.owe = {o \in @ : ~(o.n = n /\ o.ctr = a)}]            \* acknowledging again discharges the obligation

DlvOk(f, c, t, st) == TxOf(st, f, c) # {}
AfterDlv(f, c, t, st) ==
  LET dup == [from |-> f, ctr |-> c] \in st.dlv
      x == CHOOSE x \in TxOf(st, f, c) : TRUE
  IN [st EXCEPT !.dlv = @ \cup {[from |-> f, ctr |-> c]},
                !.owe = IF dup /\ x.rel THEN @ \cup {[n |-> Peer(f), ctr |-> c]} ELSE @]   \* DupIsReAcked

Delivered(st, f, c) == [from |-> f, ctr |-> c] \in st.dlv
CtrOf(st, n, id) == {x.ctr : x \in {y \in st.tx : y.n = n /\ y.id = id}}
\* an acknowledgement of counter c (sent by n) was handed back to n
AckDelivered(st, n, c) == \E x \in st.tx : x.n = Peer(n) /\ x.ack = c /\ Delivered(st, Peer(n), x.ctr)

\* SuccessIsTrue: Ok only if the peer's stack actually got the message
SendOkOk(n, id, t, st) == C09 => /\ st.pending[n].id = id
                                 /\ \E c \in CtrOf(st, n, id) : Delivered(st, n, c)
AfterSendOk(n, id, t, st) == [st EXCEPT !.pending[n] = [id |-> 0, t |-> 0]]
\* failure is a transmit timeout, within the budget's horizon, and never when both a transmission and an ack got through
SendErrOk(n, id, code, t, st) == C09 =>
  /\ st.pending[n].id = id /\ code = "TxTimeout"
  /\ t - st.pending[n].t <= MaxSendMs
  /\ ~\E c \in CtrOf(st, n, id) : Delivered(st, n, c) /\ AckDelivered(st, n, c)
AfterSendErr(n, id, code, t, st) == [st EXCEPT !.pending[n] = [id |-> 0, t |-> 0]]

\* AtMostOnceInOrder: only something the peer sent and that was delivered, never twice, in sending order
Index(seq, x) == CHOOSE i \in 1..Len(seq) : seq[i] = x
AppRecvOk(n, id, t, st) == C09 =>
  /\ \E i \in 1..Len(st.sent[Peer(n)]) : st.sent[Peer(n)][i] = id
  /\ \E c \in CtrOf(st, Peer(n), id) : Delivered(st, Peer(n), c)
  /\ \A j \in 1..Len(st.recvd[n]) : Index(st.sent[Peer(n)], st.recvd[n][j]) < Index(st.sent[Peer(n)], id)
AfterAppRecv(n, id, t, st) == [st EXCEPT !.recvd[n] = Append(@, id)]

\* C15: a freshly chosen session / exchange identifier is not the identifier of a live session / exchange
AllocOk(v, live) == C15 => \A k \in 1..Len(live) : live[k] # v

\* at the end: every send call returned, every duplicate that asked for it was acknowledged again
EndOk(st) == C09 => (\A n \in Nodes : st.pending[n].id = 0) /\ st.owe = {}
=============================================================================
