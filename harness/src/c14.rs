//! C14 - a chunked answer carries the complete result exactly once.  Every behaviour is a sequence of items (scalars
//! and lists with sizes in abstract units, from Chunk.tla, or in bytes, from the harness-made sweeps); the harness gives
//! a device one attribute per item with exactly those sizes, reads the whole cluster with a wildcard path and records
//! every element of every message of the answer.

use serde_json::{json, Value};

use rs_matter::dm::Access;

use crate::imw::{run_request, AttrSpec, ClusterSpec, NodeSpec, Req};
use crate::util::{arg, read_ndjson, Trace};

pub fn run(args: &[String]) -> i32 {
    let behaviours = read_ndjson(&arg(args, "--behaviours").expect("--behaviours"));
    let unit: usize = arg(args, "--unit").and_then(|u| u.parse().ok()).unwrap_or(270);
    let mut tr = Trace::create(&arg(args, "--out").expect("--out"));
    for (bi, b) in behaviours.iter().enumerate() {
        // items: [{"k":"s","sz":n}] / [{"k":"l","hdr":1,"el":[..]}] in units, or {"bytes": true, ...} in bytes
        let (items, bytes) = if b.is_array() { (b.as_array().unwrap().clone(), false) } else { (b["items"].as_array().unwrap().clone(), b["bytes"] != false) };
        let sz = |n: u64| if bytes { n as usize } else { (n as usize * unit).saturating_sub(24) };
        let mut attrs = Vec::new();
        let mut expect = Vec::new();
        for (i, it) in items.iter().enumerate() {
            if it["k"] == "s" {
                let n = sz(it["sz"].as_u64().unwrap());
                attrs.push(AttrSpec { id: i as u32, access: Access::RV, size: n, list: None });
                expect.push(json!({"a": i, "k": "s", "size": n}));
            } else {
                let els: Vec<usize> = it["el"].as_array().unwrap().iter().map(|e| sz(e.as_u64().unwrap())).collect();
                attrs.push(AttrSpec { id: i as u32, access: Access::RV, size: 0, list: Some(els.clone()) });
                expect.push(json!({"a": i, "k": "l", "els": els}));
            }
        }
        // events waiting in the node's queue: {"evs": [payload bytes, ...]}; event paths: "events": true (the cluster's events),
        // "missing" (a concrete path to a cluster that is not there: answered by a status), "both"
        let evs: Vec<usize> = if b.is_array() { vec![] } else { b["evs"].as_array().map(|a| a.iter().map(|x| x.as_u64().unwrap() as usize).collect()).unwrap_or_default() };
        let ev_mode = if b.is_array() { "" } else if b["events"] == true { "wild" } else { b["events"].as_str().unwrap_or("") };
        let ev_paths: Vec<(Option<u16>, Option<u32>, Option<u32>)> = match ev_mode {
            "wild" => vec![(Some(1), Some(101), None)],
            "missing" => vec![(Some(1), Some(999), Some(0))],
            "both" => vec![(Some(1), Some(999), Some(0)), (Some(1), Some(101), None)],
            _ => vec![],
        };
        // "split": k puts the attributes from the k-th on into a second cluster (102) and selects the whole endpoint;
        // "dvf": "match" | "mismatch" adds a data-version filter for cluster 101 with the version the node has (the
        // cluster is then left out of the answer) or another one; "evmin": n adds an event filter
        let split = if b.is_array() { None } else { b["split"].as_u64().map(|k| (k as usize).min(attrs.len())) };
        let dvf = if b.is_array() { "" } else { b["dvf"].as_str().unwrap_or("") };
        let clusters = match split {
            Some(k) => {
                let second = attrs.split_off(k);
                vec![ClusterSpec { id: 101, attrs, cmds: vec![] }, ClusterSpec { id: 102, attrs: second, cmds: vec![] }]
            }
            None => vec![ClusterSpec { id: 101, attrs, cmds: vec![] }],
        };
        if dvf == "match" {
            let k = split.unwrap_or(expect.len());
            expect.drain(..k);
        }
        let ev_min = if b.is_array() { None } else { b["evmin"].as_u64() };
        let spec = NodeSpec { endpoints: vec![(1, clusters)], events: evs.iter().map(|n| (1u16, 101u32, 0u32, *n)).collect() };
        // events are numbered from 1 in the order queued: an event filter leaves out the ones before its minimum
        let evs: Vec<usize> = evs.iter().enumerate().filter(|(i, _)| ev_min.map(|m| (*i as u64 + 1) >= m).unwrap_or(true)).map(|(_, n)| *n).collect();
        // the selection: one wildcard path, or one concrete path per attribute (in the same order)
        let concrete = !b.is_array() && b["concrete"] == true;
        let paths = if concrete { (0..items.len()).map(|i| (Some(1), Some(101), Some(i as u32))).collect() } else if split.is_some() { vec![(Some(1), None, None)] } else { vec![(Some(1), Some(101), None)] };
        let dv_filters = match dvf { "match" => vec![(1u16, 101u32, 1u32)], "mismatch" => vec![(1u16, 101u32, 7u32)], _ => vec![] };
        let sees_events = ev_mode == "wild" || ev_mode == "both";
        let n_status = if ev_mode == "missing" || ev_mode == "both" { 1 } else { 0 };
        let req = Req { kind: "read".into(), paths, timed: false, ev_paths, late: false, dv_filters, ev_min, claim: false, chunk2: None };
        tr.ev(json!({"ev": "Reset", "run": bi}));
        // what the node is built with: the transmit buffer of an exchange and the largest datagram the transport sends
        tr.ev(json!({"ev": "Req", "items": expect, "events": if sees_events { evs.clone() } else { vec![] }, "evstatus": n_status,
                     "cap": rs_matter::transport::exchange::MAX_EXCHANGE_TX_BUF_SIZE, "max_dgram": rs_matter::transport::network::MAX_TX_PACKET_SIZE}));
        match crate::util::catch(|| run_request(&spec, &[], true, &req, 300)) {
            Ok(o) => {
                for it in o.items.iter() {
                    let mut e = it.clone();
                    e["ev"] = json!("El");
                    tr.ev(e);
                }
                let sizes = o.chunks.last().map(|c| c["dev_datagram_sizes"].clone()).unwrap_or(Value::Null);
                let more: Vec<Value> = o.chunks.iter().filter(|c| c.get("elements").is_some()).cloned().collect();
                tr.ev(json!({"ev": "End", "error": o.error, "chunks": more, "sizes": sizes, "max_size": sizes.as_array().map(|a| a.iter().map(|x| x.as_u64().unwrap_or(0)).max().unwrap_or(0)).unwrap_or(0),
                             "handler_reads": o.handler.len(), "datagrams": o.datagrams}));
            }
            Err(m) => tr.ev(json!({"ev": "End", "error": format!("PANIC {m}"), "chunks": [], "sizes": [], "max_size": 0, "handler_reads": 0, "datagrams": 0})),
        }
    }
    tr.finish();
    println!("{}", json!({"behaviours": behaviours.len(), "unit": unit}));
    0
}
