//! Deterministic executor for scenarios with several real `Matter` stacks on the simulated network:
//! one combined future, polled to quiescence; then the scenario script decides the next step (deliver / drop /
//! duplicate / inject a datagram, fire the next timer, advance the clock).
#![allow(dead_code)]

use core::future::Future;
use core::pin::Pin;
use core::task::{Context, Poll, Waker};
use std::collections::HashMap;
use std::sync::Arc;

use rs_matter::crypto::{test_only_crypto, CanonAeadKey};
use rs_matter::transport::packet::PacketHdr;
use rs_matter::utils::storage::ParseBuf;

use crate::sim::{self, Dgram, Flag, NetRef};

pub enum Step {
    /// deliver the datagram at this position of the wire queue (removing it)
    Deliver(usize),
    /// deliver a copy of the datagram at this position, keeping it on the wire
    Dup(usize),
    /// remove the datagram at this position without delivering it
    Drop(usize),
    /// hand arbitrary bytes to node `dst` as if sent by node `src`
    Inject { src: usize, dst: usize, data: Vec<u8> },
    /// advance the clock to the next armed timer
    NextTimer,
    /// advance the clock by this many milliseconds (firing due timers)
    AdvanceMs(u64),
    /// just poll again
    Poll,
    Stop,
}

#[derive(Debug, PartialEq, Eq, Clone, Copy)]
pub enum End {
    Finished,
    Stopped,
    NoTimers,
    Storm,
    TimeLimit,
}

pub struct Limits {
    pub max_virtual_ms: u64,
    pub max_steps: usize,
    pub latency_us: u64,
}
impl Default for Limits {
    fn default() -> Self {
        Limits { max_virtual_ms: 600_000, max_steps: 200_000, latency_us: 1000 }
    }
}

/// Poll `fut` until nobody is woken any more.
fn quiesce<F: Future>(fut: &mut Pin<&mut F>, flag: &Arc<Flag>, cx: &mut Context<'_>) -> bool {
    let mut n = 0usize;
    while flag.take() {
        if fut.as_mut().poll(cx).is_ready() {
            return true;
        }
        n += 1;
        if n > 100_000 {
            // something wakes itself on every poll: treat as quiescent; three such rounds in a row end the run as a storm
            SPINS.with(|s| s.set(s.get() + 1));
            return false;
        }
    }
    SPINS.with(|s| s.set(0));
    false
}

thread_local! {
    static SPINS: std::cell::Cell<usize> = const { std::cell::Cell::new(0) };
}

/// Drive the combined future `fut`; `script` is consulted at every quiescent point.
pub fn drive<F: Future>(mut fut: Pin<&mut F>, net: &NetRef, limits: &Limits, mut script: impl FnMut(&NetRef) -> Step) -> End {
    let flag = Flag::new();
    let waker = Waker::from(flag.clone());
    let mut cx = Context::from_waker(&waker);
    let mut steps = 0usize;
    let mut same_instant = 0usize;
    let mut last_now = sim::now_us();
    loop {
        if quiesce(&mut fut, &flag, &mut cx) {
            return End::Finished;
        }
        steps += 1;
        if steps > limits.max_steps || SPINS.with(|s| s.get()) >= 3 {
            SPINS.with(|s| s.set(0));
            return End::Storm;
        }
        if sim::now_ms() > limits.max_virtual_ms {
            return End::TimeLimit;
        }
        if sim::now_us() == last_now {
            same_instant += 1;
            if same_instant > 2000 {
                return End::Storm;
            }
        } else {
            same_instant = 0;
            last_now = sim::now_us();
        }
        match script(net) {
            Step::Deliver(i) => {
                let d = net.borrow_mut().wire.remove(i);
                if let Some(d) = d {
                    sim::advance_us(limits.latency_us);
                    net.borrow_mut().deliver(d.src, d.dst, d.data);
                }
            }
            Step::Dup(i) => {
                let d = net.borrow().wire.get(i).cloned();
                if let Some(d) = d {
                    sim::advance_us(limits.latency_us);
                    net.borrow_mut().deliver(d.src, d.dst, d.data);
                }
            }
            Step::Drop(i) => {
                net.borrow_mut().wire.remove(i);
            }
            Step::Inject { src, dst, data } => {
                sim::advance_us(limits.latency_us);
                net.borrow_mut().deliver(src, dst, data);
            }
            Step::NextTimer => {
                if !sim::advance_to_next() {
                    // double check with one forced poll round: an expired timer may just have been consumed
                    flag.set();
                    if quiesce(&mut fut, &flag, &mut cx) {
                        return End::Finished;
                    }
                    if !sim::advance_to_next() {
                        return End::NoTimers;
                    }
                }
            }
            Step::AdvanceMs(ms) => sim::advance_us(ms * 1000),
            Step::Poll => {}
            Step::Stop => return End::Stopped,
        }
        flag.set();
    }
}

/// What the wire tap knows about one datagram.
#[derive(Clone, Debug)]
pub struct Tap {
    pub id: usize,
    pub src: usize,
    pub dst: usize,
    pub t_ms: u64,
    pub len: usize,
    pub sess_id: u16,
    pub ctr: u32,
    pub encrypted: bool,
    /// protocol header fields; None if the datagram could not be decrypted with the known keys
    pub proto: Option<TapProto>,
    /// interned id of the exact bytes (same bytes <=> same id)
    pub bytes_id: usize,
}
#[derive(Clone, Debug)]
pub struct TapProto {
    pub exch_id: u16,
    pub initiator: bool,
    pub reliable: bool,
    pub ack: Option<u32>,
    pub proto_id: u16,
    pub opcode: u8,
    pub payload: Vec<u8>,
}

/// Decoder of tapped datagrams: knows, per (src node index, session id on the wire), the key and the
/// source node id the sender uses.
#[derive(Default)]
pub struct TapDecoder {
    pub keys: HashMap<(usize, u16), (CanonAeadKey, u64)>,
    interned: HashMap<Vec<u8>, usize>,
}

impl TapDecoder {
    pub fn intern(&mut self, data: &[u8]) -> usize {
        let n = self.interned.len();
        *self.interned.entry(data.to_vec()).or_insert(n)
    }
    pub fn decode(&mut self, d: &Dgram) -> Tap {
        let bytes_id = self.intern(&d.data);
        let mut copy = d.data.clone();
        let mut pb = ParseBuf::new(&mut copy);
        let mut hdr = PacketHdr::new();
        let mut tap = Tap { id: d.id, src: d.src, dst: d.dst, t_ms: d.t_ms, len: d.data.len(), sess_id: 0, ctr: 0, encrypted: false, proto: None, bytes_id };
        if hdr.decode_plain_hdr(&mut pb).is_err() {
            return tap;
        }
        tap.sess_id = hdr.plain.sess_id;
        tap.ctr = hdr.plain.ctr;
        tap.encrypted = hdr.plain.is_encrypted();
        let ok = if tap.encrypted {
            match self.keys.get(&(d.src, tap.sess_id)) {
                Some((key, nodeid)) => hdr.decode_remaining(test_only_crypto(), Some(key.reference()), *nodeid, &mut pb).is_ok(),
                None => false,
            }
        } else {
            hdr.decode_remaining(test_only_crypto(), None, 0, &mut pb).is_ok()
        };
        if ok {
            tap.proto = Some(TapProto {
                exch_id: hdr.proto.exch_id,
                initiator: hdr.proto.is_initiator(),
                reliable: hdr.proto.is_reliable(),
                ack: hdr.proto.get_ack(),
                proto_id: hdr.proto.proto_id,
                opcode: hdr.proto.proto_opcode,
                payload: pb.as_slice().to_vec(),
            });
        }
        tap
    }
}
