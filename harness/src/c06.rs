//! C06 - every Interaction Model operation is mediated by the access check.  For every vector TLC drew from
//! ImAccess.tla (node composition, ACL, requester, request) the harness builds that node on a real device with the
//! instrumented handler, runs the real request and reports what came back and which handler calls happened.

use serde_json::{json, Value};

use rs_matter::dm::Access;

use crate::imw::{acl_entry, run_request, AttrSpec, ClusterSpec, NodeSpec, Req};
use crate::util::{arg, read_ndjson, Trace};

fn decl(s: &str) -> Access {
    match s {
        "RV" => Access::RV,
        "RA" => Access::RA,
        "RWVM" => Access::RWVM,
        "RWVA" => Access::RWVA,
        "WO" => Access::WO,
        "WM" => Access::WM,
        "WA" => Access::WA,
        x => panic!("access {x}"),
    }
}

fn node_of(v: &Value) -> NodeSpec {
    let mut endpoints = Vec::new();
    for (i, ep) in v["node"].as_array().unwrap().iter().enumerate() {
        let cls = ep.as_array().unwrap();
        if cls.is_empty() {
            continue;
        }
        let mut clusters = Vec::new();
        for (k, c) in cls.iter().enumerate() {
            let mut attrs = vec![AttrSpec { id: 0, access: Access::RV, size: 2, list: None }];
            let mut a1 = decl(c["a1"].as_str().unwrap());
            if c["a1timed"] == true {
                a1 |= Access::TIMED_ONLY;
            }
            attrs.push(AttrSpec { id: 1, access: a1, size: 2, list: None });
            if c["a2"] != "absent" {
                attrs.push(AttrSpec { id: 2, access: decl(c["a2"].as_str().unwrap()), size: 2, list: None });
            }
            let mut cmds = Vec::new();
            if c["c0"] != "absent" {
                let mut a = decl(c["c0"].as_str().unwrap());
                if c["c0timed"] == true {
                    a |= Access::TIMED_ONLY;
                }
                if c["c0fab"] == true {
                    a |= Access::FAB_SCOPED;
                }
                cmds.push((0u32, a));
            }
            clusters.push(ClusterSpec { id: 101 + k as u32, attrs, cmds });
        }
        endpoints.push((1 + i as u16, clusters));
    }
    NodeSpec { endpoints, events: vec![] }
}

pub fn run(args: &[String]) -> i32 {
    let vecs = read_ndjson(&arg(args, "--behaviours").expect("--behaviours"));
    let mut tr = Trace::create(&arg(args, "--out").expect("--out"));
    for (vi, v) in vecs.iter().enumerate() {
        let spec = node_of(v);
        let acl: Vec<_> = v["acl"].as_array().unwrap().iter().map(acl_entry).collect();
        let pase = v["who"]["mode"] == "PASE";
        let comp = |x: &Value, cluster: bool| -> Option<i64> {
            let n = x.as_i64().unwrap();
            if n < 0 { None } else if cluster { Some(100 + n) } else { Some(n) }
        };
        let req = Req {
            kind: v["req"]["kind"].as_str().unwrap().to_string(),
            paths: v["req"]["paths"].as_array().unwrap().iter().map(|p| (comp(&p["ep"], false).map(|x| x as u16), comp(&p["cl"], true).map(|x| x as u32), comp(&p["leaf"], false).map(|x| x as u32))).collect(),
            timed: v["req"]["timed"] == true,
            ev_paths: vec![],
            late: v["req"]["late"] == true,
            dv_filters: vec![],
            ev_min: None,
            claim: if v["req"]["claim"].is_boolean() { v["req"]["claim"] == true } else { v["req"]["timed"] == true },
            chunk2: match v["req"]["paths2"].as_array() {
                Some(a) if !a.is_empty() => Some((
                    a.iter().map(|p| (comp(&p["ep"], false).map(|x| x as u16), comp(&p["cl"], true).map(|x| x as u32), comp(&p["leaf"], false).map(|x| x as u32))).collect(),
                    v["req"]["claim2"] == true,
                    v["req"]["late2"] == true,
                )),
                _ => None,
            },
        };
        let o = crate::util::catch(|| run_request(&spec, &acl, pase, &req, 400));
        match o {
            Ok(o) => tr.ev(json!({"ev": "Im", "i": vi, "items": o.items, "handler": o.handler, "error": o.error, "datagrams": o.datagrams})),
            Err(m) => tr.ev(json!({"ev": "Im", "i": vi, "items": [], "handler": [], "error": format!("PANIC {m}"), "datagrams": 0})),
        }
    }
    tr.finish();
    println!("{}", json!({"vectors": vecs.len()}));
    0
}
