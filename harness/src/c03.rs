//! C03 - secured messages are accepted only if authentic for that session and direction.  For every case TLC
//! enumerated from Packet.tla (session mode x message shape x payload length x mutation class, with the reference
//! verdict) the harness captures genuine datagrams produced by the real encoder of node A, applies the concrete
//! mutation, injects the result into the real receive path of node B (or A, for a reflection), and observes what the
//! receiving application got and whether the targeted session changed (snapshot hook).  One case per (mode, shape,
//! length) additionally flips every single bit of a genuine datagram.

use core::cell::RefCell;
use core::num::NonZeroU8;
use core::pin::pin;

use embassy_futures::select::{select, select4, Either};
use serde_json::{json, Value};

use rs_matter::crypto::{test_only_crypto, CanonAeadKey};
use rs_matter::dm::devices::test::{TEST_DEV_ATT, TEST_DEV_COMM, TEST_DEV_DET};
use rs_matter::error::Error;
use rs_matter::transport::exchange::{Exchange, MessageMeta};
use rs_matter::transport::network::NoNetwork;
use rs_matter::transport::packet::PacketHdr;
use rs_matter::transport::session::{ReservedSession, SessionMode};
use rs_matter::utils::storage::{ParseBuf, WriteBuf};
use rs_matter::verif::SessionSnap;
use rs_matter::Matter;

use crate::sim::{self, Rx, Tx};
use crate::util::{arg, read_ndjson, Trace};
use crate::world::{drive, Limits, Step};

const PROTO: u16 = 0x7777;
const NODE_A: u64 = 100;
const NODE_B: u64 = 200;

pub fn key(b: u8) -> CanonAeadKey {
    let mut k = CanonAeadKey::new();
    k.access_mut().copy_from_slice(&[b; 16]);
    k
}

/// Plant session `s` (1 or 2) on node `m`; `is_a`: this is node A's end.
pub fn plant(m: &Matter, s: u8, is_a: bool, pase: bool) -> u32 {
    m.with_state(|st| {
        if st.fabrics.iter().count() == 0 {
            st.fabrics.add_with_post_init(|_| Ok(())).unwrap();
        }
    });
    let (k_ab, k_ba) = (key(0x10 + s), key(0x20 + s));
    let (local_node, peer_node) = if pase { (0, 0) } else if is_a { (NODE_A, NODE_B + (s as u64 - 1)) } else { (NODE_B + (s as u64 - 1), NODE_A) };
    let (local_sid, peer_sid) = if is_a { (20 + s as u16, 10 + s as u16) } else { (10 + s as u16, 20 + s as u16) };
    let (dec, enc) = if is_a { (&k_ba, &k_ab) } else { (&k_ab, &k_ba) };
    let mode = if pase { SessionMode::Pase { fab_idx: 0 } } else { SessionMode::Case { fab_idx: NonZeroU8::new(1).unwrap(), cat_ids: Default::default() } };
    let mut sess = ReservedSession::reserve_now(m, test_only_crypto()).unwrap();
    sess.update(local_node, peer_node, peer_sid, local_sid, sim::addr(if is_a { 1 } else { 0 }), mode, Some(dec.reference()), Some(enc.reference()), None, None).unwrap();
    sess.complete();
    m.with_state(|st| st.verif_snapshot().sessions.sessions.iter().find(|x| x.local_sess_id == local_sid).unwrap().id)
}

fn snap(m: &Matter, local_sid: u16) -> Option<SessionSnap> {
    m.with_state(|st| st.verif_snapshot().sessions.sessions.into_iter().find(|x| x.local_sess_id == local_sid)).map(|mut s| {
        s.last_use_ms = 0;
        s
    })
}

/// Secured datagrams too short to carry an authentication tag: the unencrypted header of a genuine datagram with a fresh
/// counter, followed by 6..15 bytes that read like a clear-text protocol header (initiator flag, with / without the
/// reliability flag, a new exchange id, the test protocol) and a few payload bytes.
pub fn runts(g1: &[u8], hl: usize) -> Vec<(String, Vec<u8>)> {
    let mut out = Vec::new();
    let mut k = 0u32;
    for n in 0..=15usize {
        for flags in [0x01u8, 0x05, 0x03] {
            let mut d = g1[..hl].to_vec();
            let ctr = u32::from_le_bytes([d[4], d[5], d[6], d[7]]).wrapping_add(40 + k);
            d[4..8].copy_from_slice(&ctr.to_le_bytes());
            k += 1;
            let mut body = vec![flags, 1, 0x70 + n as u8, 0x33, (PROTO & 0xff) as u8, (PROTO >> 8) as u8];
            if flags & 0x02 != 0 {
                body.extend_from_slice(&[0, 0, 0, 0]);
            }
            while body.len() < n {
                body.push(1);
            }
            body.truncate(n);
            d.extend_from_slice(&body);
            out.push((format!("runt{n}f{flags}"), d));
        }
    }
    out
}

fn plain_hdr_len(d: &[u8]) -> usize {
    let mut copy = d.to_vec();
    let mut pb = ParseBuf::new(&mut copy);
    let mut hdr = PacketHdr::new();
    let before = pb.as_slice().len();
    if hdr.decode_plain_hdr(&mut pb).is_err() {
        return 8;
    }
    before - pb.as_slice().len()
}

/// decrypt G with (key, node) and re-encrypt with (key2, node2), optionally re-addressed
fn reencode(g: &[u8], dec: &CanonAeadKey, dec_node: u64, enc: &CanonAeadKey, enc_node: u64) -> Option<Vec<u8>> {
    let mut copy = g.to_vec();
    let mut pb = ParseBuf::new(&mut copy);
    let mut hdr = PacketHdr::new();
    hdr.decode_plain_hdr(&mut pb).ok()?;
    hdr.decode_remaining(test_only_crypto(), Some(dec.reference()), dec_node, &mut pb).ok()?;
    let payload = pb.as_slice().to_vec();
    let mut buf = vec![0u8; 1600];
    let mut wb = WriteBuf::new(&mut buf);
    wb.reserve(PacketHdr::HDR_RESERVE).ok()?;
    wb.append(&payload).ok()?;
    hdr.encode(test_only_crypto(), Some(enc.reference()), enc_node, &mut wb).ok()?;
    Some(wb.as_slice().to_vec())
}

struct Outcome {
    events: Vec<Value>,
}

fn one_case(c: &Value) -> Outcome {
    sim::clock_reset();
    let pase = c["mode"] == "pase";
    let reliable = c["shape"] == "reliable";
    let len = c["len"].as_u64().unwrap() as usize;
    let cls = c["cls"].as_str().unwrap().to_string();
    let net = sim::new_net();
    let a = Matter::new(&TEST_DEV_DET, TEST_DEV_COMM, &TEST_DEV_ATT, 5540);
    let b = Matter::new(&TEST_DEV_DET, TEST_DEV_COMM, &TEST_DEV_ATT, 5540);
    let a_s1 = plant(&a, 1, true, pase);
    plant(&a, 2, true, pase);
    plant(&b, 1, false, pase);
    plant(&b, 2, false, pase);
    let crypto = test_only_crypto();
    let got: RefCell<Vec<(usize, u8, Vec<u8>)>> = RefCell::new(Vec::new());
    let payload = |i: u8| -> Vec<u8> { (0..len).map(|k| (k as u8).wrapping_mul(7).wrapping_add(i)).collect() };

    let app_a = async {
        let r: Result<(), Error> = async {
            // a reliable send waits for the ack: race it against a short timer, and use one exchange per message
            let mut exs = [Exchange::initiate_for_session(&a, &crypto, a_s1)?, Exchange::initiate_for_session(&a, &crypto, a_s1)?];
            for i in 1..=2u8 {
                let p = payload(i);
                let ex = if reliable { &mut exs[i as usize - 1] } else { &mut exs[0] };
                let s = ex.send(MessageMeta::new(PROTO, i, reliable), &p);
                let _ = select(s, embassy_time::Timer::after_millis(1)).await;
            }
            core::future::pending::<()>().await;
            Ok(())
        }
        .await;
        let _ = r;
        core::future::pending::<()>().await
    };
    let acceptor = |m: &'static str, who: usize, mm: *const Matter<'static>| (m, who, mm);
    let _ = acceptor;
    let accept_b = async {
        loop {
            let Ok(mut ex) = Exchange::accept(&b).await else { break };
            loop {
                match select(ex.recv(), embassy_time::Timer::after_millis(5)).await {
                    Either::First(Ok(rx)) => {
                        got.borrow_mut().push((1, rx.meta().proto_opcode, rx.payload().to_vec()));
                    }
                    _ => break,
                }
            }
        }
        core::future::pending::<()>().await
    };
    let accept_a = async {
        loop {
            let Ok(mut ex) = Exchange::accept(&a).await else { break };
            loop {
                match select(ex.recv(), embassy_time::Timer::after_millis(5)).await {
                    Either::First(Ok(rx)) => {
                        got.borrow_mut().push((0, rx.meta().proto_opcode, rx.payload().to_vec()));
                    }
                    _ => break,
                }
            }
        }
        core::future::pending::<()>().await
    };
    let apps = async { select4(app_a, accept_a, accept_b, core::future::pending::<()>()).await };
    let mut all = pin!(select4(
        a.run(&crypto, Tx(net.clone(), 0), Rx(net.clone(), 0), NoNetwork),
        b.run(&crypto, Tx(net.clone(), 1), Rx(net.clone(), 1), NoNetwork),
        apps,
        core::future::pending::<()>()
    ));

    let mut events: Vec<Value> = Vec::new();
    let mut held: Vec<Vec<u8>> = Vec::new();
    // work list of injections: (label, bytes, to node, targeted local session id on that node, authentic)
    let mut todo: Vec<(String, Vec<u8>, usize, u16, bool)> = Vec::new();
    let mut prepared = false;
    let mut current: Option<(String, usize, u16, bool, Option<SessionSnap>, usize)> = None;
    let mut idle_rounds = 0;
    let mut settled = false;
    let (k1ab, _k1ba) = (key(0x11), key(0x21));
    let node_a = if pase { 0 } else { NODE_A };

    let end = drive(all.as_mut(), &net, &Limits { max_virtual_ms: 60_000, ..Default::default() }, |net| {
        // capture everything A sends to B; drop what B sends (acks, SessionNotFound answers) after counting it
        {
            let mut n = net.borrow_mut();
            while let Some(d) = n.wire.pop_front() {
                if d.src == 0 && held.len() < 2 && !prepared {
                    held.push(d.data);
                }
            }
        }
        // give the receiving application a moment (it handles one exchange at a time), then compare what changed
        if current.is_some() && !settled {
            settled = true;
            return Step::AdvanceMs(20);
        }
        settled = false;
        if let Some((label, to, sid, authentic, before, got_before)) = current.take() {
            let m = if to == 0 { &a } else { &b };
            let after = snap(m, sid);
            let delivered: Vec<(u8, usize)> = got.borrow().iter().skip(got_before).filter(|g| g.0 == to).map(|g| (g.1, g.2.len())).collect();
            let intact = got.borrow().iter().skip(got_before).all(|g| g.2 == payload(g.1));
            events.push(json!({"ev": "Inject", "label": label, "authentic": authentic, "delivered": !delivered.is_empty(),
                               "delivered_what": delivered, "intact": intact, "silent": before == after}));
        }
        if held.len() < 2 {
            idle_rounds += 1;
            if idle_rounds > 50 {
                events.push(json!({"ev": "Setup", "ok": false}));
                return Step::Stop;
            }
            return Step::AdvanceMs(1);
        }
        if !prepared {
            prepared = true;
            let (g1, g2) = (held[0].clone(), held[1].clone());
            let hl = plain_hdr_len(&g1);
            let flip = |pos: usize, bit: u8| {
                let mut d = g1.clone();
                d[pos] ^= 1 << bit;
                d
            };
            let mut push = |label: &str, bytes: Vec<u8>, to: usize, sid: u16, auth: bool| todo.push((label.to_string(), bytes, to, sid, auth));
            match cls.as_str() {
                "genuine" => {}
                "bitHdrFlags" => push("mut", flip(0, 2), 1, 11, false),
                "bitSessId" => push("mut", flip(1, 6), 1, 11, false),
                "bitSecFlags" => push("mut", flip(3, 0), 1, 11, false),
                "bitCounter" => push("mut", flip(4, 0), 1, 11, false),
                "bitCipher" => push("mut", flip(hl, 3), 1, 11, false),
                "bitTag" => push("mut", flip(g1.len() - 1, 7), 1, 11, false),
                "truncate" => push("mut", g1[..g1.len() - 1].to_vec(), 1, 11, false),
                "extend" => {
                    let mut d = g1.clone();
                    d.push(0x5a);
                    push("mut", d, 1, 11, false)
                }
                "runt" => {
                    for (label, d) in runts(&g1, hl) {
                        push(&label, d, 1, 11, false);
                    }
                }
                "transplantHeader" => {
                    let mut d = g2[..hl].to_vec();
                    d.extend_from_slice(&g1[hl..]);
                    push("mut", d, 1, 11, false)
                }
                "otherSession" => {
                    // the same datagram re-addressed to session 2 (still protected with session 1's key and header)
                    let mut d = g1.clone();
                    d[1] = 12;
                    push("mut", d, 1, 12, false)
                }
                "reflect" => push("mut", g1.clone(), 0, 21, false),
                "otherSourceNode" => push("mut", reencode(&g1, &k1ab, node_a, &k1ab, 300).unwrap(), 1, 11, false),
                "replay" => {
                    push("genuine1", g1.clone(), 1, 11, true);
                    push("mut", g1.clone(), 1, 11, false);
                }
                "allBits" => {
                    for pos in 0..g1.len() {
                        for bit in 0..8u8 {
                            push(&format!("bit{}", pos * 8 + bit as usize), flip(pos, bit), 1, 11, false);
                        }
                    }
                }
                x => panic!("class {x}"),
            }
            if cls != "replay" {
                todo.push(("genuine1".into(), g1, 1, 11, true));
            }
            todo.push(("genuine2".into(), g2, 1, 11, true));
            todo.reverse();
        }
        match todo.pop() {
            Some((label, bytes, to, sid, auth)) => {
                let m = if to == 0 { &a } else { &b };
                crate::util::beat(&format!("{}:{}", CASE.with(|x| x.get()), label));
                current = Some((label, to, sid, auth, snap(m, sid), got.borrow().len()));
                Step::Inject { src: 1 - to, dst: to, data: bytes }
            }
            None => Step::Stop,
        }
    });
    if let (crate::world::End::Storm, Some((label, to, sid, authentic, before, got_before))) = (&end, current.take()) {
        // the stack polls itself for ever after this injection: report what is observable and stop
        let m = if to == 0 { &a } else { &b };
        let delivered = got.borrow().iter().skip(got_before).any(|g| g.0 == to);
        events.push(json!({"ev": "Inject", "label": label, "authentic": authentic, "delivered": delivered, "delivered_what": [],
                           "intact": true, "silent": before == snap(m, sid), "storm": true}));
    }
    Outcome { events }
}

/// C04 end to end: replay receive-counter behaviours as properly encrypted datagrams with those counters through the
/// whole receive path of node B (transport -> session lookup -> decryption -> receive window -> exchange -> application);
/// the verdict is whether B's application gets the message.
fn ctr_run(steps: &[Value], pase: bool, tr: &mut Trace) -> (usize, usize) {
    sim::clock_reset();
    let net = sim::new_net();
    let a = Matter::new(&TEST_DEV_DET, TEST_DEV_COMM, &TEST_DEV_ATT, 5540);
    let b = Matter::new(&TEST_DEV_DET, TEST_DEV_COMM, &TEST_DEV_ATT, 5540);
    let a_s1 = plant(&a, 1, true, pase);
    plant(&b, 1, false, pase);
    let crypto = test_only_crypto();
    let got: RefCell<Vec<u32>> = RefCell::new(Vec::new());
    let app_a = async {
        if let Ok(mut ex) = Exchange::initiate_for_session(&a, &crypto, a_s1) {
            let _ = ex.send(MessageMeta::new(PROTO, 1, false), &[0u8; 4]).await;
            core::future::pending::<()>().await;
        }
        core::future::pending::<()>().await
    };
    let app_b = async {
        if let Ok(mut ex) = Exchange::accept(&b).await {
            loop {
                match ex.recv().await {
                    Ok(rx) => {
                        let p = rx.payload();
                        if p.len() == 4 {
                            got.borrow_mut().push(u32::from_le_bytes([p[0], p[1], p[2], p[3]]));
                        }
                    }
                    Err(_) => break,
                }
            }
        }
        core::future::pending::<()>().await
    };
    let mut all = pin!(select4(
        a.run(&crypto, Tx(net.clone(), 0), Rx(net.clone(), 0), NoNetwork),
        b.run(&crypto, Tx(net.clone(), 1), Rx(net.clone(), 1), NoNetwork),
        app_a,
        app_b
    ));
    let k1ab = key(0x11);
    let node_a = if pase { 0 } else { NODE_A };
    let mut template: Option<Vec<u8>> = None;
    let mut i = 0usize;
    let mut last: Option<(u32, usize)> = None;
    let (mut n, mut matched) = (0usize, 0usize);
    let mut idle = 0;
    drive(all.as_mut(), &net, &Limits { max_virtual_ms: 3_000_000, ..Default::default() }, |net| {
        {
            let mut w = net.borrow_mut();
            while let Some(d) = w.wire.pop_front() {
                if d.src == 0 && template.is_none() {
                    template = Some(d.data);
                }
            }
        }
        let Some(t) = template.as_ref() else {
            idle += 1;
            return if idle > 50 { Step::Stop } else { Step::AdvanceMs(1) };
        };
        if let Some((c, before)) = last.take() {
            let v = got.borrow().len() > before;
            let st = &steps[i - 1];
            n += 1;
            if Some(v) == st["v"].as_bool() {
                matched += 1;
            }
            tr.ev(json!({"ev": "Recv", "kind": "sec", "peer": 0, "h": c >> 16, "lo": c & 0xffff, "v": v, "evicted": -1}));
        }
        if i >= steps.len() {
            return Step::Stop;
        }
        let st = &steps[i];
        i += 1;
        let c = ((st["c"][0].as_u64().unwrap() as u32) << 16) | st["c"][1].as_u64().unwrap() as u32;
        // the template datagram with this counter and the step number as payload, re-encrypted
        let mut copy = t.clone();
        let mut pb = ParseBuf::new(&mut copy);
        let mut hdr = PacketHdr::new();
        hdr.decode_plain_hdr(&mut pb).unwrap();
        hdr.decode_remaining(test_only_crypto(), Some(k1ab.reference()), node_a, &mut pb).unwrap();
        hdr.plain.ctr = c;
        let mut buf = vec![0u8; 256];
        let mut wb = WriteBuf::new(&mut buf);
        wb.reserve(PacketHdr::HDR_RESERVE).unwrap();
        wb.append(&(i as u32).to_le_bytes()).unwrap();
        hdr.encode(test_only_crypto(), Some(k1ab.reference()), node_a, &mut wb).unwrap();
        last = Some((c, got.borrow().len()));
        Step::Inject { src: 0, dst: 1, data: wb.as_slice().to_vec() }
    });
    (n, matched)
}

pub fn run_ctr(args: &[String]) -> i32 {
    let behaviours = read_ndjson(&arg(args, "--behaviours").expect("--behaviours"));
    let mut tr = Trace::create(&arg(args, "--out").expect("--out"));
    let (mut n, mut m, mut runs) = (0usize, 0usize, 0usize);
    for (bi, b) in behaviours.iter().enumerate() {
        let steps = b.as_array().unwrap();
        if steps.is_empty() || steps[0]["kind"] != "sec" {
            continue;
        }
        tr.ev(json!({"ev": "Reset", "run": bi}));
        // the first datagram of the run (the genuine one the template is taken from) is never handed to B
        let (a, b2) = ctr_run(steps, runs % 2 == 1, &mut tr);
        n += a;
        m += b2;
        runs += 1;
    }
    tr.finish();
    println!("{}", json!({"behaviours": runs, "steps": n, "matched_steps": m}));
    0
}

thread_local! {
    pub static CASE: core::cell::Cell<usize> = const { core::cell::Cell::new(0) };
}

pub fn run(args: &[String]) -> i32 {
    let cases = read_ndjson(&arg(args, "--behaviours").expect("--behaviours"));
    let out = arg(args, "--out").expect("--out");
    // --from i: skip the first i cases (the check goes on after a case in which the stack never returned from a poll)
    let from = crate::util::arg_u64(args, "--from", 0) as usize;
    let mut tr = Trace::create(&out);
    crate::util::watchdog(&out, 20);
    let mut n_inj = 0usize;
    for (ci, c) in cases.iter().enumerate().skip(from) {
        crate::util::beat(&format!("{ci}:start"));
        CASE.with(|x| x.set(ci));
        let o = if c["mode"] == "group" { Outcome { events: crate::c03g::one_case(c) } } else { one_case(c) };
        for mut e in o.events {
            e["case"] = json!(ci);
            n_inj += 1;
            tr.ev(e);
        }
        tr.flush();
    }
    tr.finish();
    println!("{}", json!({"cases": cases.len(), "injections": n_inj}));
    0
}
