//! C02 / C20 / C01 driver: every behaviour is a list of operations for the handshake world (hs.rs); the first
//! element may be a configuration record {"op":"Config", "fill_busy":n, "fill_idle":m, "fabric":bool}.

use serde_json::{json, Value};

use crate::hs::{run_scenario, Scenario};
use crate::util::{arg, read_ndjson, Trace};

pub fn run(args: &[String]) -> i32 {
    let behaviours = read_ndjson(&arg(args, "--behaviours").expect("--behaviours"));
    let mut tr = Trace::create(&arg(args, "--out").expect("--out"));
    let mut ends = std::collections::HashMap::<String, usize>::new();
    for (bi, b) in behaviours.iter().enumerate() {
        let ops = b.as_array().unwrap();
        let (cfg, rest): (Value, &[Value]) = if ops.first().map(|o| o["op"] == "Config").unwrap_or(false) { (ops[0].clone(), &ops[1..]) } else { (json!({}), &ops[..]) };
        tr.ev(json!({"ev": "Reset", "run": bi}));
        let sc = Scenario { ops: rest, fill_busy: cfg["fill_busy"].as_u64().unwrap_or(0) as usize, fill_idle: cfg["fill_idle"].as_u64().unwrap_or(0) as usize, fill_expired: cfg["fill_expired"].as_u64().unwrap_or(0) as usize, with_fabric: cfg["fabric"].as_bool().unwrap_or(false), second_fabric: cfg["second_fabric"].as_bool().unwrap_or(false),
                            foreign2: cfg["foreign2"].as_bool().unwrap_or(false), wrong_ipk2: cfg["wrong_ipk2"].as_bool().unwrap_or(false), stall_ms: cfg["stall_ms"].as_u64().unwrap_or(0),
                            validity2: match cfg["validity2"].as_str() { Some("expired") => "expired", Some("notyet") => "notyet", Some("forged") => "forged", _ => "" } };
        let end = run_scenario(&sc, &mut tr);
        *ends.entry(format!("{:?}", end)).or_default() += 1;
    }
    tr.finish();
    println!("{}", json!({"behaviours": behaviours.len(), "ends": ends}));
    0
}
