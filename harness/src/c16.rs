//! C16 - the TLV codec.  For every value tree TLC enumerated from Tlv.tla (with its reference encoding and the
//! reference verdict of every mutation of that encoding):
//!  * writes the tree with the real TLVWrite and compares the bytes with the reference encoding;
//!  * decodes the reference encoding with the real reader, compares the tree, re-encodes what was decoded;
//!  * feeds every mutated input to every public accessor of the real reader (catching panics, with an iteration
//!    budget), and where the reference says well-formed requires the reader to decode it and re-encode it to the
//!    same bytes.

use serde_json::{json, Value};

use rs_matter::tlv::{FromTLV, Nullable, TLVElement, TLVTag, TLVValue, TLVWrite, ToTLV};
use rs_matter::utils::storage::WriteBuf;

use crate::util::{arg, catch, read_ndjson, Trace};

const BUDGET: usize = 5000;

fn bytes_of(v: &Value) -> Vec<u8> {
    v.as_array().map(|a| a.iter().map(|x| x.as_u64().unwrap() as u8).collect()).unwrap_or_default()
}
fn tag_of(t: &Value) -> TLVTag {
    let b = bytes_of(&t["b"]);
    let u16at = |i: usize| u16::from_le_bytes([b[i], b[i + 1]]);
    match t["f"].as_str().unwrap() {
        "anon" => TLVTag::Anonymous,
        "ctx" => TLVTag::Context(b[0]),
        "com2" => TLVTag::CommonPrf16(u16at(0)),
        "com4" => TLVTag::CommonPrf32(u32::from_le_bytes([b[0], b[1], b[2], b[3]])),
        "imp2" => TLVTag::ImplPrf16(u16at(0)),
        "imp4" => TLVTag::ImplPrf32(u32::from_le_bytes([b[0], b[1], b[2], b[3]])),
        "fq6" => TLVTag::FullQual48 { vendor_id: u16at(0), profile: u16at(2), tag: u16at(4) },
        f => panic!("tag form {f}"),
    }
}

/// Write the tree with the real writer, using the typed (explicit width) entry point.
fn write_tree(w: &mut WriteBuf, e: &Value) -> Result<(), rs_matter::error::Error> {
    let tag = tag_of(&e["tag"]);
    let v = bytes_of(&e["v"]);
    let width = e["w"].as_u64().unwrap();
    let le = |n: usize| {
        let mut a = [0u8; 8];
        a[..n].copy_from_slice(&v[..n]);
        u64::from_le_bytes(a)
    };
    let s;
    let val = match (e["k"].as_str().unwrap(), width) {
        ("int", 1) => TLVValue::S8(v[0] as i8),
        ("int", 2) => TLVValue::S16(le(2) as u16 as i16),
        ("int", 4) => TLVValue::S32(le(4) as u32 as i32),
        ("int", 8) => TLVValue::S64(le(8) as i64),
        ("uint", 1) => TLVValue::U8(v[0]),
        ("uint", 2) => TLVValue::U16(le(2) as u16),
        ("uint", 4) => TLVValue::U32(le(4) as u32),
        ("uint", 8) => TLVValue::U64(le(8)),
        ("false", _) => TLVValue::False,
        ("true", _) => TLVValue::True,
        ("null", _) => TLVValue::Null,
        ("f32", _) => TLVValue::F32(f32::from_le_bytes([v[0], v[1], v[2], v[3]])),
        ("f64", _) => TLVValue::F64(f64::from_le_bytes(v[..8].try_into().unwrap())),
        ("utf8", wd) => {
            s = String::from_utf8(v.clone()).unwrap();
            match wd {
                1 => TLVValue::Utf8l(&s),
                2 => TLVValue::Utf16l(&s),
                4 => TLVValue::Utf32l(&s),
                _ => TLVValue::Utf64l(&s),
            }
        }
        ("bytes", 1) => TLVValue::Str8l(&v),
        ("bytes", 2) => TLVValue::Str16l(&v),
        ("bytes", 4) => TLVValue::Str32l(&v),
        ("bytes", _) => TLVValue::Str64l(&v),
        ("struct", _) | ("array", _) | ("list", _) => {
            match e["k"].as_str().unwrap() {
                "struct" => w.start_struct(&tag)?,
                "array" => w.start_array(&tag)?,
                _ => w.start_list(&tag)?,
            }
            for c in e["ch"].as_array().unwrap() {
                write_tree(w, c)?;
            }
            return w.end_container();
        }
        (k, wd) => panic!("kind {k}/{wd}"),
    };
    w.tlv(&tag, &val)
}

/// Decode with the real reader and re-encode what was decoded (typed writer): Ok(bytes) or Err.
fn reencode(e: &TLVElement, w: &mut WriteBuf, steps: &mut usize, depth: usize) -> Result<(), String> {
    *steps += 1;
    if *steps > BUDGET {
        return Err("SPIN".into());
    }
    if depth > 16 {
        return Err("depth".into());
    }
    let tag = e.tag().map_err(|x| format!("{:?}", x.code()))?;
    let val = e.value().map_err(|x| format!("{:?}", x.code()))?;
    match val {
        TLVValue::Struct | TLVValue::Array | TLVValue::List => {
            w.tlv(&tag, &val).map_err(|x| format!("{:?}", x.code()))?;
            let seq = e.container().map_err(|x| format!("{:?}", x.code()))?;
            for c in seq.iter() {
                *steps += 1;
                if *steps > BUDGET {
                    return Err("SPIN".into());
                }
                let c = c.map_err(|x| format!("{:?}", x.code()))?;
                reencode(&c, w, steps, depth + 1)?;
            }
            w.end_container().map_err(|x| format!("{:?}", x.code()))
        }
        TLVValue::EndCnt => Err("endcnt".into()),
        v => w.tlv(&tag, &v).map_err(|x| format!("{:?}", x.code())),
    }
}

/// What `tlv_iter()` over the content of the container `e` has to yield: the tag of every element in document order,
/// nested containers as their start, their elements and "END".
fn flat(e: &Value, out: &mut Vec<String>) {
    for c in e["ch"].as_array().unwrap() {
        out.push(format!("{:?}", tag_of(&c["tag"])));
        if matches!(c["k"].as_str().unwrap(), "struct" | "array" | "list") {
            flat(c, out);
            out.push("END".into());
        }
    }
}

/// Accessors whose results are compared with the reference tree (valid encodings only): the flattening iterator, the
/// generic re-encoder of a decoded element, the callback string writers.
fn compare(tree: &Value, refb: &[u8]) -> Vec<String> {
    let mut bad = Vec::new();
    let el = TLVElement::new(refb);
    let k = tree["k"].as_str().unwrap();
    if matches!(k, "struct" | "array" | "list") {
        let mut want = Vec::new();
        flat(tree, &mut want);
        match el.container() {
            Ok(seq) => {
                let got: Vec<String> = seq.tlv_iter().take(BUDGET).map(|t| match t {
                    Ok(t) => if matches!(t.value, TLVValue::EndCnt) { "END".into() } else { format!("{:?}", t.tag) },
                    Err(e) => format!("ERR {:?}", e.code()),
                }).collect();
                if got != want {
                    bad.push(format!("tlv_iter yields {:?}, the container holds {:?}", got, want));
                }
            }
            Err(e) => bad.push(format!("container(): {:?}", e.code())),
        }
    }
    // TLVElement::to_tlv reproduces the element byte for byte (whatever the width of its length fields)
    match el.tag() {
        Ok(tag) => {
            let mut out = vec![0u8; refb.len() + 64];
            let mut w = WriteBuf::new(&mut out);
            match el.to_tlv(&tag, &mut w) {
                Ok(()) => if w.as_slice() != refb { bad.push(format!("TLVElement::to_tlv gives {:?}", &w.as_slice()[..w.as_slice().len().min(12)])); },
                Err(e) => bad.push(format!("TLVElement::to_tlv: {:?}", e.code())),
            }
        }
        Err(e) => bad.push(format!("tag(): {:?}", e.code())),
    }
    // the byte-iterator encoder (TLV::bytes_iter, what the iterator-based ToTLV implementations emit) of a leaf
    if !matches!(k, "struct" | "array" | "list") {
        match el.tlv() {
            Ok(tlv) => {
                let got: Vec<u8> = tlv.bytes_iter().take(refb.len() + 16).collect();
                if got != refb { bad.push(format!("TLV::bytes_iter emits {} bytes {:?}... instead of the {} of the encoding", got.len(), &got[..got.len().min(12)], refb.len())); }
            }
            Err(e) => bad.push(format!("tlv(): {:?}", e.code())),
        }
    }
    // the callback writers pick the shortest length field themselves
    if matches!(k, "utf8" | "bytes") {
        let v = bytes_of(&tree["v"]);
        let minimal = tree["w"].as_u64().unwrap() == if v.len() <= 255 { 1 } else { 2 };
        if minimal {
            let tag = tag_of(&tree["tag"]);
            let mut out = vec![0u8; refb.len() + 64];
            let mut w = WriteBuf::new(&mut out);
            let r = if k == "utf8" {
                w.utf8_cb(&tag, |buf| { buf[..v.len()].copy_from_slice(&v); Ok(v.len()) })
            } else {
                w.str_cb(&tag, |buf| { buf[..v.len()].copy_from_slice(&v); Ok(v.len()) })
            };
            match r {
                Ok(()) => if w.as_slice() != refb { bad.push(format!("{}_cb writes {:?}...", if k == "utf8" { "utf8" } else { "str" }, &w.as_slice()[..w.as_slice().len().min(8)])); },
                Err(e) => bad.push(format!("cb writer: {:?}", e.code())),
            }
        }
    }
    bad
}

/// Call every public accessor; the results do not matter, only that each returns.
fn poke(b: &[u8]) -> Result<(), String> {
    let e = TLVElement::new(b);
    let _ = e.is_empty();
    let _ = e.control();
    let _ = e.tag();
    let _ = e.value();
    let _ = e.tlv();
    let _ = e.raw_data();
    let _ = e.raw_value();
    let _ = (e.i8(), e.u8(), e.i16(), e.u16(), e.i32(), e.u32(), e.i64(), e.u64());
    let _ = (e.f32(), e.f64(), e.str(), e.utf8(), e.octets(), e.bool(), e.null(), e.is_container());
    let _ = (e.ctx(), e.try_ctx(), e.confirm_anon());
    for seq in [e.structure(), e.array(), e.list(), e.container()].into_iter().flatten() {
        let _ = seq.raw_value();
        let _ = seq.ctx(1);
        let _ = seq.find_ctx(2);
        let mut n = 0;
        for _ in seq.iter() {
            n += 1;
            if n > BUDGET {
                return Err("SPIN: iter() yields items for ever".into());
            }
        }
        n = 0;
        for _ in seq.tlv_iter() {
            n += 1;
            if n > BUDGET {
                return Err("SPIN: tlv_iter() yields items for ever".into());
            }
        }
    }
    // Display / Debug walk the element recursively
    use core::fmt::Write;
    let mut s = String::new();
    let _ = write!(&mut s, "{}", e); // a Display error is a value, not a panic
    let _ = write!(&mut s, "{:?}", e);
    Ok(())
}

#[derive(Debug, PartialEq, Clone, ToTLV, FromTLV)]
struct Ints {
    a: i64,
    b: u64,
    c: i32,
    d: u32,
    e: i16,
    f: u16,
    g: i8,
    h: u8,
    n: Nullable<i64>,
    o: Option<u64>,
}

/// What an encoded integer element denotes according to the grammar (type code -> width; two's complement / unsigned).
fn ref_decode_int(b: &[u8]) -> Option<(bool, [u8; 8])> {
    let ty = b.first()? & 0x1f;
    if ty > 7 || b[0] >> 5 != 0 {
        return None;
    }
    let w = 1usize << (ty & 3);
    if b.len() != 1 + w {
        return None;
    }
    let signed = ty < 4;
    let fill = if signed && b[w] >= 128 { 0xff } else { 0 };
    let mut v = [fill; 8];
    v[..w].copy_from_slice(&b[1..1 + w]);
    Some((signed, v))
}

/// Integer values through the value-typed entry points of the writer, the primitive and the derived encoders.
fn run_ints(path: &str, tr: &mut Trace) -> (usize, usize) {
    let vals = read_ndjson(path);
    let (mut n, mut bad) = (0usize, 0usize);
    for v in vals.iter() {
        let b8: [u8; 8] = bytes_of(&v["v"]).try_into().unwrap();
        let (sv, uv) = (i64::from_le_bytes(b8), u64::from_le_bytes(b8));
        let fits_s = |w: u64| v["fitsS"][w.to_string()].as_bool().unwrap();
        let fits_u = |w: u64| v["fitsU"][w.to_string()].as_bool().unwrap();
        let t = TLVTag::Anonymous;
        type W<'a> = WriteBuf<'a>;
        let mut cases: Vec<(&str, bool, Box<dyn Fn(&mut W) -> Result<(), rs_matter::error::Error>>)> = Vec::new();
        cases.push(("i64", true, Box::new(move |w| w.i64(&TLVTag::Anonymous, sv))));
        cases.push(("i64.to_tlv", true, Box::new(move |w| sv.to_tlv(&TLVTag::Anonymous, w))));
        if fits_s(4) {
            cases.push(("i32", true, Box::new(move |w| w.i32(&TLVTag::Anonymous, sv as i32))));
            cases.push(("i32.to_tlv", true, Box::new(move |w| (sv as i32).to_tlv(&TLVTag::Anonymous, w))));
        }
        if fits_s(2) {
            cases.push(("i16", true, Box::new(move |w| w.i16(&TLVTag::Anonymous, sv as i16))));
            cases.push(("i16.to_tlv", true, Box::new(move |w| (sv as i16).to_tlv(&TLVTag::Anonymous, w))));
        }
        if fits_s(1) {
            cases.push(("i8", true, Box::new(move |w| w.i8(&TLVTag::Anonymous, sv as i8))));
        }
        cases.push(("u64", false, Box::new(move |w| w.u64(&TLVTag::Anonymous, uv))));
        cases.push(("u64.to_tlv", false, Box::new(move |w| uv.to_tlv(&TLVTag::Anonymous, w))));
        if fits_u(4) {
            cases.push(("u32", false, Box::new(move |w| w.u32(&TLVTag::Anonymous, uv as u32))));
            cases.push(("u32.to_tlv", false, Box::new(move |w| (uv as u32).to_tlv(&TLVTag::Anonymous, w))));
        }
        if fits_u(2) {
            cases.push(("u16", false, Box::new(move |w| w.u16(&TLVTag::Anonymous, uv as u16))));
            cases.push(("u16.to_tlv", false, Box::new(move |w| (uv as u16).to_tlv(&TLVTag::Anonymous, w))));
        }
        if fits_u(1) {
            cases.push(("u8", false, Box::new(move |w| w.u8(&TLVTag::Anonymous, uv as u8))));
        }
        let _ = t;
        for (name, signed, f) in cases {
            n += 1;
            let mut buf = [0u8; 32];
            let r = catch(|| {
                let mut w = WriteBuf::new(&mut buf);
                f(&mut w).map(|_| w.get_tail())
            });
            let mut msg = String::new();
            let ok = match r {
                Err(m) => { msg = format!("PANIC {m}"); false }
                Ok(Err(e)) => { msg = format!("writer error {:?}", e.code()); false }
                Ok(Ok(len)) => {
                    let b = &buf[..len];
                    // 1. what the bytes denote per the grammar must be the value written
                    let denotes = ref_decode_int(b);
                    // 2. what the real reader returns must be the value written
                    let el = TLVElement::new(b);
                    let back = catch(|| if signed { el.i64().map(|x| x.to_le_bytes()) } else { el.u64().map(|x| x.to_le_bytes()) });
                    let back_ok = matches!(&back, Ok(Ok(x)) if *x == b8);
                    let den_ok = matches!(denotes, Some((s, x)) if s == signed && x == b8);
                    if !den_ok { msg += &format!("bytes {:?} denote {:?}; ", b, denotes); }
                    if !back_ok { msg += &format!("reader returns {:?}; ", back.map(|r| r.map_err(|e| e.code()))); }
                    den_ok && back_ok
                }
            };
            if !ok { bad += 1; }
            tr.ev(json!({"ev": "Int", "v": b8, "entry": name, "ok": ok, "msg": msg}));
        }
        // derived structure carrying the value in every field that can hold it
        n += 1;
        let s = Ints {
            a: sv, b: uv,
            c: if fits_s(4) { sv as i32 } else { i32::MIN }, d: if fits_u(4) { uv as u32 } else { u32::MAX },
            e: if fits_s(2) { sv as i16 } else { i16::MAX }, f: if fits_u(2) { uv as u16 } else { u16::MAX },
            g: if fits_s(1) { sv as i8 } else { i8::MIN }, h: if fits_u(1) { uv as u8 } else { 0x80 },
            // a nullable integer cannot hold the type's null sentinel (Matter data model): not a value of that type
            n: Nullable::some(if sv == i64::MIN { 0 } else { sv }), o: Some(uv),
        };
        let mut buf = [0u8; 256];
        let r = catch(|| {
            let mut w = WriteBuf::new(&mut buf);
            s.to_tlv(&TLVTag::Anonymous, &mut w).map(|_| w.get_tail())
        });
        let (ok, msg) = match r {
            Err(m) => (false, format!("PANIC {m}")),
            Ok(Err(e)) => (false, format!("encoder error {:?}", e.code())),
            Ok(Ok(len)) => {
                let b = buf[..len].to_vec();
                match catch(|| Ints::from_tlv(&TLVElement::new(&b))) {
                    Err(m) => (false, format!("PANIC in decoder {m}")),
                    Ok(Err(e)) => (false, format!("decoder error {:?}", e.code())),
                    Ok(Ok(back)) => {
                        let mut buf2 = [0u8; 256];
                        let mut w2 = WriteBuf::new(&mut buf2);
                        let re = back.to_tlv(&TLVTag::Anonymous, &mut w2).map(|_| w2.get_tail());
                        let same_bytes = matches!(re, Ok(l2) if buf2[..l2] == b[..]);
                        if back != s { (false, format!("decoded {:?} != encoded {:?}", back, s)) }
                        else if !same_bytes { (false, "re-encoding differs".into()) } else { (true, String::new()) }
                    }
                }
            }
        };
        if !ok { bad += 1; }
        tr.ev(json!({"ev": "Int", "v": b8, "entry": "derived-struct", "ok": ok, "msg": msg}));
    }
    (n, bad)
}

pub fn run(args: &[String]) -> i32 {
    std::panic::set_hook(Box::new(|_| {}));
    let vals = read_ndjson(&arg(args, "--behaviours").expect("--behaviours"));
    let mut tr = Trace::create(&arg(args, "--out").expect("--out"));
    let (mut n_in, mut n_bad) = (0usize, 0usize);
    for (vi, v) in vals.iter().enumerate() {
        let refb = bytes_of(&v["bytes"]);
        // 1. writer
        let mut buf = vec![0u8; 4096];
        let wr = catch(|| {
            let mut w = WriteBuf::new(&mut buf);
            write_tree(&mut w, &v["tree"]).map(|_| w.get_tail())
        });
        let w_ok = matches!(&wr, Ok(Ok(n)) if buf[..*n] == refb[..]);
        // 2. all inputs: the valid encoding itself and its mutations
        let mut inputs: Vec<(Vec<u8>, bool, &str)> = vec![(refb.clone(), true, "valid")];
        for m in v["muts"].as_array().unwrap() {
            inputs.push((bytes_of(&m["b"]), m["ok"].as_bool().unwrap(), "mut"));
        }
        for (b, ref_ok, kind) in inputs {
            n_in += 1;
            let p = catch(|| poke(&b));
            let (panic, spin, pmsg) = match &p {
                Err(m) => (true, false, m.clone()),
                Ok(Err(m)) => (false, true, m.clone()),
                Ok(Ok(())) => (false, false, String::new()),
            };
            let mut out = vec![0u8; 4096];
            let r = catch(|| {
                let mut w = WriteBuf::new(&mut out);
                let mut steps = 0;
                reencode(&TLVElement::new(&b), &mut w, &mut steps, 0).map(|_| w.get_tail())
            });
            let (real_ok, rt, rmsg) = match &r {
                Err(m) => (false, false, format!("PANIC {m}")),
                Ok(Err(m)) => (false, false, m.clone()),
                Ok(Ok(n)) => (true, b.len() >= *n && out[..*n] == b[..*n], String::new()),
            };
            let panic2 = matches!(&r, Err(_));
            let spin2 = matches!(&r, Ok(Err(m)) if m == "SPIN");
            let cmp: Vec<String> = if kind == "valid" { catch(|| compare(&v["tree"], &b)).unwrap_or_else(|m| vec![format!("PANIC {m}")]) } else { Vec::new() };
            let good = !panic && !spin && !panic2 && !spin2 && (!ref_ok || (real_ok && rt)) && (kind != "valid" || w_ok) && cmp.is_empty();
            if !good {
                n_bad += 1;
            }
            if !good || kind == "valid" {
                tr.ev(json!({"ev": "Tlv", "i": vi, "kind": kind, "bytes": b, "ref_ok": ref_ok, "real_ok": real_ok, "roundtrip": rt,
                             "writer_ok": w_ok, "panic": panic || panic2, "spin": spin || spin2, "cmp": cmp, "msg": format!("{pmsg}{rmsg}")}));
            }
        }
    }
    let (n_int, bad_int) = match arg(args, "--ints") { Some(p) => run_ints(&p, &mut tr), None => (0, 0) };
    tr.finish();
    println!("{}", json!({"values": vals.len(), "inputs": n_in, "bad": n_bad, "int_cases": n_int, "int_bad": bad_int}));
    0
}
