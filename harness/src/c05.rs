//! C05 - the access-control decision.  Replays TLC-generated configurations (Acl.tla: fabrics + entries + group
//! tables, accessor, request, with the reference verdicts) on the real `AccessReq::allow` /
//! `Accessor::is_endpoint_accessible` of a real `Matter`, and reports every disagreement.

use core::num::NonZeroU8;

use serde_json::{json, Value};

use rs_matter::acl::{gen_noc_cat, AccessReq, Accessor, AccessorSubjects, AclEntry, AuthMode};
use rs_matter::dm::devices::test::{TEST_DEV_ATT, TEST_DEV_COMM, TEST_DEV_DET};
use rs_matter::dm::{Access, DeviceType};
use rs_matter::im::GenericPath;
use rs_matter::tlv::{FromTLV, TLVElement, TLVTag, TLVWrite};
use rs_matter::utils::storage::WriteBuf;
use rs_matter::Matter;

use crate::sim;
use crate::util::{arg, read_ndjson, Trace};

fn priv_enum(p: &str) -> u8 {
    match p {
        "View" => 1,
        "ProxyView" => 2,
        "Operate" => 3,
        "Manage" => 4,
        "Admin" => 5,
        x => panic!("priv {x}"),
    }
}
fn auth_enum(a: &str) -> u8 {
    match a {
        "PASE" => 1,
        "CASE" => 2,
        "Group" => 3,
        x => panic!("auth {x}"),
    }
}
fn subject_u64(s: &Value) -> u64 {
    match s["k"].as_str().unwrap() {
        "node" => s["a"].as_u64().unwrap(),
        "cat" => 0xFFFF_FFFD_0000_0000u64 | gen_noc_cat(s["a"].as_u64().unwrap() as u16, s["b"].as_u64().unwrap() as u16) as u64,
        "grp" => s["a"].as_u64().unwrap(),
        x => panic!("subject kind {x}"),
    }
}

/// Encode an entry the way the Access Control cluster stores it (null / empty / non-empty lists are distinct)
/// and decode it with the real `AclEntry::from_tlv`.
fn entry_from(e: &Value) -> AclEntry {
    let mut buf = [0u8; 256];
    let mut w = WriteBuf::new(&mut buf);
    w.start_struct(&TLVTag::Anonymous).unwrap();
    w.u8(&TLVTag::Context(1), priv_enum(e["priv"].as_str().unwrap())).unwrap();
    w.u8(&TLVTag::Context(2), auth_enum(e["auth"].as_str().unwrap())).unwrap();
    if e["subj"]["null"].as_bool().unwrap() {
        w.null(&TLVTag::Context(3)).unwrap();
    } else {
        w.start_array(&TLVTag::Context(3)).unwrap();
        for s in e["subj"]["items"].as_array().unwrap() {
            w.u64(&TLVTag::Anonymous, subject_u64(s)).unwrap();
        }
        w.end_container().unwrap();
    }
    if e["tgt"]["null"].as_bool().unwrap() {
        w.null(&TLVTag::Context(4)).unwrap();
    } else {
        w.start_array(&TLVTag::Context(4)).unwrap();
        for t in e["tgt"]["items"].as_array().unwrap() {
            w.start_struct(&TLVTag::Anonymous).unwrap();
            let f = |w: &mut WriteBuf, tag: u8, v: i64, wide: bool| {
                if v < 0 {
                    // absent field = wildcard on that axis
                } else if wide {
                    w.u32(&TLVTag::Context(tag), v as u32).unwrap();
                } else {
                    w.u16(&TLVTag::Context(tag), v as u16).unwrap();
                }
            };
            f(&mut w, 0, t["cl"].as_i64().unwrap(), true);
            f(&mut w, 1, t["ep"].as_i64().unwrap(), false);
            f(&mut w, 2, t["dt"].as_i64().unwrap(), true);
            w.end_container().unwrap();
        }
        w.end_container().unwrap();
    }
    w.end_container().unwrap();
    let len = w.get_tail();
    AclEntry::from_tlv(&TLVElement::new(&buf[..len])).expect("entry decodes")
}

fn access_of(a: &str) -> Access {
    match a {
        "RV" => Access::RV,
        "RA" => Access::RA,
        "RWVM" => Access::RWVM,
        "RWVA" => Access::RWVA,
        "WO" => Access::WO,
        "WM" => Access::WM,
        "WA" => Access::WA,
        x => panic!("access {x}"),
    }
}

pub fn run(args: &[String]) -> i32 {
    let vecs = read_ndjson(&arg(args, "--behaviours").expect("--behaviours"));
    let mut tr = Trace::create(&arg(args, "--out").expect("--out"));
    let (mut n_allow, mut n_dis) = (0usize, 0usize);
    sim::clock_reset();
    for (vi, v) in vecs.iter().enumerate() {
        let m = Matter::new(&TEST_DEV_DET, TEST_DEV_COMM, &TEST_DEV_ATT, 5540);
        // fabrics 1 and 2 are created in order; the ones the configuration does not contain are removed again
        let want: Vec<u64> = v["fabs"].as_array().unwrap().iter().map(|f| f["idx"].as_u64().unwrap()).collect();
        m.with_state(|s| {
            for _ in 0..2 {
                s.fabrics.add_with_post_init(|_| Ok(())).unwrap();
            }
            for f in v["fabs"].as_array().unwrap() {
                let idx = NonZeroU8::new(f["idx"].as_u64().unwrap() as u8).unwrap();
                let fab = s.fabrics.fabric_mut(idx).unwrap();
                for e in f["acl"].as_array().unwrap() {
                    fab.acl_add(entry_from(e)).unwrap();
                }
                if let Some(groups) = f["groups"].as_object() {
                    for (gid, eps) in groups {
                        for ep in eps.as_array().unwrap() {
                            fab.groups_mut().add(ep.as_u64().unwrap() as u16, gid.parse().unwrap(), "g").unwrap();
                        }
                    }
                }
            }
            for idx in 1..=2u64 {
                if !want.contains(&idx) {
                    s.fabrics.remove(NonZeroU8::new(idx as u8).unwrap()).unwrap();
                }
            }
        });
        let a = &v["acc"];
        let mode = a["mode"].as_str().unwrap();
        let (subjects, auth) = match mode {
            "PASE" => (AccessorSubjects::new(1), AuthMode::Pase),
            "CASE" => {
                let mut s = AccessorSubjects::new(a["node"].as_u64().unwrap());
                for c in a["cats"].as_array().unwrap() {
                    s.add_catid(gen_noc_cat(c["id"].as_u64().unwrap() as u16, c["ver"].as_u64().unwrap() as u16)).unwrap();
                }
                (s, AuthMode::Case)
            }
            _ => (AccessorSubjects::new(a["grp"].as_u64().unwrap()), AuthMode::Group),
        };
        // a PASE accessor has no fabric until AddNOC; the generated fabric index is kept for the other modes
        let fab = a["fab"].as_u64().unwrap() as u8;
        let accessor = Accessor::new(fab, false, subjects, Some(auth), &m);
        let r = &v["req"];
        let dts: Vec<DeviceType> = r["dts"].as_array().unwrap().iter().map(|d| DeviceType { dtype: d.as_u64().unwrap() as u16, drev: 1 }).collect();
        let ep = r["ep"].as_u64().unwrap() as u16;
        let op = if r["op"] == "read" { Access::READ } else { Access::WRITE };
        let mut req = AccessReq::new(&accessor, GenericPath::new(Some(ep), Some(r["cl"].as_u64().unwrap() as u32), Some(0)), op, &dts);
        req.set_target_perms(access_of(r["access"].as_str().unwrap()));
        let allow = req.allow();
        let reach = accessor.is_endpoint_accessible(ep);
        if allow {
            n_allow += 1;
        }
        let agree = Some(allow) == v["allow"].as_bool() && Some(reach) == v["reach"].as_bool();
        if !agree {
            n_dis += 1;
        }
        tr.ev(json!({"ev": "Decision", "i": vi, "allow": allow, "reach": reach, "ref_allow": v["allow"], "ref_reach": v["reach"]}));
    }
    tr.finish();
    println!("{}", json!({"vectors": vecs.len(), "real_allow_true": n_allow, "disagreements": n_dis}));
    0
}
