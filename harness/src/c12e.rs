//! C12, end to end for the group data message counter: a real node sends real group messages through
//! `Exchange::initiate_group` (which reserves the counter and stores the moved boundary) over the simulated network,
//! is cut off and booted again from the recording key-value store.  Recorded in the true order of occurrence (one
//! global sequence shared by the store and the network): Store(boundary) from the store, Use(counter) from the
//! message header of every datagram the node put on the wire, Restart at every boot.  The trace is validated by the
//! same CountersTrace.tla / CountersProp.tla as the object-level run.
//!   behaviour = {"start": model boundary or -1, "ops": [{"op": "Boot"} | {"op": "Send", "n": k} | {"op": "Crash"} |
//!                {"op": "Hold", "n": k} (open k group exchanges and keep them: the session runs out of exchange slots) |
//!                {"op": "Try"} (one more group message, which may be refused for lack of a slot) | {"op": "Release"}]}

use core::cell::Cell;
use core::num::NonZeroU8;
use core::pin::pin;

use embassy_futures::select::select;
use serde_json::{json, Value};

use rs_matter::crypto::test_only_crypto;
use rs_matter::dm::devices::test::{TEST_DEV_ATT, TEST_DEV_COMM, TEST_DEV_DET};
use rs_matter::error::Error;
use rs_matter::persist::GROUP_DATA_COUNTER_KEY;
use rs_matter::transport::exchange::{Exchange, MessageMeta};
use rs_matter::transport::network::NoNetwork;
use rs_matter::transport::packet::PacketHdr;
use rs_matter::utils::storage::ParseBuf;
use rs_matter::Matter;

use crate::sim::{self, RecKv, Rx, Tx};
use crate::util::{arg, catch, read_ndjson, Trace};
use crate::world::{drive, Limits, Step};

const RING_G: u64 = 1 << 28;
const MODEL_R: i64 = 32;

fn map_start(m: i64) -> Option<u64> {
    if m < 0 {
        None
    } else if m < MODEL_R / 2 {
        Some(m as u64)
    } else {
        Some(RING_G - (MODEL_R - m) as u64)
    }
}

fn ctr_of(d: &[u8]) -> Option<(u32, bool)> {
    let mut copy = d.to_vec();
    let mut pb = ParseBuf::new(&mut copy);
    let mut hdr = PacketHdr::new();
    hdr.decode_plain_hdr(&mut pb).ok()?;
    Some((hdr.plain.ctr, hdr.plain.is_group_session()))
}

fn run_one(b: &Value) -> Vec<Value> {
    sim::clock_reset();
    let kv = sim::new_kv();
    let mut out = vec![];
    if let Some(s) = map_start(b["start"].as_i64().unwrap_or(-1)) {
        kv.borrow_mut().blobs.insert(GROUP_DATA_COUNTER_KEY, (s as u32).to_le_bytes().to_vec());
        out.push(json!({"ev": "Store", "kind": "grp", "b": s}));
    }
    let ops = b["ops"].as_array().unwrap();
    let mut k = 0;
    while k < ops.len() {
        // one life of the node: from a Boot to the next Crash (or the end)
        if ops[k]["op"] != "Boot" {
            k += 1;
            continue;
        }
        k += 1;
        let mut sends = 0usize;
        let first = k;
        while k < ops.len() && ops[k]["op"] != "Crash" && ops[k]["op"] != "Boot" {
            if ops[k]["op"] == "Send" {
                sends += ops[k]["n"].as_u64().unwrap_or(1) as usize;
            }
            k += 1;
        }
        let life = &ops[first..k];
        out.push(json!({"ev": "Restart", "kind": "grp"}));
        let seq0 = sim::next_seq();
        let net = sim::new_net();
        let m = Matter::new(&TEST_DEV_DET, TEST_DEV_COMM, &TEST_DEV_ATT, 5540);
        let crypto = test_only_crypto();
        let started = m.startup(m.kv(RecKv(kv.clone())));
        if let Err(e) = started {
            out.push(json!({"ev": "BootFailed", "code": format!("{:?}", e.code())}));
            continue;
        }
        crate::c03g::provision(&m);
        let fab = NonZeroU8::new(1).unwrap();
        let done = Cell::new(false);
        let tried_ok = Cell::new(0usize);
        let extra = Cell::new(0usize);
        let err = core::cell::RefCell::new(String::new());
        let story = async {
            let r: Result<(), Error> = async {
                let mut held: Vec<Exchange<'_>> = Vec::new();
                let mut i = 0usize;
                for op in life {
                    match op["op"].as_str().unwrap() {
                        "Send" => {
                            for _ in 0..op["n"].as_u64().unwrap_or(1) {
                                let mut ex = Exchange::initiate_group(&m, &crypto, m.kv(RecKv(kv.clone())), fab, 1 + (i % 2) as u16)?;
                                ex.send(MessageMeta::new(0x7777, 1, false), &[i as u8; 6]).await?;
                                i += 1;
                            }
                        }
                        "SendToBoundary" => {
                            // so many messages that, once every exchange slot of the group session is held, the next
                            // reservation is the one that moves the boundary (the first of a life does, then every EPOCH-th)
                            let target = op["laps"].as_u64().unwrap_or(1) as usize * rs_matter::transport::session::GROUP_DATA_CTR_EPOCH as usize - rs_matter::transport::session::MAX_EXCHANGES;
                            while i < target {
                                let mut ex = Exchange::initiate_group(&m, &crypto, m.kv(RecKv(kv.clone())), fab, 1)?;
                                ex.send(MessageMeta::new(0x7777, 1, false), &[i as u8; 6]).await?;
                                i += 1;
                                extra.set(extra.get() + 1);
                            }
                        }
                        "Hold" => {
                            // fill the exchange table of the group session
                            for _ in 0..rs_matter::transport::session::MAX_EXCHANGES {
                                let mut ex = Exchange::initiate_group(&m, &crypto, m.kv(RecKv(kv.clone())), fab, 1)?;
                                ex.send(MessageMeta::new(0x7777, 1, false), &[i as u8; 6]).await?;
                                held.push(ex);
                                i += 1;
                                extra.set(extra.get() + 1);
                            }
                        }
                        "Try" => {
                            // may be refused (no exchange slot left); whatever it reserved must still be covered
                            if let Ok(mut ex) = Exchange::initiate_group(&m, &crypto, m.kv(RecKv(kv.clone())), fab, 1) {
                                let _ = ex.send(MessageMeta::new(0x7777, 1, false), &[i as u8; 6]).await;
                                tried_ok.set(tried_ok.get() + 1);
                            }
                        }
                        "Release" => held.clear(),
                        _ => {}
                    }
                }
                // let the transport put the last datagram on the wire
                embassy_time::Timer::after_millis(20).await;
                Ok(())
            }
            .await;
            if let Err(e) = r {
                *err.borrow_mut() = format!("{:?}", e.code());
            }
            done.set(true);
            core::future::pending::<()>().await
        };
        let mut all = pin!(select(m.run(&crypto, Tx(net.clone(), 0), Rx(net.clone(), 0), NoNetwork), story));
        let _ = drive(all.as_mut(), &net, &Limits { max_virtual_ms: 600_000, max_steps: 2_000_000, ..Default::default() }, |net| {
            if done.get() {
                return Step::Stop;
            }
            if !net.borrow().wire.is_empty() {
                return Step::Deliver(0);
            }
            Step::NextTimer
        });
        // merge what the store and the network saw, in the order it happened
        let mut evs: Vec<(usize, Value)> = Vec::new();
        for (seq, key, data) in kv.borrow().store_seqs.iter() {
            if *seq >= seq0 && *key == GROUP_DATA_COUNTER_KEY && data.len() >= 4 {
                evs.push((*seq, json!({"ev": "Store", "kind": "grp", "b": u32::from_le_bytes(data[..4].try_into().unwrap())})));
            }
        }
        let n = net.borrow();
        for d in n.far.iter().chain(n.tap.iter()) {
            if let Some((ctr, group)) = ctr_of(&d.data) {
                if group {
                    evs.push((d.seq, json!({"ev": "Use", "kind": "grp", "lo": ctr, "hi": ctr})));
                }
            }
        }
        evs.sort_by_key(|e| e.0);
        let n_use = evs.iter().filter(|e| e.1["ev"] == "Use").count();
        out.extend(evs.into_iter().map(|e| e.1));
        out.push(json!({"ev": "Life", "sends": sends + tried_ok.get() + extra.get(), "on_wire": n_use, "error": err.borrow().clone()}));
    }
    out
}

pub fn run(args: &[String]) -> i32 {
    let behaviours = read_ndjson(&arg(args, "--behaviours").expect("--behaviours"));
    let mut tr = Trace::create(&arg(args, "--out").expect("--out"));
    let mut uses = 0usize;
    for (bi, b) in behaviours.iter().enumerate() {
        tr.ev(json!({"ev": "Reset", "run": bi, "kind": "grp"}));
        match catch(|| run_one(b)) {
            Ok(evs) => {
                for e in evs {
                    if e["ev"] == "Use" { uses += 1; }
                    tr.ev(e);
                }
            }
            Err(m) => tr.ev(json!({"ev": "Life", "sends": -1, "on_wire": -1, "error": format!("PANIC {m}")})),
        }
    }
    tr.finish();
    println!("{}", json!({"behaviours": behaviours.len(), "uses": uses}));
    0
}
