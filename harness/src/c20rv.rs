//! C20, rendezvous part: replays TLC-generated interleavings of two callers and the mDNS responder (Rendezvous.tla) on
//! the real single-slot resolve / browse rendezvous of `Transport`, polling the real caller futures step by step, and
//! ends every run with a fresh lookup that must be served.

use core::future::Future;
use core::num::NonZeroU8;
use core::pin::Pin;
use core::task::Poll;

use serde_json::json;

use rs_matter::dm::devices::test::{TEST_DEV_ATT, TEST_DEV_COMM, TEST_DEV_DET};
use rs_matter::transport::exchange::Exchange;
use rs_matter::transport::network::mdns::{CommissionableFilter, DottedName, MdnsRemoteService};
use rs_matter::transport::network::{IpAddr, Ipv6Addr};
use rs_matter::Matter;

use crate::c18::poll_once_pub;
use crate::hs::{install_fabric, make_fabric};
use crate::sim;
use crate::util::{arg, read_ndjson, Trace};

type Fut<'a> = Pin<Box<dyn Future<Output = bool> + 'a>>;

fn poll(f: &mut Fut<'_>) -> Option<bool> {
    match poll_once_pub(f.as_mut()) {
        Some(v) => Some(v),
        None => None,
    }
}

pub fn run(args: &[String]) -> i32 {
    let behaviours = read_ndjson(&arg(args, "--behaviours").expect("--behaviours"));
    let mut tr = Trace::create(&arg(args, "--out").expect("--out"));
    let kit = make_fabric(&[0x1001, 0x2000]);
    let mut n = 0usize;
    for (bi, b) in behaviours.iter().enumerate() {
        for kind in ["resolve", "browse"] {
            sim::clock_reset();
            // the futures below borrow the Matter object: it lives in a box that is freed after they are gone
            let mb = Box::new(Matter::new(&TEST_DEV_DET, TEST_DEV_COMM, &TEST_DEV_ATT, 5540));
            let m: &'static Matter<'static> = unsafe { &*(mb.as_ref() as *const Matter<'_> as *const Matter<'static>) };
            let fab = install_fabric(m, &kit, 0);
            let filter = CommissionableFilter::default();
            let mk = || -> Fut<'static> {
                let filter = filter.clone();
                if kind == "resolve" {
                    Box::pin(async move { Exchange::resolve_operational_addrs(m, fab, 0x2000).await.is_ok() })
                } else {
                    Box::pin(async move { m.transport().browse_commissionable(&filter, &[], 5000).await.is_ok() })
                }
            };
            tr.ev(json!({"ev": "Reset", "run": bi, "kind": kind}));
            let mut futs: [Option<Fut<'_>>; 2] = [None, None];
            let mut picked: Option<String> = None;
            let res = |r: Option<bool>| match r {
                None => "pending",
                Some(true) => "ok",
                Some(false) => "err",
            };
            let pick = |m: &Matter, picked: &mut Option<String>| -> bool {
                if kind == "resolve" {
                    match poll_once_pub(m.transport().wait_mdns_resolve_request()) {
                        Some(svc) => {
                            let mut name = heapless::String::<128>::new();
                            svc.instance_name(&mut name);
                            *picked = Some(name.as_str().to_string());
                            true
                        }
                        None => false,
                    }
                } else {
                    match poll_once_pub(m.transport().wait_mdns_browse_request()) {
                        Some(_f) => {
                            *picked = Some("0123456789ABCDEF".to_string());
                            true
                        }
                        None => false,
                    }
                }
            };
            let deposit = |m: &Matter, picked: &Option<String>| {
                if let Some(name) = picked {
                    let svc = MdnsRemoteService { instance_name: DottedName(name.as_str()), port: Some(5540), addrs: core::iter::once(IpAddr::V6(Ipv6Addr::new(0xfd00, 0, 0, 0, 0, 0, 0, 1))),
                                                  txt: core::iter::empty::<(&str, &str)>(), scope_id: 0 };
                    if kind == "resolve" {
                        m.transport().try_deposit_mdns_resolve(&svc, &[]);
                    } else {
                        m.transport().try_deposit_mdns_browse(&svc);
                    }
                }
            };
            for op in b.as_array().unwrap() {
                let c = op["c"].as_u64().unwrap_or(0) as usize;
                match op["op"].as_str().unwrap() {
                    "Start" => {
                        let mut f = mk();
                        let r = poll(&mut f);
                        futs[c - 1] = if r.is_none() { Some(f) } else { None };
                        tr.ev(json!({"ev": "Start", "c": c, "res": res(r)}));
                    }
                    "Poll" => {
                        let r = futs[c - 1].as_mut().and_then(poll);
                        if r.is_some() {
                            futs[c - 1] = None;
                        }
                        tr.ev(json!({"ev": "Poll", "c": c, "res": res(r)}));
                    }
                    "Pick" => {
                        let got = pick(m, &mut picked);
                        tr.ev(json!({"ev": "Pick", "got": got}));
                    }
                    "Deposit" => {
                        deposit(m, &picked);
                        tr.ev(json!({"ev": "Deposit"}));
                    }
                    "Timeout" => {
                        sim::advance_us(5_001_000);
                        let r = futs[c - 1].as_mut().and_then(poll);
                        if r.is_some() {
                            futs[c - 1] = None;
                        }
                        tr.ev(json!({"ev": "Timeout", "c": c, "res": res(r)}));
                    }
                    "Cancel" => {
                        futs[c - 1] = None;
                        tr.ev(json!({"ev": "Cancel", "c": c}));
                    }
                    o => panic!("rv op {o}"),
                }
                n += 1;
            }
            // every caller goes away; then a fresh lookup must be served
            futs = [None, None];
            let mut f = mk();
            let r0 = poll(&mut f);
            let got = pick(m, &mut picked);
            deposit(m, &picked);
            let r1 = poll(&mut f);
            tr.ev(json!({"ev": "Probe", "ok": r0.is_none() && got && r1 == Some(true), "placed": r0.is_none(), "picked": got, "result": res(r1)}));
            drop(f);
            drop(futs);
            drop(mb);
        }
    }
    tr.finish();
    println!("{}", json!({"behaviours": behaviours.len(), "runs": behaviours.len() * 2, "ops": n}));
    0
}
