//! C09 / C15 - reliable messaging.  Replays TLC-generated adversary schedules (Mrp.tla: deliver / duplicate / drop a
//! datagram, fire a sender's back-off timer) on two real `Matter` stacks with planted CASE sessions and two small
//! applications (request / response rounds on one exchange), and records application events and the wire tap for
//! validation against MrpProp.

use core::cell::RefCell;
use core::num::NonZeroU8;
use core::pin::pin;
use std::collections::HashMap;

use embassy_futures::select::select4;
use serde_json::{json, Value};

use rs_matter::crypto::{test_only_crypto, CanonAeadKey};
use rs_matter::dm::devices::test::{TEST_DEV_ATT, TEST_DEV_COMM, TEST_DEV_DET};
use rs_matter::error::Error;
use rs_matter::transport::exchange::{Exchange, MessageMeta};
use rs_matter::transport::network::NoNetwork;
use rs_matter::transport::session::{ReservedSession, SessionMode};
use rs_matter::Matter;

use crate::sim::{self, Rx, Tx};
use crate::util::{arg, read_ndjson, Trace};
use crate::world::{drive, End, Limits, Step, TapDecoder};

const PROTO: u16 = 0x7777;
const NODE_A: u64 = 100;
const NODE_B: u64 = 200;

pub fn plant(m: &Matter, local: u64, peer: u64, peer_idx: usize, local_sess: u16, peer_sess: u16) {
    plant_on(m, local, peer, peer_idx, local_sess, peer_sess, 1, None)
}

/// A "random" number generator that always yields the same value: the session's first message counter is drawn from it
#[derive(Copy, Clone)]
struct FixedRng(u32);
impl rand_core::RngCore for FixedRng {
    fn next_u32(&mut self) -> u32 {
        self.0
    }
    fn next_u64(&mut self) -> u64 {
        ((self.0 as u64) << 32) | self.0 as u64
    }
    fn fill_bytes(&mut self, dest: &mut [u8]) {
        for (i, b) in dest.iter_mut().enumerate() {
            *b = self.0.to_le_bytes()[i % 4];
        }
    }
    fn try_fill_bytes(&mut self, dest: &mut [u8]) -> Result<(), rand_core::Error> {
        self.fill_bytes(dest);
        Ok(())
    }
}
impl rand_core::CryptoRng for FixedRng {}

/// `fab`: local fabric index of the session (fabrics are created as needed); `ctr0`: the "random" value its first message
/// counter is derived from
#[allow(clippy::too_many_arguments)]
pub fn plant_on(m: &Matter, local: u64, peer: u64, peer_idx: usize, local_sess: u16, peer_sess: u16, fab: u8, ctr0: Option<u32>) {
    plant_kind(m, local, peer, peer_idx, local_sess, peer_sess, fab, ctr0, false)
}

/// `pase`: the session is a PASE session (no fabric) instead of a CASE session
#[allow(clippy::too_many_arguments)]
pub fn plant_kind(m: &Matter, local: u64, peer: u64, peer_idx: usize, local_sess: u16, peer_sess: u16, fab: u8, ctr0: Option<u32>, pase: bool) {
    m.with_state(|s| {
        while s.fabrics.iter().count() < fab as usize {
            s.fabrics.add_with_post_init(|_| Ok(())).unwrap();
        }
    });
    let mode = if pase { SessionMode::Pase { fab_idx: 0 } } else { SessionMode::Case { fab_idx: NonZeroU8::new(fab).unwrap(), cat_ids: Default::default() } };
    match ctr0 {
        None => {
            let mut sess = ReservedSession::reserve_now(m, test_only_crypto()).unwrap();
            sess.update(local, peer, peer_sess, local_sess, sim::addr(peer_idx), mode, None, None, None, None).unwrap();
            sess.complete();
        }
        Some(c) => {
            let crypto = rs_matter::crypto::default_crypto(FixedRng(c), rs_matter::dm::devices::test::DAC_PRIVKEY);
            let mut sess = ReservedSession::reserve_now(m, crypto).unwrap();
            sess.update(local, peer, peer_sess, local_sess, sim::addr(peer_idx), mode, None, None, None, None).unwrap();
            sess.complete();
        }
    }
}

fn nm(i: usize) -> &'static str {
    if i == 0 {
        "A"
    } else {
        "B"
    }
}

struct RunOut {
    end: End,
    matched: usize,
    steps: usize,
}

fn one_run(bi: usize, ops: &[Value], rounds: u8, tr: &mut Trace) -> RunOut {
    sim::clock_reset();
    let net = sim::new_net();
    let a = Matter::new(&TEST_DEV_DET, TEST_DEV_COMM, &TEST_DEV_ATT, 5540);
    let b = Matter::new(&TEST_DEV_DET, TEST_DEV_COMM, &TEST_DEV_ATT, 5540);
    // {"op": "Config", "ctr0": n} as the first operation: the sessions under test start their message counters from n
    let cfg_first = ops.first().filter(|o| o["op"] == "Config");
    let ctr0 = cfg_first.and_then(|o| o["ctr0"].as_u64()).map(|x| x as u32);
    let ops = if ops.first().map(|o| o["op"] == "Config").unwrap_or(false) { &ops[1..] } else { ops };
    // {"op": "Config", "mode": "pase"}: the session under test is a PASE session
    let pase = cfg_first.map(|o| o["mode"] == "pase").unwrap_or(false);
    plant_kind(&a, NODE_A, NODE_B, 1, 1, 1, 1, ctr0, pase);
    plant_kind(&b, NODE_B, NODE_A, 0, 1, 1, 1, ctr0, pase);
    // idle sessions with other peers (300 + k) on both nodes, so that the session table is almost full: every new
    // unsecured session a schedule provokes (a stray first message of a handshake) then evicts one of them
    for k in 0..14u16 {
        plant(&a, NODE_A, 300 + k as u64, 1, 40 + k, 40 + k);
        plant(&b, NODE_B, 300 + k as u64, 0, 40 + k, 40 + k);
    }
    let crypto = test_only_crypto();
    let events: RefCell<Vec<Value>> = RefCell::new(Vec::new());
    let ev = |mut v: Value| {
        v["seq"] = json!(sim::next_seq());
        events.borrow_mut().push(v)
    };

    let app_a = async {
        let r: Result<(), Error> = async {
            // (over the session under test, whatever its kind: local session id 1)
            let sid = a.with_state(|st| st.verif_snapshot().sessions.sessions.iter().find(|x| x.local_sess_id == 1).map(|x| x.id));
            let mut ex = match sid {
                Some(sid) if pase => Exchange::initiate_for_session(&a, &crypto, sid)?,
                _ => Exchange::initiate(&a, &crypto, NonZeroU8::new(1).unwrap(), NODE_B).await?,
            };
            for r in 1..=rounds {
                let id = 2 * r - 1;
                ev(json!({"ev": "AppSend", "n": "A", "id": id, "t": sim::now_ms()}));
                match ex.send(MessageMeta::new(PROTO, id, true), &[id; 8]).await {
                    Ok(()) => ev(json!({"ev": "SendOk", "n": "A", "id": id, "t": sim::now_ms()})),
                    Err(e) => {
                        ev(json!({"ev": "SendErr", "n": "A", "id": id, "code": format!("{:?}", e.code()), "t": sim::now_ms()}));
                        return Ok(());
                    }
                }
                let rx = ex.recv().await?;
                let op = rx.meta().proto_opcode;
                drop(rx);
                ev(json!({"ev": "AppRecv", "n": "A", "id": op, "t": sim::now_ms()}));
            }
            ex.acknowledge().await?;
            Ok(())
        }
        .await;
        if let Err(e) = r {
            ev(json!({"ev": "AppEnd", "n": "A", "code": format!("{:?}", e.code()), "t": sim::now_ms()}));
        }
        core::future::pending::<()>().await
    };
    // {"op": "Auto", .., "second": [node, at_ms]}: at that time a second exchange of that node sends one message that asks
    // for no acknowledgement (with a slow network send it keeps the node's single TX buffer busy for a while)
    let second: Option<(usize, u64)> = ops.iter().find_map(|o| o["second"].as_array().map(|x| (x[0].as_u64().unwrap() as usize, x[1].as_u64().unwrap())));
    let app_2 = async {
        if let Some((node, at)) = second {
            embassy_time::Timer::at(embassy_time::Instant::from_millis(at)).await;
            let m = if node == 0 { &a } else { &b };
            let sid = m.with_state(|st| st.verif_snapshot().sessions.sessions.iter().find(|x| x.local_sess_id == 1).map(|x| x.id));
            if let Some(Ok(mut ex)) = sid.map(|sid| Exchange::initiate_for_session(m, &crypto, sid)) {
                let _ = ex.send(MessageMeta::new(PROTO, 99, false), &[99; 8]).await;
                core::future::pending::<()>().await;
            }
        }
        core::future::pending::<()>().await
    };
    let app_b = async {
        let r: Result<(), Error> = async {
            let mut ex = Exchange::accept(&b).await?;
            for _ in 1..=rounds {
                let rx = ex.recv().await?;
                let op = rx.meta().proto_opcode;
                drop(rx);
                ev(json!({"ev": "AppRecv", "n": "B", "id": op, "t": sim::now_ms()}));
                let id = op + 1;
                ev(json!({"ev": "AppSend", "n": "B", "id": id, "t": sim::now_ms()}));
                match ex.send(MessageMeta::new(PROTO, id, true), &[id; 8]).await {
                    Ok(()) => ev(json!({"ev": "SendOk", "n": "B", "id": id, "t": sim::now_ms()})),
                    Err(e) => {
                        ev(json!({"ev": "SendErr", "n": "B", "id": id, "code": format!("{:?}", e.code()), "t": sim::now_ms()}));
                        return Ok(());
                    }
                }
            }
            Ok(())
        }
        .await;
        if let Err(e) = r {
            ev(json!({"ev": "AppEnd", "n": "B", "code": format!("{:?}", e.code()), "t": sim::now_ms()}));
        }
        core::future::pending::<()>().await
    };

    let mut all = pin!(select4(
        a.run(&crypto, Tx(net.clone(), 0), Rx(net.clone(), 0), NoNetwork),
        b.run(&crypto, Tx(net.clone(), 1), Rx(net.clone(), 1), NoNetwork),
        app_a,
        embassy_futures::select::select(app_b, app_2)
    ));

    let mut dec = TapDecoder::default();
    dec.keys.insert((0, 1), (CanonAeadKey::new(), NODE_A));
    dec.keys.insert((1, 1), (CanonAeadKey::new(), NODE_B));
    // per node: the distinct counters in order of first appearance, and the latest datagram of each
    let mut ctrs: [Vec<u32>; 2] = [Vec::new(), Vec::new()];
    let mut latest: HashMap<(usize, u32), Vec<u8>> = HashMap::new();
    let mut blackholed: Vec<(usize, u32)> = Vec::new();
    let mut tapped = 0usize;
    let mut opi = 0usize;
    let mut matched = 0usize;
    let mut waiting_timeout: Option<(usize, usize, usize)> = None; // (node, tx count at start, advances)
    let mut winding_down = 0usize;
    // "Auto" mode: deliver every datagram in order of appearance, except the ordinals to drop / duplicate
    struct Auto {
        drop: Vec<u64>,
        dup: Vec<u64>,
        delay: Vec<(u64, u64)>,
        /// (node, time): at that time the peer of one of the node's idle sessions closes it (CloseSession)
        closes: Vec<(u64, u64)>,
    }
    let mut n_closed = [0u16; 2];
    let (a_ref, b_ref) = (&a, &b);
    let mut auto: Option<Auto> = None;
    let mut ordinal = 0u64;
    let mut queue: Vec<(u64, crate::sim::Dgram)> = Vec::new();
    let out = RefCell::new(Vec::<Value>::new());

    let end = drive(all.as_mut(), &net, &Limits { max_virtual_ms: 120_000, ..Default::default() }, |net| {
        // 1. move what the applications and the tap saw into the trace, in order
        {
            let mut o = out.borrow_mut();
            let n = net.borrow();
            while tapped < n.tap.len() {
                let d = &n.tap[tapped];
                tapped += 1;
                let t = dec.decode(d);
                if t.sess_id != 1 {
                    continue; // not the session under test (unsecured answers to strays, evicted sessions being closed)
                }
                if !ctrs[d.src].contains(&t.ctr) {
                    ctrs[d.src].push(t.ctr);
                }
                latest.insert((d.src, t.ctr), d.data.clone());
                let p = t.proto.as_ref();
                let is_app = p.map(|p| p.proto_id == PROTO).unwrap_or(false);
                o.push(json!({"ev": "Tx", "n": nm(d.src), "ctr": t.ctr, "rel": p.map(|p| p.reliable).unwrap_or(false),
                              "ack": p.and_then(|p| p.ack).map(|a| a as i64).unwrap_or(-1),
                              "id": if is_app { p.unwrap().opcode } else { 0 }, "bytes": t.bytes_id, "t": t.t_ms, "seq": d.seq}));
            }
            drop(n);
            // one chronological order for application events and datagrams
            let mut all: Vec<Value> = events.borrow_mut().drain(..).chain(o.drain(..)).collect();
            all.sort_by_key(|e| e["seq"].as_u64().unwrap_or(0));
            for e in all {
                tr.ev(e);
            }
        }
        // 2. drop blackholed datagrams from the wire
        {
            let mut n = net.borrow_mut();
            let before = n.wire.len();
            let keep: Vec<_> = n.wire.iter().filter(|d| {
                let c = u32::from_le_bytes([d.data[4], d.data[5], d.data[6], d.data[7]]);
                !blackholed.contains(&(d.src, c))
            }).cloned().collect();
            if keep.len() != before {
                n.wire = keep.into();
            }
        }
        // 3. a Timeout step in progress: keep firing timers until that node transmitted again or gave up
        if let Some((node, txn, adv)) = waiting_timeout {
            let now_tx = net.borrow().tap.iter().filter(|d| d.src == node).count();
            if now_tx > txn || adv > 12 {
                waiting_timeout = None;
            } else {
                waiting_timeout = Some((node, txn, adv + 1));
                return Step::NextTimer;
            }
        }
        // 4. next scheduled step
        while opi < ops.len() {
            let op = &ops[opi];
            opi += 1;
            match op["op"].as_str().unwrap() {
                "Deliver" => {
                    let src = if op["from"] == "A" { 0 } else { 1 };
                    let k = op["k"].as_u64().unwrap() as usize;
                    let Some(c) = ctrs[src].get(k).copied() else { continue };
                    if blackholed.contains(&(src, c)) {
                        continue;
                    }
                    let Some(data) = latest.get(&(src, c)).cloned() else { continue };
                    // take it off the wire if it is still there, else it is a duplicate from the archive
                    let mut n = net.borrow_mut();
                    if let Some(pos) = n.wire.iter().position(|d| d.src == src && d.data == data) {
                        n.wire.remove(pos);
                    }
                    drop(n);
                    matched += 1;
                    tr.ev(json!({"ev": "Dlv", "from": nm(src), "ctr": c, "t": sim::now_ms()}));
                    return Step::Inject { src, dst: 1 - src, data };
                }
                "Drop" => {
                    let src = if op["from"] == "A" { 0 } else { 1 };
                    let k = op["k"].as_u64().unwrap() as usize;
                    if let Some(c) = ctrs[src].get(k).copied() {
                        blackholed.push((src, c));
                        matched += 1;
                    }
                    return Step::Poll;
                }
                "Auto" => {
                    let l = |k: &str| op[k].as_array().map(|a| a.iter().map(|x| x.as_u64().unwrap()).collect()).unwrap_or_default();
                    let pairs = |k: &str| -> Vec<(u64, u64)> { op[k].as_array().map(|a| a.iter().map(|x| (x[0].as_u64().unwrap(), x[1].as_u64().unwrap())).collect()).unwrap_or_default() };
                    auto = Some(Auto { drop: l("drop"), dup: l("dup"), delay: pairs("delay"), closes: pairs("closes") });
                    // slow network sends: [node, ordinal of the send call, ms]
                    if let Some(a) = op["slow"].as_array() {
                        let mut n = net.borrow_mut();
                        for x in a {
                            n.slow.push((x[0].as_u64().unwrap() as usize, x[1].as_u64().unwrap() as usize, x[2].as_u64().unwrap()));
                        }
                    }
                    matched += 1;
                }
                "Timeout" => {
                    let node = if op["n"] == "A" { 0 } else { 1 };
                    let txn = net.borrow().tap.iter().filter(|d| d.src == node).count();
                    waiting_timeout = Some((node, txn, 1));
                    matched += 1;
                    return Step::NextTimer;
                }
                o => panic!("unknown op {o}"),
            }
        }
        // 5. wind down / auto mode: every datagram is delivered in order of appearance after its delay (0 unless the
        //    schedule says otherwise), except the ordinals to drop; duplicates are delivered twice
        {
            let mut n = net.borrow_mut();
            while let Some(d) = n.wire.pop_front() {
                ordinal += 1;
                let (mut dl, mut dup) = (0u64, false);
                if let Some(a) = &auto {
                    if a.drop.contains(&ordinal) {
                        continue;
                    }
                    dup = a.dup.contains(&ordinal);
                    dl = a.delay.iter().find(|x| x.0 == ordinal).map(|x| x.1).unwrap_or(0);
                }
                let at = sim::now_ms() + dl;
                if dup {
                    queue.push((at, d.clone()));
                }
                queue.push((at, d));
            }
        }
        let now = sim::now_ms();
        // a stray unsecured first message of a handshake from an unknown node reaches a node: it needs a session slot, and
        // with the table full the node evicts one of its idle sessions (and tells everybody who waits on the transport)
        if let Some(a) = auto.as_mut() {
            if let Some(pos) = a.closes.iter().position(|c| c.1 <= now) {
                let (node, _) = a.closes.remove(pos);
                let node = node as usize % 2;
                n_closed[node] += 1;
                let k = n_closed[node];
                let mut hdr = rs_matter::transport::packet::PacketHdr::new();
                hdr.plain.sess_id = 0;
                hdr.plain.ctr = 9000 + k as u32;
                hdr.plain.set_src_nodeid(Some(0x7700 + 16 * node as u64 + k as u64));
                hdr.proto.exch_id = 700 + k;
                hdr.proto.proto_id = 0;
                hdr.proto.proto_opcode = 0x20;
                hdr.proto.set_initiator();
                let mut buf = vec![0u8; 128];
                let mut wb = rs_matter::utils::storage::WriteBuf::new(&mut buf);
                wb.reserve(rs_matter::transport::packet::PacketHdr::HDR_RESERVE).unwrap();
                wb.append(&[0x15, 0x30, 0x01, 0x03, 1, 2, 3, 0x18]).unwrap();
                hdr.encode(test_only_crypto(), None, 0, &mut wb).unwrap();
                let sessions = [&a_ref, &b_ref][node].with_state(|st| st.verif_snapshot().sessions.sessions.len());
                tr.ev(json!({"ev": "OtherClosed", "n": nm(node), "k": k, "sessions_before": sessions, "t": now}));
                return Step::Inject { src: 1 - node, dst: node, data: wb.as_slice().to_vec() };
            }
        }
        if let Some(pos) = queue.iter().position(|q| q.0 <= now) {
            let (_, d) = queue.remove(pos);
            let c = u32::from_le_bytes([d.data[4], d.data[5], d.data[6], d.data[7]]);
            // (datagrams of other sessions - answers to strays, sessions being closed - travel unrecorded)
            if u16::from_le_bytes([d.data[1], d.data[2]]) == 1 {
                tr.ev(json!({"ev": "Dlv", "from": nm(d.src), "ctr": c, "t": sim::now_ms()}));
            }
            return Step::Inject { src: d.src, dst: d.dst, data: d.data };
        }
        let next_rel = queue.iter().map(|q| q.0).chain(auto.iter().flat_map(|a| a.closes.iter().map(|c| c.1))).min();
        match (next_rel, sim::next_timer_ms()) {
            (Some(r), Some(t)) if t < r => return Step::NextTimer,
            (Some(r), _) => return Step::AdvanceMs(r - now),
            _ => {}
        }
        winding_down += 1;
        if winding_down > 400 {
            return Step::Stop;
        }
        Step::NextTimer
    });
    // flush what is left
    for e in events.borrow_mut().drain(..) {
        tr.ev(e);
    }
    tr.ev(json!({"ev": "End", "how": format!("{:?}", end), "t": sim::now_ms()}));
    let _ = bi;
    RunOut { end, matched, steps: ops.len() }
}

/// C15 (identifier part): allocate more than 2^16 exchange ids / session ids while some exchanges / sessions stay alive.
fn id_allocation(tr: &mut Trace) -> Value {
    sim::clock_reset();
    let a = Matter::new(&TEST_DEV_DET, TEST_DEV_COMM, &TEST_DEV_ATT, 5540);
    plant(&a, NODE_A, NODE_B, 1, 7, 1);
    plant(&a, NODE_A, NODE_B + 1, 1, 9, 2);
    let crypto = test_only_crypto();
    // two live initiator exchanges (never dropped during the sweep)
    let e1 = crate::c18::poll_once_pub(Exchange::initiate(&a, &crypto, NonZeroU8::new(1).unwrap(), NODE_B)).and_then(|r| r.ok());
    let e2 = crate::c18::poll_once_pub(Exchange::initiate(&a, &crypto, NonZeroU8::new(1).unwrap(), NODE_B + 1)).and_then(|r| r.ok());
    // a third session, on another fabric, with an open exchange - and expired (its fabric is removed over this very
    // session): it stays, with its keys and its identifier, until the exchange is done
    plant_on(&a, NODE_A, NODE_B + 2, 1, 11, 3, 2, None);
    let e3 = crate::c18::poll_once_pub(Exchange::initiate(&a, &crypto, NonZeroU8::new(2).unwrap(), NODE_B + 2)).and_then(|r| r.ok());
    a.with_state(|s| {
        let sid = s.verif_snapshot().sessions.sessions.iter().find(|x| x.local_sess_id == 11).map(|x| x.id);
        s.verif_sessions_mut().remove_for_fabric(NonZeroU8::new(2).unwrap(), sid);
    });
    let expired_busy: Vec<u16> = a.with_state(|s| s.verif_snapshot().sessions.sessions.iter().filter(|x| x.expired && !x.exchanges.is_empty()).map(|x| x.local_sess_id).collect());
    let live_ex: Vec<u16> = a.with_state(|s| s.verif_snapshot().sessions.sessions.iter().flat_map(|x| x.exchanges.iter().filter(|e| e.role <= 1).map(|e| e.exch_id)).collect());
    let live_sess: Vec<u16> = a.with_state(|s| s.verif_snapshot().sessions.sessions.iter().map(|x| x.local_sess_id).collect());
    tr.ev(json!({"ev": "Reset", "run": "ids"}));
    let mut n = 0usize;
    for k in 0..70_000u32 {
        let v = a.with_state(|s| s.verif_sessions_mut().get_next_exch_id(&crypto)).unwrap();
        n += 1;
        if k % 997 == 0 || live_ex.iter().any(|l| (v as i32 - *l as i32).abs() <= 1) {
            tr.ev(json!({"ev": "Alloc", "kind": "exch", "v": v, "live": live_ex}));
        }
    }
    for k in 0..70_000u32 {
        let v = a.with_state(|s| s.verif_sessions_mut().get_next_sess_id());
        n += 1;
        if k % 997 == 0 || live_sess.iter().any(|l| (v as i32 - *l as i32).abs() <= 1) {
            tr.ev(json!({"ev": "Alloc", "kind": "sess", "v": v, "live": live_sess}));
        }
    }
    drop((e1, e2, e3));
    json!({"allocations": n, "live_exchanges": live_ex, "live_sessions": live_sess, "expired_but_busy_sessions": expired_busy})
}

pub fn run(args: &[String]) -> i32 {
    let behaviours = read_ndjson(&arg(args, "--behaviours").expect("--behaviours"));
    let mut tr = Trace::create(&arg(args, "--out").expect("--out"));
    let (mut steps, mut matched) = (0usize, 0usize);
    let mut ends: HashMap<String, usize> = HashMap::new();
    for (bi, b) in behaviours.iter().enumerate() {
        tr.ev(json!({"ev": "Reset", "run": bi}));
        let r = one_run(bi, b.as_array().unwrap(), 2, &mut tr);
        steps += r.steps;
        matched += r.matched;
        *ends.entry(format!("{:?}", r.end)).or_default() += 1;
    }
    let ids = if args.iter().any(|a| a == "--ids") { id_allocation(&mut tr) } else { Value::Null };
    tr.finish();
    println!("{}", json!({"behaviours": behaviours.len(), "steps": steps, "matched_steps": matched, "ends": ends, "ids": ids}));
    0
}
