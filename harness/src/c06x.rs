//! C06, node composition changing between the items of a long answer: replays the behaviours of Expand.tla (a request,
//! an initial composition, pulls and replacements of the node) on the real path expander (`rs_matter::im::expand_read`)
//! with a `Metadata` whose node can be swapped between two pulls, and records what every pull yields.
use core::cell::Cell;

use serde_json::{json, Value};

use rs_matter::acl::{Accessor, AccessorSubjects, AuthMode};
use rs_matter::dm::devices::test::{TEST_DEV_ATT, TEST_DEV_COMM, TEST_DEV_DET};
use rs_matter::dm::{Access, Attribute, Cluster, Endpoint, Metadata, Node, Quality};
use rs_matter::im::{expand_read, AttrPath, GenericPath, ReadReq, ReportDataReq};
use rs_matter::tlv::{TLVElement, TLVTag, TLVWrite, ToTLV};
use rs_matter::utils::storage::WriteBuf;
use rs_matter::Matter;

use crate::util::{arg, catch, read_ndjson, Trace};

fn leak<T>(v: Vec<T>) -> &'static [T] {
    Box::leak(v.into_boxed_slice())
}

fn cluster(id: u32, attrs: &[u32]) -> Cluster<'static> {
    let attrs: Vec<Attribute> = attrs.iter().map(|a| Attribute::new(*a, Access::RV, Quality::NONE)).collect();
    Cluster::new(id, 1, 0, leak(attrs), &[], &[], |_, _, _| true, |_, _, _| true, |_, _, _| true)
}

/// the fixed shape of an endpoint (Expand.tla: Shape)
fn shape(e: u16) -> &'static [Cluster<'static>] {
    match e {
        0 => leak(vec![cluster(40, &[1])]),
        3 => leak(vec![cluster(29, &[1]), cluster(6, &[1, 2])]),
        _ => leak(vec![cluster(29, &[1]), cluster(6, &[1, 2]), cluster(8, &[1])]),
    }
}

fn node_of(eps: &Value) -> &'static Node<'static> {
    let eps: Vec<Endpoint<'static>> = eps.as_array().unwrap().iter().map(|e| Endpoint::new(e.as_u64().unwrap() as u16, &[], shape(e.as_u64().unwrap() as u16))).collect();
    Box::leak(Box::new(Node::new(leak(eps))))
}

struct Swappable(Cell<&'static Node<'static>>);
impl Metadata for &Swappable {
    fn access<F, R>(&self, f: F) -> R
    where
        F: FnOnce(&Node<'_>) -> R,
    {
        f(self.0.get())
    }
}

fn replay(b: &[Value], bi: usize, evs: &mut Vec<Value>) -> Vec<Value> {
    let matter = Matter::new(&TEST_DEV_DET, TEST_DEV_COMM, &TEST_DEV_ATT, 5540);
    // a PASE requester: Administer on the whole node
    let accessor = Accessor::new(0, false, AccessorSubjects::new(0), Some(AuthMode::Pase), &matter);
    let start = &b[0];
    let comp = |x: &Value| -> Option<u32> { let n = x.as_i64().unwrap(); if n < 0 { None } else { Some(n as u32) } };
    let mut buf = [0u8; 256];
    let mut wb = WriteBuf::new(&mut buf);
    wb.start_struct(&TLVTag::Anonymous).unwrap();
    wb.start_array(&TLVTag::Context(0)).unwrap();
    for p in start["req"].as_array().unwrap() {
        AttrPath::from_gp(&GenericPath::new(comp(&p["ep"]).map(|x| x as u16), comp(&p["cl"]), comp(&p["leaf"]))).to_tlv(&TLVTag::Anonymous, &mut wb).unwrap();
    }
    wb.end_container().unwrap();
    wb.bool(&TLVTag::Context(3), false).unwrap();
    wb.end_container().unwrap();
    let read_req = ReadReq::new(TLVElement::new(wb.as_slice()));
    let req = ReportDataReq::Read(&read_req);
    let md = Swappable(Cell::new(node_of(&start["node"])));
    let mut it = expand_read(&md, &req, &accessor, |_, _, _| true).unwrap();
    let mut out = Vec::new();
    evs.push(json!({"ev": "Reset", "run": bi, "node": start["node"], "req": start["req"]}));
    for op in &b[1..] {
        match op["op"].as_str().unwrap() {
            "Change" => {
                md.0.set(node_of(&op["node"]));
                evs.push(json!({"ev": "Change", "node": op["node"]}));
            }
            "Pull" => out.push(match it.next() {
                None => json!({"kind": "done"}),
                Some(Ok(Ok(a))) => json!({"kind": "item", "e": a.endpoint_id, "c": a.cluster_id, "a": a.attr_id}),
                Some(Ok(Err(st))) => json!({"kind": "status", "e": st.path.endpoint, "c": st.path.cluster, "a": st.path.attr, "code": format!("{:?}", st.status.status)}),
                Some(Err(e)) => json!({"kind": "error", "code": format!("{:?}", e.code())}),
            }),
            o => panic!("op {o}"),
        }
        if op["op"] == "Pull" {
            let o = out.last().unwrap();
            evs.push(match o["kind"].as_str().unwrap() {
                "item" => json!({"ev": "Item", "e": o["e"], "c": o["c"], "a": o["a"]}),
                "status" => json!({"ev": "Status", "e": o["e"], "c": o["c"], "a": o["a"], "code": o["code"]}),
                "done" => json!({"ev": "Done"}),
                _ => json!({"ev": "Error", "code": o["code"]}),
            });
        }
    }
    out
}

pub fn run(args: &[String]) -> i32 {
    std::panic::set_hook(Box::new(|_| {}));
    let behaviours = read_ndjson(&arg(args, "--behaviours").expect("--behaviours"));
    let mut tr = Trace::create(&arg(args, "--out").expect("--out"));
    // --trace: the same runs as Reset / Change / Item / Status / Done events for the validation against Layer P
    let mut tt = Trace::create(&arg(args, "--trace").expect("--trace"));
    let mut pulls = 0usize;
    for (bi, b) in behaviours.iter().enumerate() {
        let b = b.as_array().unwrap();
        let mut evs = Vec::new();
        let r = catch(|| replay(b, bi, &mut evs));
        for e in evs {
            tt.ev(e);
        }
        match r {
            Ok(out) => {
                pulls += out.len();
                tr.ev(json!({"ev": "Expand", "i": bi, "out": out}));
            }
            Err(p) => tr.ev(json!({"ev": "Expand", "i": bi, "out": [], "panic": p})),
        }
    }
    tr.finish();
    tt.finish();
    println!("{}", json!({"behaviours": behaviours.len(), "pulls": pulls}));
    0
}
