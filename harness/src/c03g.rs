//! C03 over group keys.  Device B is a real `Matter` with a real fabric, one group key set and two groups (1, 2) mapped
//! to it; the senders (node 100, node 101) are raw encoders using rs-matter's own `PacketHdr` with the operational group
//! key derived the way the receive path derives it.  For every group case of Packet.tla the concrete datagram is
//! injected into B's receive path; B's application accepts exchanges and records, for every message it gets, the peer
//! node id of the session the message arrived on (from the device's own tables) next to the sender named in the payload.

use core::cell::RefCell;
use core::pin::pin;

use embassy_futures::select::{select, select4, Either};
use serde_json::{json, Value};

use rs_matter::cert::gen::VALID_FOREVER;
use rs_matter::cert::MAX_CERT_TLV_AND_ASN1_LEN;
use rs_matter::crypto::{test_only_crypto, CanonAeadKey, CanonPkcSecretKey, Crypto, SecretKey, SigningSecretKey, AEAD_KEY_ZEROED};
use rs_matter::dm::devices::test::{TEST_DEV_ATT, TEST_DEV_COMM, TEST_DEV_DET};
use rs_matter::fabric::GroupKeyMapping;
use rs_matter::group_keys::{GroupEpochKeyEntry, GroupKeySet, KeySet};
use rs_matter::onboard::cac::RcacGenerator;
use rs_matter::onboard::noc::NocGenerator;
use rs_matter::transport::exchange::Exchange;
use rs_matter::transport::network::NoNetwork;
use rs_matter::transport::packet::PacketHdr;
use rs_matter::transport::session::derive_group_session_id;
use rs_matter::utils::storage::{Vec as SVec, WriteBuf};
use rs_matter::Matter;

use crate::sim::{self, Rx, Tx};
use crate::world::{drive, Limits, Step};

const PROTO: u16 = 0x7777;
const DEV_NODE: u64 = 200;
const EPOCH_KEY: [u8; 16] = [0x5a; 16];

/// Fabric + one key set (id 1) + groups 1 and 2 mapped to it.  Returns (operational group key, group session id).
pub fn provision(m: &Matter<'_>) -> (CanonAeadKey, u16) {
    let crypto = test_only_crypto();
    let mut rcac_buf = [0u8; MAX_CERT_TLV_AND_ASN1_LEN];
    let mut rcac_gen = RcacGenerator::new(&mut rcac_buf);
    let (rcac_priv, rcac) = rcac_gen.generate(&crypto, 1, VALID_FOREVER).unwrap();
    let mut noc_buf = [0u8; MAX_CERT_TLV_AND_ASN1_LEN];
    let mut noc_gen = NocGenerator::create(rcac_priv.reference(), rcac, &[], &mut noc_buf).unwrap();
    let mut ipk = CanonAeadKey::new();
    ipk.load_from_array(&[0x33; 16]);
    let sk = crypto.generate_secret_key().unwrap();
    let mut csr_buf = [0u8; 256];
    let csr = sk.csr(&mut csr_buf).unwrap();
    let mut sk_canon = CanonPkcSecretKey::new();
    sk.write_canon(&mut sk_canon).unwrap();
    let noc = noc_gen.generate(&crypto, csr, DEV_NODE, &[], VALID_FOREVER).unwrap();
    let cfid = m.with_state(|state| {
        let fab_idx = state.fabrics.add(&crypto, sk_canon.reference(), rcac, noc, &[], Some(ipk.reference()), 0xFFF1, 100).unwrap().fab_idx();
        let fabric = state.fabrics.fabric_mut(fab_idx).unwrap();
        let mut epoch_key = CanonAeadKey::new();
        epoch_key.load_from_array(&EPOCH_KEY);
        let mut epoch_keys = SVec::new();
        epoch_keys.push(GroupEpochKeyEntry { epoch_key, epoch_start_time: 0 }).unwrap();
        fabric.groups_mut().key_set_add(GroupKeySet { group_key_set_id: 1, group_key_security_policy: 0, epoch_keys }).unwrap();
        for g in [1u16, 2] {
            fabric.groups_mut().key_map_add(GroupKeyMapping { group_id: g, group_key_set_id: 1 }).unwrap();
        }
        fabric.compressed_fabric_id()
    });
    let mut epoch_key = CanonAeadKey::new();
    epoch_key.load_from_array(&EPOCH_KEY);
    let mut ks = KeySet::new();
    ks.update(&crypto, epoch_key.reference(), &cfid).unwrap();
    let sid = derive_group_session_id(&crypto, ks.op_key()).unwrap();
    let mut op = AEAD_KEY_ZEROED;
    op.load(ks.op_key());
    (op, sid)
}

/// A group data message: header source `hdr_src`, destination group `dst`, protected with `key` and `nonce_src`.
#[allow(clippy::too_many_arguments)]
fn craft(key: &CanonAeadKey, sid: u16, ctr: u32, hdr_src: u64, nonce_src: u64, dst: u16, exch: u16, payload: &[u8]) -> Vec<u8> {
    let mut hdr = PacketHdr::new();
    hdr.plain.sess_id = sid;
    hdr.plain.ctr = ctr;
    hdr.plain.set_group_session(true);
    hdr.plain.set_src_nodeid(Some(hdr_src));
    hdr.plain.set_dst_groupcast_nodeid(Some(dst));
    hdr.proto.exch_id = exch;
    hdr.proto.proto_id = PROTO;
    hdr.proto.proto_opcode = 1;
    hdr.proto.set_initiator();
    hdr.proto.unset_reliable();
    let mut buf = vec![0u8; 1600];
    let mut wb = WriteBuf::new(&mut buf);
    wb.reserve(PacketHdr::HDR_RESERVE).unwrap();
    wb.append(payload).unwrap();
    hdr.encode(test_only_crypto(), Some(key.reference()), nonce_src, &mut wb).unwrap();
    wb.as_slice().to_vec()
}

pub fn one_case(c: &Value) -> Vec<Value> {
    sim::clock_reset();
    let len = c["len"].as_u64().unwrap() as usize;
    let cls = c["cls"].as_str().unwrap().to_string();
    let net = sim::new_net();
    let b = Matter::new(&TEST_DEV_DET, TEST_DEV_COMM, &TEST_DEV_ATT, 5540);
    let (key, sid) = provision(&b);
    let crypto = test_only_crypto();
    // (peer node id of the session the message arrived on, group id of that session, payload)
    let got: RefCell<Vec<(u64, u16, Vec<u8>)>> = RefCell::new(Vec::new());
    // payload: byte 0 = sender (100 / 101), byte 1 = message number, then filler
    let payload = |from: u8, i: u8| -> Vec<u8> {
        let mut p = vec![from, i];
        p.extend((2..len.max(2)).map(|k| (k as u8).wrapping_mul(7).wrapping_add(i)));
        p
    };
    let handler = || {
        let b = &b;
        let got = &got;
        async move {
            loop {
                let Ok(mut ex) = Exchange::accept(b).await else { break };
                let raw = ex.id().verif_raw();
                let (peer, gid) = b.with_state(|st| {
                    st.verif_snapshot().sessions.sessions.iter().find(|x| x.id == (raw & 0x0fff_ffff)).map(|x| (x.peer_nodeid.unwrap_or(0), x.group_id)).unwrap_or((0, 0))
                });
                // keep the exchange (and with it the ephemeral group session) alive for a while
                let mut hold = pin!(embassy_time::Timer::after_millis(40));
                loop {
                    match select(ex.recv(), &mut hold).await {
                        Either::First(Ok(rx)) => got.borrow_mut().push((peer, gid, rx.payload().to_vec())),
                        _ => break,
                    }
                }
            }
            core::future::pending::<()>().await
        }
    };
    let mut all = pin!(select4(b.run(&crypto, Tx(net.clone(), 1), Rx(net.clone(), 1), NoNetwork), handler(), handler(), handler()));

    let g1 = craft(&key, sid, 5, 100, 100, 1, 50, &payload(100, 1));
    let g2 = craft(&key, sid, 6, 100, 100, 1, 51, &payload(100, 2));
    let hl = 8 + 8 + 2; // flags, session id, security flags, counter, source node id, destination group id
    let flip = |pos: usize, bit: u8| {
        let mut d = g1.clone();
        d[pos] ^= 1 << bit;
        d
    };
    // (label, bytes, authentic, sender named in it, settle ms before the next injection)
    let mut todo: Vec<(String, Vec<u8>, bool, u64, u64)> = Vec::new();
    let mut push = |label: &str, bytes: Vec<u8>, auth: bool, from: u64, settle: u64| todo.push((label.to_string(), bytes, auth, from, settle));
    let mut genuine_first = false;
    match cls.as_str() {
        "genuine" => {}
        "bitHdrFlags" => push("mut", flip(0, 2), false, 100, 60),
        "bitSessId" => push("mut", flip(1, 6), false, 100, 60),
        "bitSecFlags" => push("mut", flip(3, 0), false, 100, 60),
        "bitCounter" => push("mut", flip(4, 0), false, 100, 60),
        "bitSrcNode" => push("mut", flip(8, 0), false, 101, 60),
        "bitDstGroup" => push("mut", flip(16, 1), false, 100, 60),
        "transplantGroup" => {
            let mut d = g1.clone();
            d[16] = 2;
            d[17] = 0;
            push("mut", d, false, 100, 60)
        }
        "bitCipher" => push("mut", flip(hl, 3), false, 100, 60),
        "bitTag" => push("mut", flip(g1.len() - 1, 7), false, 100, 60),
        "truncate" => push("mut", g1[..g1.len() - 1].to_vec(), false, 100, 60),
        "extend" => {
            let mut d = g1.clone();
            d.push(0x5a);
            push("mut", d, false, 100, 60)
        }
        "runt" => {
            for (label, d) in crate::c03::runts(&g1, hl) {
                push(&label, d, false, 100, 60);
            }
        }
        "transplantHeader" => {
            let mut d = g2[..hl].to_vec();
            d.extend_from_slice(&g1[hl..]);
            push("mut", d, false, 100, 60)
        }
        "otherSourceNode" => push("mut", craft(&key, sid, 5, 100, 300, 1, 50, &payload(100, 1)), false, 100, 60),
        "replay" => {
            genuine_first = true;
            push("genuine1", g1.clone(), true, 100, 60);
            push("mut", g1.clone(), false, 100, 60);
        }
        "secondSender" => {
            // node 100's message first; while its exchange (and ephemeral session) is still open, a genuine message of
            // node 101 with the same group session id and a higher counter, on the same and on another exchange id
            genuine_first = true;
            push("genuine1", g1.clone(), true, 100, 5);
            push("mut", craft(&key, sid, 9, 101, 101, 1, 50, &payload(101, 3)), true, 101, 5);
            push("mut2", craft(&key, sid, 10, 101, 101, 1, 52, &payload(101, 4)), true, 101, 60);
        }
        "allBits" => {
            for pos in 0..g1.len() {
                for bit in 0..8u8 {
                    push(&format!("bit{}", pos * 8 + bit as usize), flip(pos, bit), false, 100, 45);
                }
            }
        }
        x => panic!("group class {x}"),
    }
    if !genuine_first {
        todo.push(("genuine1".into(), g1.clone(), true, 100, 60));
    }
    todo.push(("genuine2".into(), g2.clone(), true, 100, 60));
    todo.reverse();

    let mut events: Vec<Value> = Vec::new();
    let mut current: Option<(String, bool, u64, usize, String)> = None;
    let mut settle_ms = 0u64;
    let snap_all = |b: &Matter| -> String {
        b.with_state(|st| {
            let s = st.verif_snapshot();
            format!("{:?}|{:?}", s.sessions.sessions.iter().map(|x| (x.id, x.peer_nodeid, x.group_id, x.msg_ctr, x.rx_max_ctr, x.rx_bitmap, x.exchanges.len())).collect::<Vec<_>>(),
                    s.sessions.group_ctrs.iter().map(|g| (g.fab_idx, g.src_nodeid, g.max_ctr, g.bitmap)).collect::<Vec<_>>())
        })
    };
    let end = drive(all.as_mut(), &net, &Limits { max_virtual_ms: 600_000, ..Default::default() }, |net| {
        net.borrow_mut().wire.clear();
        if settle_ms > 0 {
            let s = settle_ms;
            settle_ms = 0;
            return Step::AdvanceMs(s);
        }
        if let Some((label, authentic, from, got_before, before)) = current.take() {
            let g = got.borrow();
            let new: Vec<&(u64, u16, Vec<u8>)> = g.iter().skip(got_before).collect();
            let delivered = !new.is_empty();
            // attribution: the session a message arrived on belongs to the sender named in the message
            let from_ok = new.iter().all(|m| m.2.first().map(|f| *f as u64) == Some(m.0));
            let intact = new.iter().all(|m| m.2.len() >= 2 && m.2 == payload(m.2[0], m.2[1]));
            let after = snap_all(&b);
            events.push(json!({"ev": "Inject", "label": label, "authentic": authentic, "delivered": delivered, "from": from,
                               "delivered_what": new.iter().map(|m| json!({"session_peer": m.0, "group": m.1, "named_sender": m.2.first(), "len": m.2.len()})).collect::<Vec<_>>(),
                               "from_ok": from_ok, "intact": intact, "silent": before == after}));
        }
        match todo.pop() {
            Some((label, bytes, auth, from, settle)) => {
                crate::util::beat(&format!("{}:{}", crate::c03::CASE.with(|x| x.get()), label));
                current = Some((label, auth, from, got.borrow().len(), snap_all(&b)));
                settle_ms = settle;
                Step::Inject { src: 0, dst: 1, data: bytes }
            }
            None => Step::Stop,
        }
    });
    if let (crate::world::End::Storm, Some((label, authentic, from, got_before, before))) = (&end, current.take()) {
        // the stack polls itself for ever after this injection: report what is observable and stop
        let delivered = got.borrow().len() > got_before;
        events.push(json!({"ev": "Inject", "label": label, "authentic": authentic, "delivered": delivered, "from": from, "delivered_what": [],
                           "from_ok": true, "intact": true, "silent": before == snap_all(&b), "storm": true}));
    }
    events
}
