//! A crypto back-end whose ECDSA signer is not deterministic: the test back-end signs with RFC 6979 (the same data gives
//! the same signature), which hides a message that is signed again on retransmission (C15). This wrapper delegates
//! everything to the wrapped back-end and, every second time the *same data* is signed, returns the other valid
//! signature of the pair (r, s) / (r, n - s). Both verify; their bytes differ - as the signatures of a randomising
//! signer (a secure element, OpenSSL, mbedTLS) would.
use core::cell::RefCell;
use std::collections::HashMap;

use rs_matter::crypto::*;
use rs_matter::error::Error;

pub struct RandSig<C> {
    inner: C,
    seen: RefCell<HashMap<Vec<u8>, u32>>,
}

impl<C> RandSig<C> {
    pub fn new(inner: C) -> Self {
        Self { inner, seen: RefCell::new(HashMap::new()) }
    }
}

pub struct RKey<'a, C: Crypto + 'a> {
    k: C::SecretKey<'a>,
    seen: &'a RefCell<HashMap<Vec<u8>, u32>>,
}

/// order of the P-256 group
const N: [u8; 32] = [
    0xff, 0xff, 0xff, 0xff, 0x00, 0x00, 0x00, 0x00, 0xff, 0xff, 0xff, 0xff, 0xff, 0xff, 0xff, 0xff, 0xbc, 0xe6, 0xfa, 0xad, 0xa7, 0x17, 0x9e, 0x84, 0xf3, 0xb9, 0xca, 0xc2, 0xfc, 0x63,
    0x25, 0x51,
];

fn negate_s(sig: &mut [u8]) {
    // s := n - s (big-endian), s in 1..n-1
    let mut borrow = 0i32;
    for i in (0..32).rev() {
        let d = N[i] as i32 - sig[32 + i] as i32 - borrow;
        if d < 0 {
            sig[32 + i] = (d + 256) as u8;
            borrow = 1;
        } else {
            sig[32 + i] = d as u8;
            borrow = 0;
        }
    }
}

impl<'a, C: Crypto + 'a> SigningSecretKey<'a, PKC_CANON_PUBLIC_KEY_LEN, PKC_SIGNATURE_LEN> for RKey<'a, C> {
    type PublicKey<'s>
        = C::PublicKey<'s>
    where
        Self: 's;

    fn pub_key(&self) -> Result<Self::PublicKey<'a>, Error> {
        self.k.pub_key()
    }

    fn csr<'s>(&self, buf: &'s mut [u8]) -> Result<&'s [u8], Error> {
        self.k.csr(buf)
    }

    fn sign(&self, data: &[u8], signature: &mut CryptoSensitive<PKC_SIGNATURE_LEN>) -> Result<(), Error> {
        self.k.sign(data, signature)?;
        let mut seen = self.seen.borrow_mut();
        let n = seen.entry(data.to_vec()).or_insert(0);
        *n += 1;
        if *n % 2 == 0 {
            negate_s(signature.access_mut());
        }
        Ok(())
    }
}

impl<'a, C: Crypto + 'a> SecretKey<'a, PKC_CANON_SECRET_KEY_LEN, PKC_CANON_PUBLIC_KEY_LEN, PKC_SIGNATURE_LEN, PKC_SHARED_SECRET_LEN> for RKey<'a, C> {
    fn derive_shared_secret(&self, peer_pub_key: &Self::PublicKey<'a>, shared_secret: &mut CryptoSensitive<PKC_SHARED_SECRET_LEN>) -> Result<(), Error> {
        self.k.derive_shared_secret(peer_pub_key, shared_secret)
    }

    fn write_canon(&self, key: &mut CryptoSensitive<PKC_CANON_SECRET_KEY_LEN>) -> Result<(), Error> {
        self.k.write_canon(key)
    }
}

impl<C: Crypto> Crypto for RandSig<C> {
    type Rand<'a>
        = C::Rand<'a>
    where
        Self: 'a;
    type WeakRand<'a>
        = C::WeakRand<'a>
    where
        Self: 'a;
    type Hash<'a>
        = C::Hash<'a>
    where
        Self: 'a;
    type Hash1<'a>
        = C::Hash1<'a>
    where
        Self: 'a;
    type Hmac<'a>
        = C::Hmac<'a>
    where
        Self: 'a;
    type Kdf<'a>
        = C::Kdf<'a>
    where
        Self: 'a;
    type PbKdf<'a>
        = C::PbKdf<'a>
    where
        Self: 'a;
    type Aead<'a>
        = C::Aead<'a>
    where
        Self: 'a;
    type PublicKey<'a>
        = C::PublicKey<'a>
    where
        Self: 'a;
    type SecretKey<'a>
        = RKey<'a, C>
    where
        Self: 'a;
    type SigningSecretKey<'a>
        = C::SigningSecretKey<'a>
    where
        Self: 'a;
    type EcScalar<'a>
        = C::EcScalar<'a>
    where
        Self: 'a;
    type EcPoint<'a>
        = C::EcPoint<'a>
    where
        Self: 'a;

    fn rand(&self) -> Result<Self::Rand<'_>, Error> {
        self.inner.rand()
    }
    fn weak_rand(&self) -> Result<Self::WeakRand<'_>, Error> {
        self.inner.weak_rand()
    }
    fn hash(&self) -> Result<Self::Hash<'_>, Error> {
        self.inner.hash()
    }
    fn hash1(&self) -> Result<Self::Hash1<'_>, Error> {
        self.inner.hash1()
    }
    fn hmac<const KEY_LEN: usize>(&self, key: CryptoSensitiveRef<'_, KEY_LEN>) -> Result<Self::Hmac<'_>, Error> {
        self.inner.hmac(key)
    }
    fn kdf(&self) -> Result<Self::Kdf<'_>, Error> {
        self.inner.kdf()
    }
    fn pbkdf(&self) -> Result<Self::PbKdf<'_>, Error> {
        self.inner.pbkdf()
    }
    fn aead(&self) -> Result<Self::Aead<'_>, Error> {
        self.inner.aead()
    }
    fn pub_key(&self, key: CanonPkcPublicKeyRef<'_>) -> Result<Self::PublicKey<'_>, Error> {
        self.inner.pub_key(key)
    }
    fn secret_key(&self, key: CanonPkcSecretKeyRef<'_>) -> Result<Self::SecretKey<'_>, Error> {
        Ok(RKey { k: self.inner.secret_key(key)?, seen: &self.seen })
    }
    fn generate_secret_key(&self) -> Result<Self::SecretKey<'_>, Error> {
        Ok(RKey { k: self.inner.generate_secret_key()?, seen: &self.seen })
    }
    fn singleton_singing_secret_key(&self) -> Result<Self::SigningSecretKey<'_>, Error> {
        self.inner.singleton_singing_secret_key()
    }
    fn ec_scalar(&self, scalar: CanonEcScalarRef<'_>) -> Result<Self::EcScalar<'_>, Error> {
        self.inner.ec_scalar(scalar)
    }
    fn ec_scalar_mod_p(&self, uint: CanonUint320Ref<'_>) -> Result<Self::EcScalar<'_>, Error> {
        self.inner.ec_scalar_mod_p(uint)
    }
    fn generate_ec_scalar(&self) -> Result<Self::EcScalar<'_>, Error> {
        self.inner.generate_ec_scalar()
    }
    fn ec_point(&self, point: CanonEcPointRef<'_>) -> Result<Self::EcPoint<'_>, Error> {
        self.inner.ec_point(point)
    }
    fn ec_generator_point(&self) -> Result<Self::EcPoint<'_>, Error> {
        self.inner.ec_generator_point()
    }
}
