//! C17 - headers, status reports, BDX messages, base-38, manual pairing codes and QR payloads.  For every vector TLC
//! drew from Codec.tla (field values, the reference encoding, mutated inputs with the reference verdict):
//!  * encodes the fields with the real encoder and compares the bytes / text with the reference;
//!  * decodes the reference encoding with the real decoder, compares every field, and re-encodes what was decoded;
//!  * feeds truncations and mutants to the real decoder under a panic guard and compares its verdict - and where the
//!    reference accepts, every field - with the reference's.
//! One line per vector: {"i", "fmt", "diffs": [...]} - an empty list means the real code agrees with the reference.

use serde_json::{json, Value};

use rs_matter::bdx::{Block, RangeControl, TransferAccept, TransferControl, TransferInit};
use rs_matter::pairing::qr::{no_optional_data, CommFlowType, QrPayload};
use rs_matter::pairing::DiscoveryCapabilities;
use rs_matter::sc::StatusReport;
use rs_matter::transport::plain_hdr::PlainHdr;
use rs_matter::transport::proto_hdr::ProtoHdr;
use rs_matter::utils::codec::base38;
use rs_matter::utils::storage::{ParseBuf, ReadBuf, WriteBuf};
use rs_matter::BasicCommData;

use crate::util::{arg, catch, read_ndjson, Trace};

fn bytes_of(v: &Value) -> Vec<u8> {
    v.as_array().map(|a| a.iter().map(|x| x.as_u64().unwrap() as u8).collect()).unwrap_or_default()
}
fn u64_of(v: &Value) -> u64 {
    let b = bytes_of(v);
    let mut a = [0u8; 8];
    a[..b.len()].copy_from_slice(&b);
    u64::from_le_bytes(a)
}
fn u32_of(v: &Value) -> u32 {
    u64_of(v) as u32
}
const ALPHABET: &[u8] = b"0123456789ABCDEFGHIJKLMNOPQRSTUVWXYZ-.";
/// codes 0..37 are the base-38 alphabet; anything else stands for a character outside it
fn chars_of(v: &Value) -> String {
    v.as_array().unwrap().iter().map(|x| {
        let c = x.as_u64().unwrap() as usize;
        if c < 38 { ALPHABET[c] as char } else { ['$', 'a', '/', ':', ' ', '_', 'z'][c % 7] }
    }).collect()
}
fn digits_of(v: &Value) -> String {
    v.as_array().unwrap().iter().map(|x| {
        let c = x.as_u64().unwrap();
        if c < 10 { (b'0' + c as u8) as char } else { 'x' }
    }).collect()
}

fn plain(x: &Value, enc: &[u8], trunc: i64, d: &mut Vec<String>) {
    let src = if x["src"].as_array().unwrap().is_empty() { None } else { Some(u64_of(&x["src"])) };
    let sec = x["sec"].as_u64().unwrap() as u8;
    // encode: only the flags the public setters reach (group session, control message)
    if sec & !0x41 == 0 {
        let mut h = PlainHdr::new();
        h.set_src_nodeid(src);
        match x["dk"].as_u64().unwrap() {
            1 => h.set_dst_unicast_nodeid(Some(u64_of(&x["dst"]))),
            2 => h.set_dst_groupcast_nodeid(Some(u64_of(&x["dst"]) as u16)),
            _ => {}
        }
        h.sess_id = x["sess"].as_u64().unwrap() as u16;
        h.ctr = u32_of(&x["ctr"]);
        h.set_group_session(sec & 1 != 0);
        h.set_control_msg(sec & 0x40 != 0);
        let mut buf = [0u8; 64];
        let mut wb = WriteBuf::new(&mut buf);
        match h.encode(&mut wb) {
            Ok(()) => {
                if wb.as_slice() != enc {
                    d.push(format!("encode: {:?} instead of {:?}", wb.as_slice(), enc));
                }
            }
            Err(e) => d.push(format!("encode failed: {:?}", e.code())),
        }
    }
    // decode the reference bytes followed by a payload
    let mut full = enc.to_vec();
    full.extend_from_slice(&[7, 7, 7]);
    let mut h = PlainHdr::new();
    let mut pb = ParseBuf::new(&mut full[..]);
    match h.decode(&mut pb) {
        Ok(()) => {
            let dst_u = if x["dk"] == 1 { Some(u64_of(&x["dst"])) } else { None };
            let dst_g = if x["dk"] == 2 { Some(u64_of(&x["dst"]) as u16) } else { None };
            if h.get_src_nodeid() != src { d.push(format!("decode: src {:?}", h.get_src_nodeid())); }
            if h.get_dst_unicast_nodeid() != dst_u { d.push(format!("decode: dst node {:?}", h.get_dst_unicast_nodeid())); }
            if h.get_dst_groupcast_nodeid() != dst_g { d.push(format!("decode: dst group {:?}", h.get_dst_groupcast_nodeid())); }
            if h.sess_id as u64 != x["sess"].as_u64().unwrap() { d.push(format!("decode: session id {}", h.sess_id)); }
            if h.ctr != u32_of(&x["ctr"]) { d.push(format!("decode: counter {}", h.ctr)); }
            if h.is_group_session() != (sec & 1 != 0) || h.is_control_msg() != (sec & 0x40 != 0) || h.is_privacy() != (sec & 0x80 != 0) {
                d.push("decode: security flags".into());
            }
            if pb.as_slice() != [7, 7, 7] { d.push(format!("decode: payload starts at the wrong place ({} bytes left)", pb.as_slice().len())); }
            let mut buf = [0u8; 64];
            let mut wb = WriteBuf::new(&mut buf);
            if h.encode(&mut wb).is_err() || wb.as_slice() != enc {
                d.push(format!("re-encode: {:?} instead of {:?}", wb.as_slice(), enc));
            }
        }
        Err(e) => d.push(format!("decode of the reference encoding failed: {:?}", e.code())),
    }
    if trunc >= 0 {
        let mut t = enc[..trunc as usize].to_vec();
        let mut h = PlainHdr::new();
        let mut pb = ParseBuf::new(&mut t[..]);
        if h.decode(&mut pb).is_ok() { d.push(format!("a header cut to {trunc} bytes was accepted")); }
    }
    // reserved bits in the two flag bytes are refused
    for (pos, bit) in [(0usize, 0x10u8), (0, 0x80), (3, 0x02), (3, 0x10)] {
        let mut m = full.clone();
        m[pos] |= bit;
        let mut h = PlainHdr::new();
        let mut pb = ParseBuf::new(&mut m[..]);
        if h.decode(&mut pb).is_ok() { d.push(format!("reserved bit {bit:#x} of byte {pos} accepted")); }
    }
}

fn proto(x: &Value, enc: &[u8], trunc: i64, d: &mut Vec<String>) {
    let ack = if x["ack"].as_array().unwrap().is_empty() { None } else { Some(u32_of(&x["ack"])) };
    let vendor = if x["vendor"].as_i64().unwrap() < 0 { None } else { Some(x["vendor"].as_u64().unwrap() as u16) };
    if x["sx"] == false {
        let mut p = ProtoHdr::new();
        p.exch_id = x["exch"].as_u64().unwrap() as u16;
        p.proto_id = x["proto"].as_u64().unwrap() as u16;
        p.proto_opcode = x["op"].as_u64().unwrap() as u8;
        p.set_vendor(vendor);
        p.set_ack(ack);
        if x["rel"] == true { p.set_reliable(); }
        if x["init"] == true { p.set_initiator(); }
        let mut buf = [0u8; 64];
        let mut wb = WriteBuf::new(&mut buf);
        match p.encode(&mut wb) {
            Ok(()) => if wb.as_slice() != enc { d.push(format!("encode: {:?} instead of {:?}", wb.as_slice(), enc)); },
            Err(e) => d.push(format!("encode failed: {:?}", e.code())),
        }
    }
    let crypto = rs_matter::crypto::test_only_crypto();
    let ph = PlainHdr::new();
    let mut full = enc.to_vec();
    full.extend_from_slice(&[9, 9]);
    let mut p = ProtoHdr::new();
    let mut pb = ParseBuf::new(&mut full[..]);
    match p.decrypt_and_decode(&crypto, None, 0, &ph, &mut pb) {
        Ok(()) => {
            if p.get_ack() != ack { d.push(format!("decode: ack {:?}", p.get_ack())); }
            if p.get_vendor() != vendor { d.push(format!("decode: vendor {:?}", p.get_vendor())); }
            if p.is_reliable() != (x["rel"] == true) || p.is_initiator() != (x["init"] == true) || p.is_security_ext() != (x["sx"] == true) { d.push("decode: exchange flags".into()); }
            if p.exch_id as u64 != x["exch"].as_u64().unwrap() || p.proto_id as u64 != x["proto"].as_u64().unwrap() || p.proto_opcode as u64 != x["op"].as_u64().unwrap() {
                d.push("decode: exchange id / protocol id / opcode".into());
            }
            if pb.as_slice() != [9, 9] { d.push("decode: payload starts at the wrong place".into()); }
            let mut buf = [0u8; 64];
            let mut wb = WriteBuf::new(&mut buf);
            if p.encode(&mut wb).is_err() || wb.as_slice() != enc { d.push(format!("re-encode: {:?} instead of {:?}", wb.as_slice(), enc)); }
        }
        Err(e) => d.push(format!("decode of the reference encoding failed: {:?}", e.code())),
    }
    if trunc >= 0 {
        let mut t = enc[..trunc as usize].to_vec();
        let mut p = ProtoHdr::new();
        let mut pb = ParseBuf::new(&mut t[..]);
        if p.decrypt_and_decode(&crypto, None, 0, &ph, &mut pb).is_ok() { d.push(format!("a header cut to {trunc} bytes was accepted")); }
    }
    for bit in [0x20u8, 0x40, 0x80] {
        let mut m = full.clone();
        m[0] |= bit;
        let mut p = ProtoHdr::new();
        let mut pb = ParseBuf::new(&mut m[..]);
        if p.decrypt_and_decode(&crypto, None, 0, &ph, &mut pb).is_ok() { d.push(format!("reserved exchange flag {bit:#x} accepted")); }
    }
}

fn status(x: &Value, enc: &[u8], trunc: i64, d: &mut Vec<String>) {
    let data = bytes_of(&x["data"]);
    use rs_matter::sc::GeneralCode as G;
    const CODES: [G; 17] = [G::Success, G::Failure, G::BadPrecondition, G::OutOfRange, G::BadRequest, G::Unsupported, G::Unexpected, G::ResourceExhausted, G::Busy, G::Timeout,
                            G::Continue, G::Aborted, G::InvalidArgument, G::NotFound, G::AlreadyExists, G::PermissionDenied, G::DataLoss];
    let gen = CODES[x["gen"].as_u64().unwrap() as usize];
    if gen as u64 != x["gen"].as_u64().unwrap() { d.push("general code numbering".into()); }
    let s = StatusReport { general_code: gen, proto_id: u32_of(&x["pid"]), proto_code: x["code"].as_u64().unwrap() as u16, proto_data: &data };
    let mut buf = [0u8; 64];
    let mut wb = WriteBuf::new(&mut buf);
    match s.write(&mut wb) {
        Ok(()) => if wb.as_slice() != enc { d.push(format!("encode: {:?} instead of {:?}", wb.as_slice(), enc)); },
        Err(e) => d.push(format!("encode failed: {:?}", e.code())),
    }
    let mut rb = ReadBuf::new(enc);
    match StatusReport::read(&mut rb) {
        Ok(r) => {
            if r.general_code != gen || r.proto_id != s.proto_id || r.proto_code != s.proto_code || r.proto_data != &data[..] { d.push(format!("decode: {:?}", r)); }
        }
        Err(e) => d.push(format!("decode of the reference encoding failed: {:?}", e.code())),
    }
    if trunc >= 0 && (trunc as usize) < 8 {
        let mut rb = ReadBuf::new(&enc[..trunc as usize]);
        if StatusReport::read(&mut rb).is_ok() { d.push(format!("a report cut to {trunc} bytes was accepted")); }
    }
    // a general code beyond the defined ones is refused
    let mut m = enc.to_vec();
    m[0] = 17;
    let mut rb = ReadBuf::new(&m[..]);
    if StatusReport::read(&mut rb).is_ok() { d.push("general code 17 accepted".into()); }
}

fn tc_of(v: &Value) -> TransferControl {
    TransferControl { version: v["ver"].as_u64().unwrap() as u8, sender_drive: v["sd"] == true, receiver_drive: v["rd"] == true, async_mode: v["as"] == true }
}
fn rc_of(v: &Value) -> RangeControl {
    RangeControl { def_len: v["dl"] == true, start_offset: v["so"] == true, wide_range: v["wide"] == true }
}
fn cuts(enc: &[u8], min: usize, what: &str, f: impl Fn(&[u8]) -> bool, d: &mut Vec<String>) {
    for k in 0..enc.len().min(min) {
        if f(&enc[..k]) { d.push(format!("{what} cut to {k} bytes was accepted")); }
    }
}
fn bdx(fmt: &str, x: &Value, enc: &[u8], d: &mut Vec<String>) {
    let mut buf = [0u8; 128];
    let mut wb = WriteBuf::new(&mut buf);
    match fmt {
        "init" => {
            let fd = bytes_of(&x["fd"]);
            let meta = bytes_of(&x["meta"]);
            let t = TransferInit { transfer_control: tc_of(&x["tc"]), range_control: rc_of(&x["rc"]), max_block_size: x["mbs"].as_u64().unwrap() as u16,
                                   start_offset: u64_of(&x["off"]), length: u64_of(&x["len"]), file_designator: &fd, metadata: &meta };
            if t.write(&mut wb).is_err() || wb.as_slice() != enc { d.push(format!("encode: {:?} instead of {:?}", wb.as_slice(), enc)); }
            match TransferInit::parse(enc) {
                Ok(r) => {
                    if r.transfer_control != t.transfer_control || r.range_control != t.range_control || r.max_block_size != t.max_block_size || r.start_offset != t.start_offset
                        || r.length != t.length || r.file_designator != &fd[..] || r.metadata != &meta[..] { d.push(format!("decode: {:?}", r)); }
                }
                Err(e) => d.push(format!("decode of the reference encoding failed: {:?}", e.code())),
            }
            let fixed = enc.len() - meta.len();
            cuts(enc, fixed, "a TransferInit", |b| TransferInit::parse(b).is_ok(), d);
        }
        "accept" => {
            let meta = bytes_of(&x["meta"]);
            let receive = x["receive"] == true;
            let t = TransferAccept { receive, transfer_control: tc_of(&x["tc"]), range_control: rc_of(&x["rc"]), max_block_size: x["mbs"].as_u64().unwrap() as u16, length: u64_of(&x["len"]), metadata: &meta };
            if t.write(&mut wb).is_err() || wb.as_slice() != enc { d.push(format!("encode: {:?} instead of {:?}", wb.as_slice(), enc)); }
            match TransferAccept::parse(receive, enc) {
                Ok(r) => {
                    if r.transfer_control != t.transfer_control || r.range_control != t.range_control || r.max_block_size != t.max_block_size || r.length != t.length || r.metadata != &meta[..] { d.push(format!("decode: {:?}", r)); }
                }
                Err(e) => d.push(format!("decode of the reference encoding failed: {:?}", e.code())),
            }
            let fixed = enc.len() - meta.len();
            cuts(enc, fixed, "a TransferAccept", |b| TransferAccept::parse(receive, b).is_ok(), d);
        }
        _ => {
            let data = bytes_of(&x["data"]);
            let t = Block { block_counter: u32_of(&x["ctr"]), data: &data };
            if t.write(&mut wb).is_err() || wb.as_slice() != enc { d.push(format!("encode: {:?} instead of {:?}", wb.as_slice(), enc)); }
            match Block::parse(enc) {
                Ok(r) => if r.block_counter != t.block_counter || r.data != &data[..] { d.push(format!("decode: {:?}", r)); },
                Err(e) => d.push(format!("decode of the reference encoding failed: {:?}", e.code())),
            }
            cuts(enc, 4, "a Block", |b| Block::parse(b).is_ok(), d);
        }
    }
}

fn b38(x: &Value, enc: &Value, muts: &Value, d: &mut Vec<String>) {
    let bytes = bytes_of(x);
    let text = chars_of(enc);
    match base38::encode_string::<64>(&bytes) {
        Ok(s) => if s.as_str() != text { d.push(format!("encode: {s} instead of {text}")); },
        Err(e) => d.push(format!("encode failed: {:?}", e.code())),
    }
    match base38::decode_vec::<64>(&text) {
        Ok(v) => if v[..] != bytes[..] { d.push(format!("decode: {:?}", v)); },
        Err(e) => d.push(format!("decode of the reference encoding failed: {:?}", e.code())),
    }
    for m in muts.as_array().unwrap() {
        let s = chars_of(&m["s"]);
        let real = base38::decode_vec::<64>(&s);
        if m["verdict"]["err"] == true {
            if let Ok(v) = real { d.push(format!("decode of {s:?} gives {:?}, the reference refuses it", v)); }
        } else {
            let want = bytes_of(&m["verdict"]["bytes"]);
            match real {
                Ok(v) => if v[..] != want[..] { d.push(format!("decode of {s:?} gives {:?} instead of {:?}", v, want)); },
                Err(e) => d.push(format!("decode of {s:?} fails ({:?}), the reference gives {:?}", e.code(), want)),
            }
        }
    }
}

fn manual_cmp(s: &str, verdict: &Value, d: &mut Vec<String>) {
    let real = QrPayload::parse_pairing_code(s);
    if verdict["err"] == true {
        if let Ok(p) = real { d.push(format!("code {s} accepted (passcode {}), the reference refuses it", p.passcode())); }
    } else {
        match real {
            Ok(p) => {
                let long = verdict["long"] == true;
                let vp = if long { Some((verdict["vid"].as_u64().unwrap() as u16, verdict["pid"].as_u64().unwrap() as u16)) } else { None };
                if p.passcode() as u64 != verdict["pass"].as_u64().unwrap() || p.short_discriminator() as u64 != verdict["sd"].as_u64().unwrap() || p.vid_pid() != vp {
                    d.push(format!("code {s}: passcode {} short discriminator {} vid/pid {:?}, the reference says {}", p.passcode(), p.short_discriminator(), p.vid_pid(), verdict));
                }
            }
            Err(e) => d.push(format!("code {s} refused ({:?}), the reference accepts it: {}", e.code(), verdict)),
        }
    }
}
fn manual(x: &Value, enc: &Value, muts: &Value, d: &mut Vec<String>) {
    let text = digits_of(enc);
    let pass = x["pass"].as_u64().unwrap() as u32;
    let disc = x["disc"].as_u64().unwrap() as u16;
    if x["long"] == false {
        let cd = BasicCommData { password: pass.to_le_bytes().into(), discriminator: disc };
        let s = cd.compute_pairing_code();
        if s.as_str() != text { d.push(format!("encode: {s} instead of {text}")); }
        let pretty = cd.compute_pretty_pairing_code();
        let want = format!("{}-{}-{}", &text[..4], &text[4..8], &text[8..]);
        if pretty.as_str() != want { d.push(format!("pretty form: {pretty} instead of {want}")); }
        manual_cmp(&want, &json!({"err": false, "pass": pass, "sd": disc >> 8, "long": false, "vid": 0, "pid": 0}), d);
    }
    manual_cmp(&text, &json!({"err": false, "pass": pass, "sd": disc >> 8, "long": x["long"], "vid": x["vid"], "pid": x["pid"]}), d);
    for m in muts.as_array().unwrap() {
        manual_cmp(&digits_of(&m["s"]), &m["verdict"], d);
    }
}

fn qr_cmp(s: &str, verdict: &Value, d: &mut Vec<String>) {
    let mut buf = [0u8; 128];
    let real = QrPayload::parse(s, &mut buf);
    if verdict["err"] == true {
        if let Ok(p) = real { d.push(format!("text {s} accepted (passcode {}, discriminator {}), the reference refuses it", p.passcode(), p.discriminator())); }
    } else {
        match real {
            Ok(p) => {
                let got = json!({"ver": p.version(), "vid": p.vid(), "pid": p.pid(), "flow": p.comm_flow() as u8, "caps": p.discovery_capabilities().bits(), "disc": p.discriminator(), "pass": p.passcode(), "extra": p.optional_data().len()});
                for k in ["ver", "vid", "pid", "flow", "disc", "pass", "extra"] {
                    if got[k] != verdict[k] { d.push(format!("text {s}: {k} = {} instead of {}", got[k], verdict[k])); }
                }
                // capability bits this implementation does not know are dropped; the known ones must agree
                let known = DiscoveryCapabilities::all().bits() as u64;
                if got["caps"].as_u64().unwrap() != verdict["caps"].as_u64().unwrap() & known { d.push(format!("text {s}: caps = {} instead of {}", got["caps"], verdict["caps"])); }
            }
            Err(e) => d.push(format!("text {s} refused ({:?}), the reference accepts it: {}", e.code(), verdict)),
        }
    }
}
fn qr(x: &Value, enc: &Value, muts: &Value, d: &mut Vec<String>) {
    let text = format!("MT:{}", chars_of(enc));
    let caps = x["caps"].as_u64().unwrap() as u8;
    let flow = match x["flow"].as_u64().unwrap() { 0 => CommFlowType::Standard, 1 => CommFlowType::UserIntent, _ => CommFlowType::Custom };
    if let Some(dc) = DiscoveryCapabilities::from_bits(caps) {
        let cd = BasicCommData { password: (x["pass"].as_u64().unwrap() as u32).to_le_bytes().into(), discriminator: x["disc"].as_u64().unwrap() as u16 };
        let serial = String::from_utf8(bytes_of(&x["serial"])).unwrap();
        let q = QrPayload::new(dc, flow, cd, x["vid"].as_u64().unwrap() as u16, x["pid"].as_u64().unwrap() as u16, &serial, no_optional_data);
        let mut buf = [0u8; 256];
        match q.as_str(&mut buf) {
            Ok((s, _)) => if s != text { d.push(format!("encode: {s} instead of {text}")); },
            Err(e) => d.push(format!("encode failed: {:?}", e.code())),
        }
    }
    let serial = bytes_of(&x["serial"]);
    let mut v = json!({"err": false, "ver": 0, "extra": if serial.is_empty() { 0 } else { serial.len() + 5 }});
    for k in ["vid", "pid", "flow", "caps", "disc", "pass"] { v[k] = x[k].clone(); }
    qr_cmp(&text, &v, d);
    {
        let mut buf = [0u8; 128];
        if let Ok(p) = QrPayload::parse(&text, &mut buf) {
            if p.serial_no().as_bytes() != &serial[..] { d.push(format!("text {text}: serial number {:?}", p.serial_no())); }
        }
    }
    // the prefix is mandatory
    qr_cmp(&text[3..], &json!({"err": true}), d);
    for m in muts.as_array().unwrap() {
        qr_cmp(&format!("MT:{}", chars_of(&m["s"])), &m["verdict"], d);
    }
}

fn adv(x: &Value, enc: &[u8], trunc: i64, d: &mut Vec<String>) {
    use rs_matter::transport::network::btp::AdvData;
    let (vid, pid, disc) = (x["vid"].as_u64().unwrap() as u16, x["pid"].as_u64().unwrap() as u16, x["disc"].as_u64().unwrap() as u16);
    let det = rs_matter::dm::clusters::basic_info::BasicInfoConfig { vid, pid, ..rs_matter::dm::devices::test::TEST_DEV_DET };
    let a = AdvData::new(&det, disc);
    let got: Vec<u8> = a.iter().collect();
    if got != enc { d.push(format!("encode: {:?} instead of {:?}", got, enc)); }
    match AdvData::parse_adv(enc) {
        Some(p) => if p.vid() != vid || p.pid() != pid || p.discriminator() != disc || p.additional_data() { d.push(format!("decode: {:?}", p)); },
        None => d.push("decode of the reference encoding failed".into()),
    }
    if trunc >= 0 && AdvData::parse_adv(&enc[..trunc as usize]).is_some() { d.push(format!("an advertisement cut to {trunc} bytes was accepted")); }
    // another opcode, another service UUID: not a commissionable Matter device
    let mut m = enc.to_vec();
    m[7] = 1;
    if AdvData::parse_adv(&m).is_some() { d.push("opcode 1 accepted as commissionable".into()); }
    let mut m = enc.to_vec();
    m[5] = 0xF5;
    if AdvData::parse_adv(&m).is_some() { d.push("service UUID 0xFFF5 accepted".into()); }
    // the version nibble does not leak into the discriminator
    let mut m = enc.to_vec();
    m[9] |= 0x30;
    match AdvData::parse_adv(&m) {
        Some(p) => if p.discriminator() != disc { d.push(format!("version bits leak into the discriminator: {}", p.discriminator())); },
        None => {}
    }
}

fn mdns(x: &Value, enc: &[u8], trunc: i64, d: &mut Vec<String>) {
    use rs_matter::transport::network::mdns::builtin::parse_into_answer;
    let label = |v: &Value| String::from_utf8(bytes_of(v)).unwrap();
    match parse_into_answer(enc, None) {
        Ok(Some(svc)) => {
            let name = format!("{}", svc.instance_name);
            let want = format!("{}._matterc._udp.local", label(&x["inst"]));
            if name.trim_end_matches('.') != want { d.push(format!("decode: instance name {name} instead of {want}")); }
            if svc.port != Some(x["port"].as_u64().unwrap() as u16) { d.push(format!("decode: port {:?}", svc.port)); }
            let addrs: Vec<String> = svc.addrs.map(|a| format!("{a}")).collect();
            let mut wa = Vec::new();
            let a6 = bytes_of(&x["a6"]);
            let mut o = [0u8; 16];
            o.copy_from_slice(&a6);
            wa.push(format!("{}", std::net::Ipv6Addr::from(o)));
            let a4 = bytes_of(&x["a4"]);
            if a4.len() == 4 { wa.push(format!("{}", std::net::Ipv4Addr::new(a4[0], a4[1], a4[2], a4[3]))); }
            let mut got = addrs.clone();
            got.sort();
            wa.sort();
            if got != wa { d.push(format!("decode: addresses {:?} instead of {:?}", addrs, wa)); }
            // key and value separately: the key ends at the first "="
            let txt: Vec<(String, String)> = svc.txt.map(|(k, v)| (k.to_string(), v.to_string())).collect();
            let wt: Vec<(String, String)> = x["txt"].as_array().unwrap().iter().map(|t| (label(&t["k"]), label(&t["v"]))).collect();
            if txt != wt { d.push(format!("decode: txt {:?} instead of {:?}", txt, wt)); }
        }
        Ok(None) => d.push("decode: nothing resolvable found in the reference answer".into()),
        Err(e) => d.push(format!("decode of the reference encoding failed: {:?}", e.code())),
    }
    // a cut answer never yields a port or an address that is not in the full one (and never panics)
    if trunc >= 0 {
        let t = &enc[..(trunc as usize * enc.len() / 61).min(enc.len())];
        if let Ok(Some(svc)) = parse_into_answer(t, None) {
            if let Some(p) = svc.port { if p as u64 != x["port"].as_u64().unwrap() { d.push(format!("cut answer: port {p}")); } }
            let _ = svc.addrs.count();
            let _ = svc.txt.count();
        }
    }
    // a query (QR = 0) is not an answer
    let mut m = enc.to_vec();
    m[2] &= 0x7f;
    if !matches!(parse_into_answer(&m, None), Ok(None)) { d.push("a query was taken for an answer".into()); }
}

/// Every decoder on every single-byte mutation of a valid input: a value or an error, never a panic or a hang.
fn robustness(fmt: &str, enc: &[u8], d: &mut Vec<String>) {
    let crypto = rs_matter::crypto::test_only_crypto();
    for pos in 0..enc.len() {
        for nb in [0u8, 0xff, enc[pos].wrapping_add(1), enc[pos] ^ 0x80] {
            let mut m = enc.to_vec();
            m[pos] = nb;
            let r = catch(|| {
                match fmt {
                    "plain" => { let mut h = PlainHdr::new(); let mut pb = ParseBuf::new(&mut m[..]); let _ = h.decode(&mut pb); }
                    "proto" => { let mut p = ProtoHdr::new(); let ph = PlainHdr::new(); let mut pb = ParseBuf::new(&mut m[..]); let _ = p.decrypt_and_decode(&crypto, None, 0, &ph, &mut pb); }
                    "status" => { let mut rb = ReadBuf::new(&m[..]); let _ = StatusReport::read(&mut rb); }
                    "init" => { let _ = TransferInit::parse(&m); }
                    "accept" => { let _ = TransferAccept::parse(true, &m); let _ = TransferAccept::parse(false, &m); }
                    "block" => { let _ = Block::parse(&m); let _ = rs_matter::bdx::BlockQuery::parse(&m); let _ = rs_matter::bdx::BlockQueryWithSkip::parse(&m); }
                    "adv" => { let _ = rs_matter::transport::network::btp::AdvData::parse_adv(&m); let _ = rs_matter::transport::network::btp::RecoveryAdvData::parse_adv(&m); }
                    "mdns" => {
                        if let Ok(Some(svc)) = rs_matter::transport::network::mdns::builtin::parse_into_answer(&m, Some(3)) {
                            let _ = format!("{}", svc.instance_name);
                            let _ = svc.addrs.take(100).count();
                            let _ = svc.txt.take(100).count();
                        }
                    }
                    _ => {}
                }
            });
            if let Err(p) = r { d.push(format!("PANIC on byte {pos} := {nb}: {p}")); return; }
        }
    }
}

pub fn run(args: &[String]) -> i32 {
    let vecs = read_ndjson(&arg(args, "--vectors").expect("--vectors"));
    let mut tr = Trace::create(&arg(args, "--out").expect("--out"));
    let mut bad = 0;
    for (i, v) in vecs.iter().enumerate() {
        let fmt = v["fmt"].as_str().unwrap().to_string();
        let r = catch(|| {
            let mut d: Vec<String> = Vec::new();
            let enc = bytes_of(&v["enc"]);
            let trunc = v["trunc"].as_i64().unwrap_or(-1);
            match fmt.as_str() {
                "plain" => plain(&v["x"], &enc, trunc, &mut d),
                "proto" => proto(&v["x"], &enc, trunc, &mut d),
                "status" => status(&v["x"], &enc, trunc, &mut d),
                "init" | "accept" | "block" => bdx(&fmt, &v["x"], &enc, &mut d),
                "adv" => adv(&v["x"], &enc, trunc, &mut d),
                "mdns" => mdns(&v["x"], &enc, trunc, &mut d),
                "b38" => b38(&v["x"], &v["enc"], &v["mut"], &mut d),
                "manual" => manual(&v["x"], &v["enc"], &v["mut"], &mut d),
                "qr" => qr(&v["x"], &v["enc"], &v["mut"], &mut d),
                f => panic!("format {f}"),
            }
            if i % 4 == 0 || fmt == "mdns" { robustness(&fmt, &enc, &mut d); }
            d
        });
        let diffs = match r {
            Ok(d) => d,
            Err(m) => vec![format!("PANIC {m}")],
        };
        if !diffs.is_empty() { bad += 1; }
        tr.ev(json!({"i": i, "fmt": fmt, "diffs": diffs}));
    }
    tr.finish();
    println!("{}", json!({"vectors": vecs.len(), "disagreeing": bad}));
    0
}
