//! Simulation core: virtual clock (embassy time driver), flag waker, in-memory adversarial
//! network, recording / fault-injecting key-value store.
#![allow(dead_code)]

use core::cell::RefCell;
use core::task::{Poll, Waker};
use std::collections::{BTreeMap, VecDeque};
use std::rc::Rc;
use std::sync::atomic::{AtomicBool, AtomicU64, Ordering};
use std::sync::Arc;
use std::task::Wake;

use embassy_time_driver::Driver;
use embassy_time_queue_utils::Queue;

use rs_matter::error::{Error, ErrorCode};
use rs_matter::persist::KvBlobStore;
use rs_matter::transport::network::{
    Address, Ipv6Addr, NetworkReceive, NetworkSend, SocketAddr, SocketAddrV6,
};

// ---------------------------------------------------------------- virtual clock

pub struct VDriver {
    now: AtomicU64,
    q: critical_section::Mutex<RefCell<Queue>>,
}

impl Driver for VDriver {
    fn now(&self) -> u64 {
        self.now.load(Ordering::SeqCst)
    }
    fn schedule_wake(&self, at: u64, waker: &Waker) {
        // An already expired timer must wake at once (embassy `Timer` always registers + yields once).
        if at <= self.now.load(Ordering::SeqCst) {
            waker.wake_by_ref();
            return;
        }
        critical_section::with(|cs| {
            self.q.borrow(cs).borrow_mut().schedule_wake(at, waker);
        });
    }
}

embassy_time_driver::time_driver_impl!(static DRIVER: VDriver = VDriver {
    now: AtomicU64::new(0),
    q: critical_section::Mutex::new(RefCell::new(Queue::new())),
});

/// Reset the virtual clock to `t` ticks (start of a scenario). Pending timers of dropped futures are
/// harmless: their wakers are woken into a dead flag.
pub fn clock_reset() {
    critical_section::with(|cs| {
        let mut q = DRIVER.q.borrow(cs).borrow_mut();
        // fire everything that is still queued so the queue is empty
        q.next_expiration(u64::MAX - 1);
        DRIVER.now.store(0, Ordering::SeqCst);
    });
}

/// Time of the next armed timer, in ms (None = no timer armed).
pub fn next_timer_ms() -> Option<u64> {
    critical_section::with(|cs| {
        let mut q = DRIVER.q.borrow(cs).borrow_mut();
        let now = DRIVER.now.load(Ordering::SeqCst);
        let next = q.next_expiration(now);
        if next == u64::MAX {
            None
        } else {
            Some(next * 1000 / embassy_time::TICK_HZ)
        }
    })
}

/// Advance the clock to the next armed timer and fire it. `false` if no timer is armed.
pub fn advance_to_next() -> bool {
    critical_section::with(|cs| {
        let mut q = DRIVER.q.borrow(cs).borrow_mut();
        let now = DRIVER.now.load(Ordering::SeqCst);
        let next = q.next_expiration(now);
        if next == u64::MAX {
            return false;
        }
        DRIVER.now.store(next, Ordering::SeqCst);
        q.next_expiration(next);
        true
    })
}

/// Advance the clock by `us` microseconds, firing all timers that become due.
pub fn advance_us(us: u64) {
    critical_section::with(|cs| {
        let mut q = DRIVER.q.borrow(cs).borrow_mut();
        let now = DRIVER.now.load(Ordering::SeqCst) + us * embassy_time::TICK_HZ / 1_000_000;
        DRIVER.now.store(now, Ordering::SeqCst);
        q.next_expiration(now);
    })
}

/// Advance the clock to absolute time `ms` (no-op if already past), firing due timers one by one is
/// the caller's business (use `advance_to_next` in a loop for that); this jumps.
pub fn advance_to_ms(ms: u64) {
    let target = ms * embassy_time::TICK_HZ / 1000;
    critical_section::with(|cs| {
        let mut q = DRIVER.q.borrow(cs).borrow_mut();
        if DRIVER.now.load(Ordering::SeqCst) < target {
            DRIVER.now.store(target, Ordering::SeqCst);
        }
        q.next_expiration(DRIVER.now.load(Ordering::SeqCst));
    })
}

pub fn now_ms() -> u64 {
    embassy_time::Instant::now().as_millis()
}

pub fn now_us() -> u64 {
    embassy_time::Instant::now().as_micros()
}

static SEQ: std::sync::atomic::AtomicUsize = std::sync::atomic::AtomicUsize::new(0);
/// One global order for everything the harness observes (datagrams put on the wire, application events).
pub fn next_seq() -> usize {
    SEQ.fetch_add(1, Ordering::SeqCst)
}

// ---------------------------------------------------------------- flag waker

pub struct Flag(pub AtomicBool);
impl Wake for Flag {
    fn wake(self: Arc<Self>) {
        self.0.store(true, Ordering::SeqCst);
    }
    fn wake_by_ref(self: &Arc<Self>) {
        self.0.store(true, Ordering::SeqCst);
    }
}
impl Flag {
    pub fn new() -> Arc<Self> {
        Arc::new(Flag(AtomicBool::new(true)))
    }
    pub fn take(&self) -> bool {
        self.0.swap(false, Ordering::SeqCst)
    }
    pub fn set(&self) {
        self.0.store(true, Ordering::SeqCst)
    }
}

// ---------------------------------------------------------------- network

pub const MAX_NODES: usize = 4;

#[derive(Default)]
pub struct NodeQ {
    pub inbox: VecDeque<(Vec<u8>, Address)>,
    pub waker: Option<Waker>,
}

/// A datagram on the simulated wire.
#[derive(Clone, Debug)]
pub struct Dgram {
    pub id: usize,
    /// position in the global order of observable events (see `next_seq`)
    pub seq: usize,
    pub src: usize,
    pub dst: usize,
    pub data: Vec<u8>,
    pub t_ms: u64,
}

#[derive(Default)]
pub struct Net {
    pub wire: VecDeque<Dgram>,
    pub nodes: [NodeQ; MAX_NODES],
    pub next_id: usize,
    /// every datagram ever put on the wire by a node (the tap)
    pub tap: Vec<Dgram>,
    /// when each node's transport read a datagram from its socket: (node, time ms, session id, message counter)
    pub reads: Vec<(usize, u64, u16, u32)>,
    /// datagrams sent to addresses outside the simulated nodes (multicast groups): recorded, delivered nowhere
    pub far: Vec<Dgram>,
    /// slow network sends: (node, ordinal of the send call of that node (0-based), duration in ms) - the call
    /// returns, and the datagram reaches the wire, only after that time
    pub slow: Vec<(usize, usize, u64)>,
    pub n_send_calls: [usize; MAX_NODES],
}

pub type NetRef = Rc<RefCell<Net>>;

pub fn new_net() -> NetRef {
    Rc::new(RefCell::new(Net::default()))
}

pub fn sock(i: usize) -> SocketAddrV6 {
    SocketAddrV6::new(Ipv6Addr::new(0xfd00, 0, 0, 0, 0, 0, 0, 1 + i as u16), 5540 + i as u16, 0, 0)
}
pub fn addr(i: usize) -> Address {
    Address::Udp(SocketAddr::V6(sock(i)))
}
pub fn idx(a: &Address) -> usize {
    match a {
        // addresses outside the simulated nodes (segment 6 set) go nowhere
        Address::Udp(SocketAddr::V6(s)) if s.ip().segments()[6] != 0 => usize::MAX,
        Address::Udp(SocketAddr::V6(s)) => (s.ip().segments()[7] as usize).wrapping_sub(1) % MAX_NODES,
        _ => 0,
    }
}

impl Net {
    /// Hand a datagram to node `dst` as coming from node `src` (wakes its receiver).
    pub fn deliver(&mut self, src: usize, dst: usize, data: Vec<u8>) {
        let n = &mut self.nodes[dst];
        n.inbox.push_back((data, addr(src)));
        if let Some(w) = n.waker.take() {
            w.wake();
        }
    }
    pub fn drop_inboxes(&mut self) {
        for n in self.nodes.iter_mut() {
            n.inbox.clear();
        }
    }
}

pub struct Tx(pub NetRef, pub usize);
pub struct Rx(pub NetRef, pub usize);

impl NetworkSend for Tx {
    async fn send_to(&mut self, data: &[u8], a: Address) -> Result<(), Error> {
        let delay = {
            let mut n = self.0.borrow_mut();
            let ord = n.n_send_calls[self.1];
            n.n_send_calls[self.1] += 1;
            n.slow.iter().find(|(node, o, _)| *node == self.1 && *o == ord).map(|x| x.2)
        };
        // the time stamp of a datagram is when the stack handed it to the network (a slow send returns later)
        let t_call = now_ms();
        if let Some(ms) = delay {
            embassy_time::Timer::after_millis(ms).await;
        }
        let mut n = self.0.borrow_mut();
        let id = n.next_id;
        n.next_id += 1;
        let d = Dgram { id, seq: next_seq(), src: self.1, dst: idx(&a), data: data.to_vec(), t_ms: t_call };
        if d.dst == usize::MAX {
            n.far.push(d);
            return Ok(());
        }
        n.tap.push(d.clone());
        n.wire.push_back(d);
        Ok(())
    }
}

impl NetworkReceive for Rx {
    async fn wait_available(&mut self) -> Result<(), Error> {
        core::future::poll_fn(|cx| {
            let mut n = self.0.borrow_mut();
            if n.nodes[self.1].inbox.is_empty() {
                n.nodes[self.1].waker = Some(cx.waker().clone());
                Poll::Pending
            } else {
                Poll::Ready(())
            }
        })
        .await;
        Ok(())
    }
    async fn recv_from(&mut self, buffer: &mut [u8]) -> Result<(usize, Address), Error> {
        self.wait_available().await?;
        let (d, a) = self.0.borrow_mut().nodes[self.1].inbox.pop_front().unwrap();
        if d.len() >= 8 {
            let rec = (self.1, now_ms(), u16::from_le_bytes([d[1], d[2]]), u32::from_le_bytes([d[4], d[5], d[6], d[7]]));
            self.0.borrow_mut().reads.push(rec);
        }
        let len = d.len().min(buffer.len());
        buffer[..len].copy_from_slice(&d[..len]);
        Ok((len, a))
    }
}

// ---------------------------------------------------------------- key-value store

#[derive(Clone, Debug)]
pub enum KvOp {
    Store(u16, Vec<u8>),
    Remove(u16),
}

#[derive(Default)]
pub struct KvState {
    pub blobs: BTreeMap<u16, Vec<u8>>,
    /// every mutating operation that was applied, in order, with its virtual time
    pub log: Vec<(u64, KvOp)>,
    /// number of loads / stores / removes seen (also failed ones)
    pub n_ops: usize,
    /// fail (return an error, apply nothing) the mutating operation with this ordinal (0-based)
    pub fail_at: Option<usize>,
    pub n_mut: usize,
    /// every applied store with its position in the global order of observable events: (seq, key, data)
    pub store_seqs: Vec<(usize, u16, Vec<u8>)>,
}

pub type KvRef = Rc<RefCell<KvState>>;
pub fn new_kv() -> KvRef {
    Rc::new(RefCell::new(KvState::default()))
}

impl KvState {
    /// The store as it was after the first `n` logged operations.
    pub fn prefix(&self, n: usize) -> BTreeMap<u16, Vec<u8>> {
        let mut m = BTreeMap::new();
        for (_, op) in self.log.iter().take(n) {
            match op {
                KvOp::Store(k, v) => {
                    m.insert(*k, v.clone());
                }
                KvOp::Remove(k) => {
                    m.remove(k);
                }
            }
        }
        m
    }
}

pub struct RecKv(pub KvRef);

impl KvBlobStore for RecKv {
    fn load<'a>(&mut self, key: u16, buf: &'a mut [u8]) -> Result<Option<&'a [u8]>, Error> {
        let mut s = self.0.borrow_mut();
        s.n_ops += 1;
        match s.blobs.get(&key) {
            Some(d) => {
                if d.len() > buf.len() {
                    return Err(ErrorCode::NoSpace.into());
                }
                buf[..d.len()].copy_from_slice(d);
                Ok(Some(&buf[..d.len()]))
            }
            None => Ok(None),
        }
    }
    fn store(&mut self, key: u16, data: &[u8], _buf: &mut [u8]) -> Result<(), Error> {
        let mut s = self.0.borrow_mut();
        s.n_ops += 1;
        let ord = s.n_mut;
        s.n_mut += 1;
        if s.fail_at == Some(ord) {
            return Err(ErrorCode::StdIoError.into());
        }
        s.blobs.insert(key, data.to_vec());
        s.log.push((now_ms(), KvOp::Store(key, data.to_vec())));
        s.store_seqs.push((next_seq(), key, data.to_vec()));
        Ok(())
    }
    fn remove(&mut self, key: u16, _buf: &mut [u8]) -> Result<(), Error> {
        let mut s = self.0.borrow_mut();
        s.n_ops += 1;
        let ord = s.n_mut;
        s.n_mut += 1;
        if s.fail_at == Some(ord) {
            return Err(ErrorCode::StdIoError.into());
        }
        s.blobs.remove(&key);
        s.log.push((now_ms(), KvOp::Remove(key)));
        Ok(())
    }
}
