//! Interaction Model world (C06, C14): a device with a runtime-built node (endpoints, clusters, attributes with
//! declared access, sizes and list shapes, commands), an instrumented generic handler that logs every read / write /
//! invoke it receives, an access-control list, and a controller that drives real Read / Write / Invoke (optionally
//! timed) interactions through `ImClient` over a planted CASE or PASE session.

use core::cell::{Cell, RefCell};
use core::num::NonZeroU8;
use core::pin::pin;

use embassy_futures::select::{select, select4};
use serde_json::{json, Value};

use rs_matter::acl::{AclEntry, AuthMode, Target};
use rs_matter::crypto::test_only_crypto;
use rs_matter::dm::clusters::net_comm::DummyNetworks;
use rs_matter::dm::devices::test::{TEST_DEV_ATT, TEST_DEV_COMM, TEST_DEV_DET};
use rs_matter::dm::*;
use rs_matter::error::{Error, ErrorCode};
use rs_matter::im::client::{ImClient, TxOutcome};
use rs_matter::im::{AttrPath, AttrResp, GenericPath, InteractionModel, InteractionModelState};
use rs_matter::persist::DummyKvBlobStore;
use rs_matter::respond::Responder;
use rs_matter::tlv::{OctetStr, TLVTag, TLVWrite, ToTLV};
use rs_matter::transport::exchange::{Exchange, MatterBuffers};
use rs_matter::transport::network::NoNetwork;
use rs_matter::utils::select::Coalesce;
use rs_matter::Matter;

use crate::c03::plant;
use crate::sim::{self, Rx, Tx};
use crate::world::{drive, Limits, Step};

/// One attribute of the generic handler: scalar octet string of `size` bytes, or a list of octet strings.
#[derive(Clone, Debug)]
pub struct AttrSpec {
    pub id: u32,
    pub access: Access,
    pub size: usize,
    pub list: Option<Vec<usize>>,
}
#[derive(Clone, Debug)]
pub struct ClusterSpec {
    pub id: u32,
    pub attrs: Vec<AttrSpec>,
    pub cmds: Vec<(u32, Access)>,
}
#[derive(Clone, Debug)]
pub struct NodeSpec {
    pub endpoints: Vec<(u16, Vec<ClusterSpec>)>,
    /// events in the node's queue before the request: (endpoint, cluster, event id, payload bytes)
    pub events: Vec<(u16, u32, u32, usize)>,
}

pub struct Gen {
    pub spec: NodeSpec,
    pub log: RefCell<Vec<Value>>,
}
impl Gen {
    fn attr(&self, ep: u16, cl: u32, id: u32) -> Option<&AttrSpec> {
        self.spec.endpoints.iter().find(|e| e.0 == ep)?.1.iter().find(|c| c.id == cl)?.attrs.iter().find(|a| a.id == id)
    }
}
/// the value of element `i` of a list / of a scalar: `len` bytes derived from (attribute id, index)
pub fn fill(id: u32, i: usize, len: usize) -> Vec<u8> {
    (0..len).map(|k| (id as u8).wrapping_mul(31).wrapping_add(i as u8).wrapping_add((k % 7) as u8)).collect()
}
impl Handler for Gen {
    fn read(&self, ctx: impl ReadContext, reply: impl ReadReply) -> Result<(), Error> {
        let attr = ctx.attr();
        let li = attr.list_index.clone().map(|n| n.into_option());
        self.log.borrow_mut().push(json!({"h": "read", "ep": attr.endpoint_id, "cl": attr.cluster_id, "leaf": attr.attr_id, "li": match li { None => json!("whole"), Some(None) => json!("empty"), Some(Some(i)) => json!(i) }}));
        let spec = self.attr(attr.endpoint_id, attr.cluster_id, attr.attr_id).ok_or(ErrorCode::AttributeNotFound)?;
        let Some(mut writer) = reply.with_dataver(1)? else { return Ok(()) };
        match (&spec.list, li) {
            (Some(els), None) => {
                let tag = writer.tag().clone();
                {
                    let mut w = writer.writer();
                    w.start_array(&tag)?;
                    for (i, e) in els.iter().enumerate() {
                        w.str(&TLVTag::Anonymous, &fill(spec.id, i, *e))?;
                    }
                    w.end_container()?;
                }
                writer.complete()
            }
            (Some(_), Some(None)) => {
                let tag = writer.tag().clone();
                {
                    let mut w = writer.writer();
                    w.start_array(&tag)?;
                    w.end_container()?;
                }
                writer.complete()
            }
            (Some(els), Some(Some(i))) => {
                let e = els.get(i as usize).ok_or(ErrorCode::ConstraintError)?;
                writer.set(OctetStr::new(&fill(spec.id, i as usize, *e)))
            }
            (None, _) => writer.set(OctetStr::new(&fill(spec.id, 0, spec.size))),
        }
    }
    fn write(&self, ctx: impl WriteContext) -> Result<(), Error> {
        let a = ctx.attr();
        self.log.borrow_mut().push(json!({"h": "write", "ep": a.endpoint_id, "cl": a.cluster_id, "leaf": a.attr_id}));
        Ok(())
    }
    fn invoke(&self, ctx: impl InvokeContext, _reply: impl InvokeReply) -> Result<(), Error> {
        let c = ctx.cmd();
        self.log.borrow_mut().push(json!({"h": "invoke", "ep": c.endpoint_id, "cl": c.cluster_id, "leaf": c.cmd_id}));
        Ok(())
    }
    fn bump_dataver(&self, _ctx: impl MatchContext) {}
}
impl NonBlockingHandler for Gen {}

pub fn build_node(spec: &NodeSpec) -> Node<'static> {
    let endpoints: Vec<Endpoint<'static>> = spec.endpoints.iter().map(|(eid, cls)| {
        let clusters: Vec<Cluster<'static>> = cls.iter().map(|c| {
            let attrs: &'static [Attribute] = Box::leak(c.attrs.iter().map(|a| Attribute::new(a.id, a.access, if a.list.is_some() { Quality::A } else { Quality::NONE })).collect::<Vec<_>>().into_boxed_slice());
            let cmds: &'static [Command] = Box::leak(c.cmds.iter().map(|(id, acc)| Command::new(*id, None, *acc)).collect::<Vec<_>>().into_boxed_slice());
            let mut evids: Vec<u32> = spec.events.iter().filter(|e| e.0 == *eid && e.1 == c.id).map(|e| e.2).collect();
            evids.sort();
            evids.dedup();
            let evs: &'static [rs_matter::dm::Event] = Box::leak(evids.iter().map(|id| rs_matter::dm::Event::new(*id, Access::RV)).collect::<Vec<_>>().into_boxed_slice());
            Cluster::new(c.id, 1, 0, attrs, cmds, evs, |_, _, _| true, |_, _, _| true, |_, _, _| true)
        }).collect();
        let clusters: &'static [Cluster<'static>] = Box::leak(clusters.into_boxed_slice());
        Endpoint::new(*eid, &[], clusters)
    }).collect();
    Node::new(Box::leak(endpoints.into_boxed_slice()))
}

#[derive(Clone, Debug)]
pub struct Req {
    pub kind: String,
    /// (endpoint, cluster, leaf): None = wildcard
    pub paths: Vec<(Option<u16>, Option<u32>, Option<u32>)>,
    pub timed: bool,
    /// reads: event paths asked for besides the attribute paths
    pub ev_paths: Vec<(Option<u16>, Option<u32>, Option<u32>)>,
    /// reads: data-version filters (endpoint, cluster, version) - the generic handler reports version 1 for every cluster
    pub dv_filters: Vec<(u16, u32, u32)>,
    /// reads: the smallest event number of interest (an event filter), if any
    pub ev_min: Option<u64>,
    /// timed writes / invokes: everything the controller sends after its first datagram (the timed request) is held
    /// back in the network until the announced window (2 s) has passed
    pub late: bool,
    /// writes / invokes: the TimedRequest flag the (first) request message carries (normally = `timed`)
    pub claim: bool,
    /// writes: a second WriteRequest chunk (paths, the TimedRequest flag it carries, sent only after the timed window
    /// has passed); the first chunk then carries MoreChunkedMessages
    pub chunk2: Option<(Vec<(Option<u16>, Option<u32>, Option<u32>)>, bool, bool)>,
}

pub struct Outcome {
    /// what came back: {"k": "data"|"status", "ep", "cl", "leaf", "li", "len", "status", "ok"}
    pub items: Vec<Value>,
    pub chunks: Vec<Value>,
    pub handler: Vec<Value>,
    pub error: String,
    pub datagrams: usize,
}

/// Runs one request against a device built from `spec` with `acl` on fabric 1; `pase`: the requester's session is a
/// PASE session (no fabric) instead of the CASE session of node 100.
pub fn run_request(spec: &NodeSpec, acl: &[AclEntry], pase: bool, req: &Req, max_dgrams: usize) -> Outcome {
    sim::clock_reset();
    let net = sim::new_net();
    let dev = Matter::new(&TEST_DEV_DET, TEST_DEV_COMM, &TEST_DEV_ATT, 5540);
    let ctl = Matter::new(&TEST_DEV_DET, TEST_DEV_COMM, &TEST_DEV_ATT, 5540);
    // c03::plant: node A (is_a = true) is the controller with node id 100
    let sid = plant(&ctl, 1, true, pase);
    plant(&dev, 1, false, pase);
    dev.with_state(|s| {
        let f = s.fabrics.fabric_mut(NonZeroU8::new(1).unwrap()).unwrap();
        for e in acl {
            f.acl_add(e.clone()).unwrap();
        }
    });
    let crypto = test_only_crypto();
    let buffers: MatterBuffers = MatterBuffers::new();
    let state: InteractionModelState<DummyNetworks, 3, 8192> = InteractionModelState::new(DummyNetworks);
    state.suppress_start_up_event();
    let gen = Gen { spec: spec.clone(), log: RefCell::new(Vec::new()) };
    let node = build_node(spec);
    let kv = dev.kv(DummyKvBlobStore);
    let dm = InteractionModel::new(&dev, &crypto, &buffers, (node, Async(&gen)), &kv, &state);
    let responder = Responder::new_default(&dm);
    for (k, (ep, cl, id, size)) in spec.events.iter().enumerate() {
        let payload = fill(*id, k, *size);
        state.events().push(*ep, *cl, *id, rs_matter::im::EventPriority::Info, &kv, |mut w| w.str(&rs_matter::im::events::EVENT_DATA_TAG, &payload)).unwrap();
    }
    let items: RefCell<Vec<Value>> = RefCell::new(Vec::new());
    let chunks: RefCell<Vec<Value>> = RefCell::new(Vec::new());
    let error: RefCell<String> = RefCell::new(String::new());
    let done = Cell::new(false);
    let gp = |p: &(Option<u16>, Option<u32>, Option<u32>)| GenericPath::new(p.0, p.1, p.2);
    let timed = if req.timed { Some(2000u16) } else { None };

    let story = async {
        let r: Result<(), Error> = async {
            let exchange = Exchange::initiate_for_session(&ctl, &crypto, sid)?;
            match req.kind.as_str() {
                "read" => {
                    let paths: Vec<AttrPath> = req.paths.iter().map(|p| AttrPath::from_gp(&gp(p))).collect();
                    let mut sender = exchange.read_sender().await?;
                    let mut chunk = loop {
                        match sender.tx().await? {
                            TxOutcome::BuildRequest(b) => {
                                let ev: Vec<rs_matter::im::EventPath> = req.ev_paths.iter().map(|p| rs_matter::im::EventPath::from_gp(&gp(p))).collect();
                                let dvf: Vec<rs_matter::im::DataVersionFilter> = req.dv_filters.iter().map(|f| rs_matter::im::DataVersionFilter { path: rs_matter::im::ClusterPath { node: None, endpoint: f.0, cluster: f.1 }, data_ver: f.2 }).collect();
                                let evf = [rs_matter::im::EventFilter { node: None, event_min: req.ev_min }];
                                let b1 = b.attr_requests_from(&paths)?;
                                let b4 = match (ev.is_empty(), req.ev_min.is_some()) {
                                    (true, _) => b1.fabric_filtered(false)?,
                                    (false, false) => b1.event_requests_from(&ev)?.fabric_filtered(false)?,
                                    (false, true) => b1.event_requests_from(&ev)?.event_filters_from(&evf)?.fabric_filtered(false)?,
                                };
                                sender = if dvf.is_empty() { b4.end()? } else { b4.dataver_filters_from(&dvf)?.end()? };
                            }
                            TxOutcome::GotResponse(c) => break c,
                        }
                    };
                    let mut chunk_no = 0usize;
                    loop {
                        chunk_no += 1;
                        {
                            let resp = chunk.response()?;
                            let mut n = 0;
                            let mut malformed = String::new();
                            if let Some(reports) = &resp.attr_reports {
                                for a in reports.iter() {
                                    n += 1;
                                    match a {
                                        Ok(AttrResp::Data(d)) => {
                                            let li = match d.path.list_index.clone().map(|x| x.into_option()) { None => json!("whole"), Some(None) => json!("append"), Some(Some(i)) => json!(i) };
                                            // the value: an octet string, or an array of octet strings
                                            let (len, els): (i64, Vec<usize>) = match d.data.str() {
                                                Ok(s) => (s.len() as i64, vec![]),
                                                Err(_) => match d.data.array() {
                                                    Ok(arr) => { let v: Vec<usize> = arr.iter().map(|e| e.and_then(|e| e.str().map(|s| s.len())).unwrap_or(usize::MAX)).collect(); (-1, v) }
                                                    Err(_) => (-2, vec![]),
                                                },
                                            };
                                            let first = d.data.str().ok().and_then(|s| s.first().copied());
                                            items.borrow_mut().push(json!({"k": "data", "chunk": chunk_no, "ep": d.path.endpoint, "cl": d.path.cluster, "leaf": d.path.attr, "li": li, "len": len, "els": els, "first": first}));
                                        }
                                        Ok(AttrResp::Status(st)) => items.borrow_mut().push(json!({"k": "status", "chunk": chunk_no, "ep": st.path.endpoint, "cl": st.path.cluster, "leaf": st.path.attr, "status": format!("{:?}", st.status.status)})),
                                        Err(e) => { malformed = format!("{:?}", e.code()); break; }
                                    }
                                }
                            }
                            if let Some(reports) = &resp.event_reports {
                                for e in reports.iter() {
                                    n += 1;
                                    match e {
                                        Ok(rs_matter::im::EventResp::Data(d)) => items.borrow_mut().push(json!({"k": "ev", "chunk": chunk_no, "ep": d.path.endpoint, "cl": d.path.cluster, "leaf": d.path.event,
                                            "len": d.data.str().map(|s| s.len() as i64).unwrap_or(-2), "no": d.event_number})),
                                        Ok(rs_matter::im::EventResp::Status(st)) => items.borrow_mut().push(json!({"k": "evstatus", "chunk": chunk_no, "ep": st.path.endpoint, "cl": st.path.cluster, "leaf": st.path.event, "status": format!("{:?}", st.status.status)})),
                                        Err(e) => { malformed = format!("events: {:?}", e.code()); break; }
                                    }
                                }
                            }
                            chunks.borrow_mut().push(json!({"elements": n, "more": resp.more_chunks.unwrap_or(false), "malformed": malformed}));
                        }
                        match chunk.complete().await? {
                            Some(c) => chunk = c,
                            None => break,
                        }
                    }
                }
                "write" if req.chunk2.is_some() => {
                    // a write in two WriteRequest chunks, sent by hand over the exchange
                    use rs_matter::im::{OpCode, StatusResp, TimedReq, WriteResp};
                    use rs_matter::tlv::{FromTLV, TLVElement, TLVWriteParent, TagType};
                    let mut ex: Exchange = exchange;
                    if req.timed {
                        ex.send_with(|_, wb| {
                            TimedReq { timeout: 2000, interaction_model_revision: Some(rs_matter::im::IM_REVISION) }.to_tlv(&TagType::Anonymous, wb)?;
                            Ok(Some(OpCode::TimedRequest.into()))
                        }).await?;
                        let rx = ex.recv().await?;
                        if rx.meta().proto_opcode != OpCode::StatusResponse as u8 {
                            return Err(rs_matter::error::ErrorCode::Invalid.into());
                        }
                    }
                    let (paths2, claim2, late2) = req.chunk2.clone().unwrap();
                    for (k, (ps, claim, more)) in [(req.paths.clone(), req.claim, true), (paths2, claim2, false)].into_iter().enumerate() {
                        let chunk_no = k + 1;
                        if chunk_no == 2 {
                            if late2 {
                                embassy_time::Timer::after_millis(2700).await;
                            }
                            gen.log.borrow_mut().push(json!({"h": "mark", "chunk": 2}));
                        }
                        let paths: Vec<AttrPath> = ps.iter().map(|p| AttrPath::from_gp(&gp(p))).collect();
                        ex.send_with(|_, wb| {
                            let parent = TLVWriteParent::new("WriteRequest", wb);
                            let mut arr = rs_matter::im::WriteReqBuilder::new(parent, &TLVTag::Anonymous)?.suppress_response(false)?.timed_request(claim)?.write_requests()?;
                            for p in paths.iter() {
                                arr = arr.push()?.path_from(p)?.data(|w| 5u16.to_tlv(&TLVTag::Context(2), w))?.end()?;
                            }
                            arr.end()?.more_chunks(more)?.end()?;
                            Ok(Some(OpCode::WriteRequest.into()))
                        }).await?;
                        let rx = ex.recv().await?;
                        let op = rx.meta().proto_opcode;
                        if op == OpCode::WriteResponse as u8 {
                            let resp = WriteResp::from_tlv(&TLVElement::new(rx.payload()))?;
                            for st in resp.write_responses.iter() {
                                let st = st?;
                                items.borrow_mut().push(json!({"k": "status", "chunk": chunk_no, "ep": st.path.endpoint, "cl": st.path.cluster, "leaf": st.path.attr, "status": format!("{:?}", st.status.status)}));
                            }
                        } else if op == OpCode::StatusResponse as u8 {
                            let st = StatusResp::from_tlv(&TLVElement::new(rx.payload()))?;
                            items.borrow_mut().push(json!({"k": "chunk-status", "chunk": chunk_no, "status": format!("{:?}", st.status)}));
                            break;
                        } else {
                            items.borrow_mut().push(json!({"k": "chunk-status", "chunk": chunk_no, "status": format!("opcode {op}")}));
                            break;
                        }
                    }
                }
                "write" => {
                    let paths: Vec<AttrPath> = req.paths.iter().map(|p| AttrPath::from_gp(&gp(p))).collect();
                    let handle = exchange.write_with(timed, |b| {
                        let mut arr = b.suppress_response(false)?.timed_request(req.claim)?.write_requests()?;
                        for p in paths.iter() {
                            arr = arr.push()?.path_from(p)?.data(|w| 5u16.to_tlv(&TLVTag::Context(2), w))?.end()?;
                        }
                        arr.end()?.end()
                    }).await?;
                    {
                        let resp = handle.response()?;
                        for st in resp.write_responses.iter() {
                            let st = st?;
                            items.borrow_mut().push(json!({"k": "status", "ep": st.path.endpoint, "cl": st.path.cluster, "leaf": st.path.attr, "status": format!("{:?}", st.status.status)}));
                        }
                    }
                    drop(handle);
                }
                "invoke" => {
                    let mut sender = exchange.invoke_sender(timed).await?;
                    let mut chunk = loop {
                        match sender.tx().await? {
                            TxOutcome::BuildRequest(builder) => {
                                let mut arr = builder.suppress_response(false)?.timed_request(req.claim)?.invoke_requests()?;
                                for p in req.paths.iter() {
                                    arr = arr.push()?.path(p.0.unwrap_or(0xffff), p.1.unwrap_or(0), p.2.unwrap_or(0))?.data(|w| { w.start_struct(&TLVTag::Context(1))?; w.end_container() })?.end()?;
                                }
                                sender = arr.end()?.end()?;
                            }
                            TxOutcome::GotResponse(c) => break c,
                        }
                    };
                    loop {
                        {
                            if let Some(resp) = chunk.response()? {
                                if let Some(irs) = &resp.invoke_responses {
                                    for r in irs.iter() {
                                        match r {
                                            Ok(rs_matter::im::CmdResp::Status(st)) => items.borrow_mut().push(json!({"k": "status", "ep": st.path.endpoint, "cl": st.path.cluster, "leaf": st.path.cmd, "status": format!("{:?}", st.status.status)})),
                                            Ok(rs_matter::im::CmdResp::Cmd(c)) => items.borrow_mut().push(json!({"k": "data", "ep": c.path.endpoint, "cl": c.path.cluster, "leaf": c.path.cmd})),
                                            Err(e) => items.borrow_mut().push(json!({"k": "malformed", "code": format!("{:?}", e.code())})),
                                        }
                                    }
                                }
                            } else {
                                items.borrow_mut().push(json!({"k": "status-only"}));
                            }
                        }
                        match chunk.complete().await? {
                            Some(c) => chunk = c,
                            None => break,
                        }
                    }
                }
                x => panic!("request kind {x}"),
            }
            Ok(())
        }
        .await;
        if let Err(e) = r {
            *error.borrow_mut() = format!("{:?}", e.code());
        }
        done.set(true);
        core::future::pending::<()>().await
    };
    let devside = async { select(responder.run::<2>(), dm.run()).coalesce().await };
    let mut all = pin!(select4(dev.run(&crypto, Tx(net.clone(), 1), Rx(net.clone(), 1), NoNetwork), ctl.run(&crypto, Tx(net.clone(), 0), Rx(net.clone(), 0), NoNetwork), devside, story));
    let mut n_dgram = 0usize;
    let mut ctl_delivered = 0usize;
    let _ = drive(all.as_mut(), &net, &Limits { max_virtual_ms: 200_000, max_steps: 200_000, ..Default::default() }, |net| {
        if done.get() {
            return Step::Stop;
        }
        if req.late && sim::now_ms() < 2600 {
            // deliver the first datagram of the controller and everything of the device; hold the rest
            let pick = net.borrow().wire.iter().position(|d| d.src == 1 || ctl_delivered == 0);
            return match pick {
                Some(i) => {
                    if net.borrow().wire[i].src == 0 {
                        ctl_delivered += 1;
                    }
                    n_dgram += 1;
                    Step::Deliver(i)
                }
                None => Step::NextTimer,
            };
        }
        if !net.borrow().wire.is_empty() {
            n_dgram += 1;
            if n_dgram > max_dgrams {
                *error.borrow_mut() = format!("STOPPED after {max_dgrams} datagrams");
                return Step::Stop;
            }
            return Step::Deliver(0);
        }
        Step::NextTimer
    });
    if !done.get() && error.borrow().is_empty() {
        *error.borrow_mut() = "did not finish".into();
    }
    let sizes: Vec<usize> = net.borrow().tap.iter().filter(|d| d.src == 1).map(|d| d.data.len()).collect();
    chunks.borrow_mut().push(json!({"dev_datagram_sizes": sizes}));
    let out = Outcome { items: items.borrow().clone(), chunks: chunks.borrow().clone(), handler: gen.log.borrow().clone(), error: error.borrow().clone(), datagrams: n_dgram };
    out
}

/// ACL entry from the vector's JSON (Acl.tla shape)
pub fn acl_entry(e: &Value) -> AclEntry {
    use rs_matter::dm::Privilege;
    let p = match e["priv"].as_str().unwrap() {
        "View" => Privilege::VIEW,
        "Operate" => Privilege::OPERATE,
        "Manage" => Privilege::MANAGE,
        "Admin" => Privilege::ADMIN,
        _ => Privilege::VIEW,
    };
    let mut a = AclEntry::new(None, p, AuthMode::Case);
    for s in e["subj"]["items"].as_array().unwrap() {
        a.add_subject(s["a"].as_u64().unwrap()).unwrap();
    }
    for t in e["tgt"]["items"].as_array().unwrap() {
        let ep = t["ep"].as_i64().unwrap();
        let cl = t["cl"].as_i64().unwrap();
        a.add_target(Target::new(if ep < 0 { None } else { Some(ep as u16) }, if cl < 0 { None } else { Some(cl as u32) }, None)).unwrap();
    }
    a
}
