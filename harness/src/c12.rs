//! C12 - durable counters.  Replays TLC-generated schedules (MCCounters) on the real counters and records
//! Store / Use / Restart events for validation against CountersProp.
//!
//!  grp: a real `Sessions` table (`load_persist`, `reserve_global_group_data_ctr` via the verif wrapper); the
//!       harness plays `Exchange::initiate_group`: store the returned boundary under GROUP_DATA_COUNTER_KEY,
//!       then the value may be used.
//!  evt: a real `Events` queue (`load_persist` via the verif wrapper, `push` over the recording store).
//!  chk: a real `Icd` (`load_counter`, `persist_counter`, `next_counter`, `advance_counter`,
//!       `invalidate_counter`) with the application protocol the interface prescribes.
//!
//! The model runs with EPOCH = 3; the real group / event counters have epochs 1000 / 10000.  The schedule
//! carries, per step, the model's distance to the next boundary; when the model is 1 or 0 steps away the
//! harness fast-forwards the real counter (reserve-and-use) to the same distance and logs those uses as one
//! range event.

use std::cell::RefCell;

use serde_json::{json, Value};

use rs_matter::crypto::test_only_crypto;
use rs_matter::dm::clusters::icd_mgmt::{Icd, IcdModeConfig};
use rs_matter::error::Error;
use rs_matter::im::events::Events;
use rs_matter::im::EventPriority;
use rs_matter::persist::{KvBlobStore, KvBlobStoreAccess, GROUP_DATA_COUNTER_KEY, ICD_CHECK_IN_COUNTER_KEY};
use rs_matter::sc::checkin::CheckInCounter;
use rs_matter::tlv::{TLVTag, TLVWrite};
use rs_matter::transport::session::{Sessions, GROUP_DATA_CTR_EPOCH};

use crate::sim::{self, KvRef, RecKv};
use crate::util::{arg, read_ndjson, Trace};

const RING_G: u32 = 1 << 28;
const MODEL_R: i64 = 32;
const EVT_EPOCH: u64 = 10000;
/// translation applied to Check-In counter values in the trace so that values next to 2^32 fit TLC's integers
const CHK_SHIFT: u32 = 1 << 20;

struct Access(KvRef, RefCell<Vec<u8>>);
impl KvBlobStoreAccess for Access {
    fn access<F, R>(&self, f: F) -> R
    where
        F: FnOnce(&mut dyn KvBlobStore, &mut [u8]) -> R,
    {
        let mut kv = RecKv(self.0.clone());
        let mut buf = self.1.borrow_mut();
        f(&mut kv, &mut buf)
    }
}

fn stored_u32(kv: &KvRef, key: u16) -> Option<u32> {
    kv.borrow().blobs.get(&key).map(|d| u32::from_le_bytes(d[..4].try_into().unwrap()))
}

/// Map a model start boundary (ring 32) to the real ring: values below R/2 stay, values above keep their
/// distance to the top of the ring.
fn map_start(m: i64, ring: u64) -> Option<u64> {
    if m < 0 {
        None
    } else if m < MODEL_R / 2 {
        Some(m as u64)
    } else {
        Some(ring - (MODEL_R - m) as u64)
    }
}

pub fn run(args: &[String]) -> i32 {
    let beh = arg(args, "--behaviours").expect("--behaviours");
    let out = arg(args, "--out").expect("--out");
    let behaviours = read_ndjson(&beh);
    let mut tr_g = Trace::create(&format!("{out}.grp.ndjson"));
    let mut tr_e = Trace::create(&format!("{out}.evt.ndjson"));
    let mut tr_c = Trace::create(&format!("{out}.chk.ndjson"));
    let mut counts = [0usize; 3];
    let mut uses = 0u64;

    for (bi, b) in behaviours.iter().enumerate() {
        sim::clock_reset();
        let kind = b["kind"].as_str().unwrap();
        let start = b["start"].as_i64().unwrap();
        let ops = b["ops"].as_array().unwrap();
        let kv = sim::new_kv();
        match kind {
            "grp" => {
                counts[0] += 1;
                let tr = &mut tr_g;
                tr.ev(json!({"ev": "Reset", "run": bi, "kind": "grp"}));
                if let Some(s) = map_start(start, RING_G as u64) {
                    kv.borrow_mut().blobs.insert(GROUP_DATA_COUNTER_KEY, (s as u32).to_le_bytes().to_vec());
                    tr.ev(json!({"ev": "Store", "kind": "grp", "b": s}));
                }
                let mut sess: Option<Sessions> = None;
                let mut owe: Option<(u32, u32)> = None;
                let mut pend: Vec<u32> = Vec::new();
                let mut buf = vec![0u8; 64];
                for op in ops {
                    match op["op"].as_str().unwrap() {
                        "Boot" => {
                            let mut s = Sessions::new();
                            s.load_persist(RecKv(kv.clone()), &mut buf).expect("load_persist");
                            sess = Some(s);
                            owe = None;
                            pend.clear();
                            tr.ev(json!({"ev": "Restart", "kind": "grp"}));
                        }
                        "Crash" => {
                            sess = None;
                        }
                        "Reserve" => {
                            let s = sess.as_mut().unwrap();
                            let (v, b) = s.verif_reserve_global_group_data_ctr(test_only_crypto()).expect("reserve");
                            match b {
                                Some(b) => owe = Some((v, b)),
                                None => pend.push(v),
                            }
                            // fast-forward to the model's distance from the boundary (only when nothing is owed)
                            let mdist = op["dist"].as_i64().unwrap() as u32;
                            if owe.is_none() && mdist <= 1 {
                                let mut lo: Option<u32> = None;
                                let mut hi = 0u32;
                                loop {
                                    let sn = s.verif_snapshot();
                                    let rdist = sn.group_data_ctr_boundary.wrapping_sub(sn.global_group_data_ctr) & (RING_G - 1);
                                    // the skipped 0 makes the distance over the wrap one larger than the number of values
                                    if rdist <= mdist || rdist > GROUP_DATA_CTR_EPOCH + 1 {
                                        break;
                                    }
                                    let (v2, b2) = s.verif_reserve_global_group_data_ctr(test_only_crypto()).expect("reserve");
                                    if let Some(b2) = b2 {
                                        // reached the boundary early (wrap over the skipped 0): store first, as initiate_group does
                                        RecKv(kv.clone()).store(GROUP_DATA_COUNTER_KEY, &b2.to_le_bytes(), &mut buf).unwrap();
                                        if let Some(l) = lo.take() {
                                            tr.ev(json!({"ev": "Use", "kind": "grp", "lo": l, "hi": hi}));
                                        }
                                        tr.ev(json!({"ev": "Store", "kind": "grp", "b": b2}));
                                    }
                                    if lo.is_none() || v2 != hi.wrapping_add(1) {
                                        if let Some(l) = lo.take() {
                                            tr.ev(json!({"ev": "Use", "kind": "grp", "lo": l, "hi": hi}));
                                        }
                                        lo = Some(v2);
                                    }
                                    hi = v2;
                                    uses += 1;
                                }
                                if let Some(l) = lo {
                                    tr.ev(json!({"ev": "Use", "kind": "grp", "lo": l, "hi": hi}));
                                }
                            }
                        }
                        "StoreOwed" => {
                            let (v, b) = owe.take().expect("model says a boundary is owed");
                            RecKv(kv.clone()).store(GROUP_DATA_COUNTER_KEY, &b.to_le_bytes(), &mut buf).unwrap();
                            tr.ev(json!({"ev": "Store", "kind": "grp", "b": b}));
                            pend.push(v);
                        }
                        "Use" => {
                            if pend.is_empty() {
                                continue;
                            }
                            let i = if op["which"] == "oldest" { 0 } else { pend.len() - 1 };
                            let v = pend.remove(i);
                            uses += 1;
                            tr.ev(json!({"ev": "Use", "kind": "grp", "lo": v, "hi": v}));
                        }
                        o => panic!("grp: unknown op {o}"),
                    }
                }
            }
            "evt" => {
                counts[1] += 1;
                let tr = &mut tr_e;
                tr.ev(json!({"ev": "Reset", "run": bi, "kind": "evt"}));
                // model boundaries EPOCH, 2*EPOCH (EPOCH = 3) map to the real epochs
                if start > 0 {
                    let s = (start as u64 / 3) * EVT_EPOCH;
                    let acc = Access(kv.clone(), RefCell::new(vec![0u8; 64]));
                    let mut p = rs_matter::persist::Persist::new(&acc);
                    p.store_tlv(rs_matter::persist::EVENT_EPOCH_KEY, s).unwrap();
                    kv.borrow_mut().log.clear();
                    tr.ev(json!({"ev": "Store", "kind": "evt", "b": s}));
                }
                let acc = Access(kv.clone(), RefCell::new(vec![0u8; 256]));
                let mut events: Option<Box<Events<512>>> = None;
                let mut queue: Vec<u64> = Vec::new();
                let mut buf = vec![0u8; 64];
                let push = |events: &Events<512>, kv: &KvRef, tr: &mut Trace| -> u64 {
                    let n_before = kv.borrow().log.len();
                    let n = events
                        .push(1, 0x1234, 0, EventPriority::Info, &acc, |mut w| {
                            w.start_struct(&TLVTag::Anonymous)?;
                            w.end_container()
                        })
                        .expect("push");
                    // any store the push did happened before it returned the number
                    let kvb = kv.borrow();
                    for (_, op) in kvb.log.iter().skip(n_before) {
                        if let sim::KvOp::Store(_k, d) = op {
                            let b = rs_matter::tlv::TLVElement::new(d).u64().unwrap();
                            tr.ev(json!({"ev": "Store", "kind": "evt", "b": b}));
                        }
                    }
                    n
                };
                for op in ops {
                    match op["op"].as_str().unwrap() {
                        "Boot" => {
                            let e: Box<Events<512>> = Box::new(Events::new());
                            e.verif_load_persist(&mut RecKv(kv.clone()), &mut buf).expect("load");
                            events = Some(e);
                            queue.clear();
                            tr.ev(json!({"ev": "Restart", "kind": "evt"}));
                        }
                        "Crash" => events = None,
                        "Push" => {
                            let e = events.as_ref().unwrap();
                            let n = push(e, &kv, tr);
                            queue.push(n);
                            let mdist = op["dist"].as_u64().unwrap();
                            if mdist <= 1 {
                                let mut last = n;
                                let mut lo: Option<u64> = None;
                                loop {
                                    let next = last + 1;
                                    let rdist = if next % EVT_EPOCH == 0 { 0 } else { EVT_EPOCH - next % EVT_EPOCH };
                                    if rdist <= mdist {
                                        break;
                                    }
                                    let v = push(e, &kv, tr);
                                    if lo.is_none() {
                                        lo = Some(v);
                                    }
                                    last = v;
                                    uses += 1;
                                }
                                if let Some(l) = lo {
                                    tr.ev(json!({"ev": "Use", "kind": "evt", "lo": l, "hi": last}));
                                }
                            }
                        }
                        "Read" => {
                            if !queue.is_empty() {
                                let v = queue.remove(0);
                                uses += 1;
                                tr.ev(json!({"ev": "Use", "kind": "evt", "lo": v, "hi": v}));
                            }
                        }
                        o => panic!("evt: unknown op {o}"),
                    }
                }
            }
            "chk" => {
                counts[2] += 1;
                let tr = &mut tr_c;
                tr.ev(json!({"ev": "Reset", "run": bi, "kind": "chk"}));
                let tl = |v: u32| v.wrapping_add(CHK_SHIFT);
                if let Some(s) = map_start(start, 1u64 << 32) {
                    kv.borrow_mut().blobs.insert(ICD_CHECK_IN_COUNTER_KEY, (s as u32).to_le_bytes().to_vec());
                    tr.ev(json!({"ev": "Store", "kind": "chk", "b": tl(s as u32)}));
                }
                let mode = IcdModeConfig {
                    idle_mode_duration_s: 60,
                    active_mode_duration_ms: 1000,
                    active_mode_threshold_ms: 1000,
                    user_active_mode_trigger_hint: 0,
                    user_active_mode_trigger_instruction: "",
                };
                let mut icd: Option<Icd> = None;
                let mut buf = vec![0u8; 64];
                let mut boots = 0u32;
                let store_events = |kv: &KvRef, from: usize, tr: &mut Trace| {
                    let kvb = kv.borrow();
                    for (_, op) in kvb.log.iter().skip(from) {
                        if let sim::KvOp::Store(_k, d) = op {
                            let b = u32::from_le_bytes(d[..4].try_into().unwrap());
                            tr.ev(json!({"ev": "Store", "kind": "chk", "b": tl(b)}));
                        }
                    }
                };
                for op in ops {
                    let n0 = kv.borrow().log.len();
                    match op["op"].as_str().unwrap() {
                        "Boot" => {
                            // the "random" initial value of a factory-fresh device: next to the wrap or small
                            let seed: u32 = if boots % 2 == 0 { u32::MAX - 1 } else { 5 };
                            boots += 1;
                            let i = Icd::new(CheckInCounter::new(seed, 3), mode);
                            i.load_counter(RecKv(kv.clone()), 3, &mut buf).expect("load_counter");
                            icd = Some(i);
                            tr.ev(json!({"ev": "Restart", "kind": "chk"}));
                        }
                        "Crash" => icd = None,
                        "PersistCounter" => {
                            icd.as_ref().unwrap().persist_counter(RecKv(kv.clone()), &mut buf).expect("persist");
                        }
                        "SendBatch" => {
                            let v = icd.as_ref().unwrap().next_counter();
                            uses += 1;
                            tr.ev(json!({"ev": "Use", "kind": "chk", "lo": tl(v), "hi": tl(v)}));
                        }
                        "AdvanceCounter" => {
                            icd.as_ref().unwrap().advance_counter(RecKv(kv.clone()), &mut buf).expect("advance");
                        }
                        "Invalidate" => {
                            let d = op["delta"].as_u64().unwrap() as u32;
                            let moved = icd.as_ref().unwrap().invalidate_counter(d);
                            if moved {
                                // the interface tells the application to persist before the device restarts;
                                // the schedule's next step (PersistCounter or Crash) decides whether it got to do so
                            }
                        }
                        o => panic!("chk: unknown op {o}"),
                    }
                    store_events(&kv, n0, tr);
                }
            }
            k => panic!("unknown kind {k}"),
        }
    }
    let ev = (tr_g.n_events, tr_e.n_events, tr_c.n_events);
    tr_g.finish();
    tr_e.finish();
    tr_c.finish();
    println!(
        "{}",
        json!({"behaviours": behaviours.len(), "grp": counts[0], "evt": counts[1], "chk": counts[2], "values_used": uses,
               "events": {"grp": ev.0, "evt": ev.1, "chk": ev.2}})
    );
    let _: Option<Error> = None;
    let _ = Value::Null;
    0
}
