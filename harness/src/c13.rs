//! C13 (level 1) - the subscription table.  Replays TLC-generated operation schedules (MCSubs) on a real
//! `Subscriptions` object through the verif wrappers, the harness playing the reporter loop of im.rs and the
//! priming path, and records Change / Sub / Begin / Deliver / End / Gone / Pass / Wake / Quiet events for
//! validation against SubsProp.

use core::num::NonZeroU8;
use std::collections::BTreeMap;

use embassy_time::Instant;
use serde_json::{json, Value};

use rs_matter::im::subscriptions::{ReportContext, Subscriptions, SubscriptionsBuffers};
use rs_matter::im::IMBuffer;
use rs_matter::utils::storage::pooled::{Buffers, PooledBuffers};

use crate::sim;
use crate::util::{arg, read_ndjson, Trace};

const N: usize = 3;
type Pool = PooledBuffers<IMBuffer, 8>;
type Ctx<'a, 's> = ReportContext<'a, 's, Pool, N>;

const EP: u16 = 1;
const CL_A: u32 = 0xFFF1_FC01;
const CL_B: u32 = 0xFFF1_FC02;
const PATHS: [u32; 3] = [1, 2, 3];
const MIN_INT: u16 = 1;
const MAX_INT: u16 = 4;

fn path(p: u32) -> (u16, u32, u32) {
    (EP, if p <= 2 { CL_A } else { CL_B }, p)
}
fn at(secs: u64) -> Instant {
    Instant::from_secs(1000 + secs)
}

struct Run<'a, 's> {
    subs: &'s Subscriptions<N>,
    bufs: &'s SubscriptionsBuffers<'a, Pool, N>,
    pool: &'a Pool,
    ver: [i64; 4],
    /// number of events emitted so far (the watermark handed to add / report, as im.rs takes it from Events)
    nev: u64,
    pass_ev: u64,
    now: u64,
    pass_now: u64,
    /// model subscriber -> (in-flight context, paths visited, is priming, begin time)
    ctx: BTreeMap<u64, (Ctx<'a, 's>, Vec<u32>, bool, u64)>,
    ev_read: BTreeMap<u64, bool>,
    /// real subscription id -> model subscriber
    ids: BTreeMap<u32, u64>,
    delivered_in_pass: usize,
}

impl<'a, 's> Run<'a, 's> {
    fn read(&mut self, tr: &mut Trace, s: u64, p: u32) -> Option<bool> {
        let ver = self.ver[p as usize];
        let (c, seen, _, _) = self.ctx.get_mut(&s)?;
        if seen.contains(&p) {
            return None;
        }
        seen.push(p);
        let (e, cl, a) = path(p);
        let d = c.should_report_attr(e, cl, a);
        if d {
            self.delivered_in_pass += 1;
            tr.ev(json!({"ev": "Deliver", "s": s, "p": p, "v": ver}));
        }
        Some(d)
    }
    fn read_ev(&mut self, tr: &mut Trace, s: u64) -> bool {
        let Some((c, _, _, _)) = self.ctx.get(&s) else { return false };
        if self.ev_read.get(&s) == Some(&true) {
            return false;
        }
        self.ev_read.insert(s, true);
        let (lo, hi) = (c.max_seen_event_number(), c.next_max_seen_event_number());
        if hi > lo {
            self.delivered_in_pass += 1;
        }
        tr.ev(json!({"ev": "DeliverEv", "s": s, "lo": lo, "hi": hi}));
        true
    }
    fn end(&mut self, tr: &mut Trace, s: u64, r: &str) -> bool {
        if self.ctx.contains_key(&s) && self.ev_read.get(&s) != Some(&true) {
            self.read_ev(tr, s);
        }
        self.ev_read.remove(&s);
        let Some((mut c, _seen, priming, t0)) = self.ctx.remove(&s) else { return false };
        let r = if priming && r == "fail" { "drop" } else { r };
        match r {
            "ok" => c.set_keep(),
            "fail" => c.set_keep_retry(),
            _ => {
                let id = c.subscription().ids().id;
                self.ids.remove(&id);
            }
        }
        drop(c); // report_complete
        tr.ev(json!({"ev": "End", "s": s, "r": r, "t": t0}));
        true
    }
    fn finish_reads_and_end_ok(&mut self, tr: &mut Trace, s: u64) {
        for p in PATHS {
            self.read(tr, s, p);
        }
        self.end(tr, s, "ok");
    }
    fn pass_start(&mut self, tr: &mut Trace) {
        let now = at(self.now);
        let mut gone: Vec<u32> = Vec::new();
        loop {
            let removed = self.subs.verif_remove(self.bufs, |sub| {
                if sub.is_expired(now) {
                    gone.push(sub.ids().id);
                    Some("expired")
                } else {
                    None
                }
            });
            if !removed {
                break;
            }
        }
        gone.sort();
        gone.dedup();
        for id in gone {
            if let Some(s) = self.ids.remove(&id) {
                tr.ev(json!({"ev": "Gone", "s": s}));
            }
        }
        self.pass_now = self.now;
        self.pass_ev = self.nev;
        self.delivered_in_pass = 0;
        tr.ev(json!({"ev": "Pass", "t": self.now}));
    }
    fn begin(&mut self, tr: &mut Trace) -> Option<u64> {
        if self.ctx.values().any(|(_, _, priming, _)| !*priming) {
            return None; // one report at a time
        }
        let c = self.subs.verif_report(at(self.pass_now), self.pass_ev, self.bufs)?;
        let id = c.subscription().ids().id;
        let s = *self.ids.get(&id).expect("reported subscription is known");
        tr.ev(json!({"ev": "Begin", "s": s, "t": self.pass_now}));
        self.ctx.insert(s, (c, Vec::new(), false, self.pass_now));
        Some(s)
    }
    /// finish the reporter pass the way im.rs does: report while something is reportable, then purge
    fn pass_end(&mut self, tr: &mut Trace) {
        let reporting: Vec<u64> = self.ctx.iter().filter(|(_, v)| !v.2).map(|(k, _)| *k).collect();
        for s in reporting {
            self.finish_reads_and_end_ok(tr, s);
        }
        let mut guard = 0;
        while let Some(s) = self.begin(tr) {
            self.finish_reads_and_end_ok(tr, s);
            guard += 1;
            if guard > 20 {
                break;
            }
        }
        self.subs.verif_purge_reported_changes();
    }
}

pub fn run(args: &[String]) -> i32 {
    let beh = arg(args, "--behaviours").expect("--behaviours");
    let out = arg(args, "--out").expect("--out");
    let behaviours = read_ndjson(&beh);
    let mut tr = Trace::create(&out);
    let (mut steps, mut matched, mut noquiet) = (0usize, 0usize, 0usize);
    let mut drift: Vec<Value> = Vec::new();

    for (bi, b) in behaviours.iter().enumerate() {
        sim::clock_reset();
        let ops = b.as_array().expect("behaviour = array of ops");
        tr.ev(json!({"ev": "Reset", "run": bi}));
        let subs: Subscriptions<N> = Subscriptions::new();
        let pool = Pool::new();
        let bufs: SubscriptionsBuffers<Pool, N> = SubscriptionsBuffers::new();
        let mut r = Run { subs: &subs, bufs: &bufs, pool: &pool, ver: [0; 4], nev: 0, pass_ev: 0, now: 0, pass_now: 0, ctx: BTreeMap::new(), ev_read: BTreeMap::new(), ids: BTreeMap::new(), delivered_in_pass: 0 };
        let mut in_pass = false;
        for op in ops {
            steps += 1;
            let name = op["op"].as_str().unwrap();
            let s = op["s"].as_u64().unwrap_or(0);
            let p = op["p"].as_u64().unwrap_or(0) as u32;
            let mut okstep = true;
            match name {
                "Change" => {
                    r.ver[p as usize] += 1;
                    let (e, cl, a) = path(p);
                    subs.verif_notify_attr_changed(e, cl, a);
                    tr.ev(json!({"ev": "Change", "p": p}));
                }
                "Subscribe" => {
                    if r.ids.values().any(|x| *x == s) {
                        okstep = false;
                    } else {
                        let buf = r.pool.get_immediate().expect("buffer");
                        match subs.verif_add(at(r.now), NonZeroU8::new(1).unwrap(), 100 + s, MIN_INT, MAX_INT, r.nev, buf, &bufs) {
                            Some(c) => {
                                r.ids.insert(c.subscription().ids().id, s);
                                tr.ev(json!({"ev": "Sub", "s": s, "t": r.now}));
                                r.ctx.insert(s, (c, Vec::new(), true, r.now));
                            }
                            None => okstep = false,
                        }
                    }
                }
                "Event" => {
                    r.nev += 1;
                    subs.notify_event_emitted(1, CL_A, 0);
                    tr.ev(json!({"ev": "Event"}));
                }
                "ReadEv" => okstep = r.read_ev(&mut tr, s),
                "Read" => match r.read(&mut tr, s, p) {
                    Some(d) => okstep = Some(d) == op["d"].as_bool(),
                    None => okstep = false,
                },
                "End" => okstep = r.end(&mut tr, s, op["r"].as_str().unwrap()),
                "PassStart" => {
                    if in_pass {
                        r.pass_end(&mut tr);
                    }
                    r.pass_start(&mut tr);
                    in_pass = true;
                }
                "Begin" => {
                    if !in_pass {
                        okstep = false;
                    } else {
                        okstep = r.begin(&mut tr) == Some(s);
                    }
                }
                "PassEnd" => {
                    if in_pass {
                        r.pass_end(&mut tr);
                        in_pass = false;
                    } else {
                        okstep = false;
                    }
                }
                "Tick" => r.now += 1,
                o => panic!("unknown op {o}"),
            }
            if okstep {
                matched += 1;
            } else if drift.len() < 5 {
                drift.push(json!({"run": bi, "op": op}));
            }
        }
        // wind down: complete whatever is in flight, then let the reporter run until nothing is left
        let open: Vec<u64> = r.ctx.keys().copied().collect();
        for s in open {
            r.finish_reads_and_end_ok(&mut tr, s);
        }
        if in_pass {
            r.pass_end(&mut tr);
        }
        let mut quiet = false;
        for _ in 0..14 {
            r.now += 1;
            r.pass_start(&mut tr);
            r.pass_end(&mut tr);
            let (table, _wm, _n, count) = subs.verif_snapshot();
            if r.delivered_in_pass == 0 && table.iter().all(|x| x.3 == 0) && count == table.len() {
                quiet = true;
                break;
            }
        }
        if quiet {
            let w = subs.verif_next_report_at(r.nev, &bufs);
            if w != Instant::MAX && !r.ids.is_empty() {
                tr.ev(json!({"ev": "Wake", "w": w.as_secs() as i64 - 1000}));
            }
            tr.ev(json!({"ev": "Quiet"}));
        } else {
            noquiet += 1;
        }
    }
    tr.finish();
    println!("{}", json!({"behaviours": behaviours.len(), "steps": steps, "matched_steps": matched, "drift_samples": drift, "runs_without_quiescence": noquiet}));
    0
}
