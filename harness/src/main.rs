//! verif-harness: drives the real rs-matter code for the model-based checks in /verif.
mod c03;
mod c03g;
mod hs;
mod c02;
mod imw;
mod c06;
mod c06x;
mod c12e;
mod c13e;
mod c14;
mod life;
mod c20rv;
mod cbdx;
mod c04;
mod c05;
mod c09;
mod c10;
mod c12;
mod c13;
mod c16;
mod c17;
mod c18;
mod c19;
mod randsig;
mod sim;
mod util;
mod world;

/// VH_LOG=<level>: the log lines of rs-matter on stderr, stamped with the virtual time (debugging aid only)
struct VLog;
impl log::Log for VLog {
    fn enabled(&self, _: &log::Metadata) -> bool {
        true
    }
    fn log(&self, r: &log::Record) {
        eprintln!("[{:>7} ms] {} {}: {}", sim::now_ms(), r.level(), r.target(), r.args());
    }
    fn flush(&self) {}
}

fn main() {
    if let Ok(l) = std::env::var("VH_LOG") {
        static L: VLog = VLog;
        let _ = log::set_logger(&L);
        log::set_max_level(l.parse().unwrap_or(log::LevelFilter::Debug));
    }
    let args: Vec<String> = std::env::args().collect();
    let cmd = args.get(1).map(|s| s.as_str()).unwrap_or("");
    // the combined futures of several Matter stacks are large: run everything on a big stack
    let a = args.clone();
    let cmdc = cmd.to_string();
    let h = std::thread::Builder::new()
        .stack_size(1 << 30)
        .spawn(move || match cmdc.as_str() {
            "c02" => c02::run(&a[2..]),
            "c20rv" => c20rv::run(&a[2..]),
            "life" => life::run(&a[2..]),
            "c06" => c06::run(&a[2..]),
            "c06x" => c06x::run(&a[2..]),
            "c12e" => c12e::run(&a[2..]),
            "c13e" => c13e::run(&a[2..]),
            "c14" => c14::run(&a[2..]),
            "cbdx" => cbdx::run(&a[2..]),
            "c17" => c17::run(&a[2..]),
            "c03" => c03::run(&a[2..]),
            "c04e2e" => c03::run_ctr(&a[2..]),
            "c04" => c04::run(&a[2..]),
            "c05" => c05::run(&a[2..]),
            "c09" => c09::run(&a[2..]),
            "c10" => c10::run(&a[2..]),
            "c12" => c12::run(&a[2..]),
            "c13" => c13::run(&a[2..]),
            "c16" => c16::run(&a[2..]),
            "c18" => c18::run(&a[2..]),
            "c19" => c19::run(&a[2..]),
            _ => {
                eprintln!("usage: vh <c04|...> [--behaviours f] [--out f]");
                2
            }
        })
        .unwrap();
    let code = h.join().unwrap_or(3);
    std::process::exit(code);
}
