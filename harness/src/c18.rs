//! C18 - BTP.  Replays TLC-generated step schedules (MCBtp) on two real `Btp` objects connected by two ordered
//! byte channels, optionally ending with one hostile segment, and records Submit / Tx / Rx / Fetch / Tick /
//! Inject / Panic events for validation against BtpProp.

use core::future::Future;
use core::pin::pin;
use core::task::{Context, Poll, Waker};
use std::collections::VecDeque;

use serde_json::{json, Value};

use rs_matter::transport::network::btp::Btp;
use rs_matter::transport::network::BtAddr;

use crate::sim;
use crate::util::{arg, arg_u64, catch, read_ndjson, Trace};

const ADDR: BtAddr = BtAddr([1, 2, 3, 4, 5, 6]);
const WND: u8 = 3;

pub fn poll_once_pub<F: Future>(f: F) -> Option<F::Output> {
    poll_once(f)
}
fn poll_once<F: Future>(f: F) -> Option<F::Output> {
    let mut f = pin!(f);
    let mut cx = Context::from_waker(Waker::noop());
    match f.as_mut().poll(&mut cx) {
        Poll::Ready(r) => Some(r),
        Poll::Pending => None,
    }
}

/// Parsed BTP segment header (only what the trace needs).
struct Hdr {
    hs: bool,
    seq: i64,
    ack: i64,
}
fn parse(b: &[u8]) -> Hdr {
    let f = b[0];
    let hs = f & 0x40 != 0;
    let mut i = 1;
    if f & 0x20 != 0 {
        i += 1;
    }
    let mut ack = -1;
    if f & 0x08 != 0 {
        ack = *b.get(i).unwrap_or(&0) as i64;
        i += 1;
    }
    let mut seq = -1;
    if !hs {
        seq = *b.get(i).unwrap_or(&0) as i64;
    }
    Hdr { hs, seq, ack }
}

fn msg_bytes(id: u64, n: u64) -> Vec<u8> {
    // payload MTU 20: first segment carries 15-16 bytes, continuation segments 17-18
    let len = match n {
        1 => 5,
        2 => 25,
        3 => 40,
        n => (10 + 17 * (n - 1)) as usize, // n segments whether or not acks are piggy-backed (n < 13)
    };
    (0..len).map(|i| if i == 0 { id as u8 } else if i == 1 { (id >> 8) as u8 } else { (id as usize * 7 + i) as u8 }).collect()
}

struct World {
    ends: [Btp; 2],
    chan: [VecDeque<Vec<u8>>; 2],
    /// (id, bytes, sending end, fetched by the peer's application)
    submitted: Vec<(u64, Vec<u8>, usize, bool)>,
    /// GATT MTU given to both ends (None: the minimum, 20 bytes of payload per segment)
    mtu: Option<u16>,
    /// the initiator's handshake request is rewritten to ask for `wnd`
    override_wnd: bool,
    last_tx_seq: [i64; 2],
    last_rx_seq: [i64; 2],
    est: [bool; 2],
    /// real reassembly state per end, tracked from the accepted segments: a message is in progress
    in_msg: [bool; 2],
    /// segments accepted by the end since it last transmitted an acknowledgement
    unacked_rx: [usize; 2],
    /// window the (well-behaved) initiator asks for
    wnd: u8,
    panicked: bool,
}
fn ix(e: &str) -> usize {
    if e == "I" {
        0
    } else {
        1
    }
}
fn nm(i: usize) -> &'static str {
    if i == 0 {
        "I"
    } else {
        "R"
    }
}

impl World {
    fn new() -> Self {
        let w = World {
            ends: [Btp::new(), Btp::new()],
            chan: [VecDeque::new(), VecDeque::new()],
            submitted: Vec::new(),
            last_tx_seq: [255, 255],
            last_rx_seq: [255, 255],
            est: [false, false],
            in_msg: [false, false],
            unacked_rx: [0, 0],
            wnd: WND,
            panicked: false,
            mtu: None,
            override_wnd: true,
        };
        w.ends[0].set_initiator(true);
        w
    }
    fn t(&self) -> u64 {
        sim::now_ms() / 1000
    }
    /// process_outgoing on end i; returns what went out
    fn poll(&mut self, tr: &mut Trace, i: usize) -> &'static str {
        let mut buf = [0u8; 512];
        let r = catch(|| self.ends[i].process_outgoing(self.mtu, &mut buf));
        match r {
            Err(p) => {
                self.panicked = true;
                tr.ev(json!({"ev": "Panic", "e": nm(i), "what": format!("process_outgoing: {p}")}));
                "panic"
            }
            Ok(Err(e)) => {
                tr.ev(json!({"ev": "TxErr", "e": nm(i), "code": format!("{:?}", e.code())}));
                "err"
            }
            Ok(Ok(0)) => "none",
            Ok(Ok(len)) => {
                let mut bytes = buf[..len].to_vec();
                let h = parse(&bytes);
                let mut w = 0;
                if h.hs {
                    if i == 0 && bytes.len() == 9 {
                        if self.override_wnd {
                            bytes[8] = self.wnd;
                        } // a peer asking for a small window (well-behaved)
                    } else if bytes.len() == 6 {
                        w = bytes[5];
                    }
                } else {
                    self.last_tx_seq[i] = h.seq;
                    if h.ack >= 0 {
                        self.unacked_rx[i] = 0;
                    }
                }
                if h.hs && i == 1 {
                    self.last_tx_seq[1] = 0;
                }
                tr.ev(json!({"ev": "Tx", "e": nm(i), "hs": h.hs, "seq": h.seq, "ack": h.ack, "w": w, "t": self.t(), "len": len}));
                self.chan[1 - i].push_back(bytes);
                if h.hs {
                    "hs"
                } else if h.ack >= 0 && len <= 3 {
                    "ack"
                } else {
                    "data"
                }
            }
        }
    }
    fn incoming(&mut self, i: usize, bytes: &[u8]) -> Result<bool, String> {
        catch(|| self.ends[i].process_incoming(self.mtu, ADDR, bytes)).map(|r| r.is_ok())
    }
    fn deliver(&mut self, tr: &mut Trace, i: usize) -> Option<&'static str> {
        let bytes = self.chan[i].pop_front()?;
        let h = parse(&bytes);
        match self.incoming(i, &bytes) {
            Err(p) => {
                self.panicked = true;
                tr.ev(json!({"ev": "Panic", "e": nm(i), "what": format!("process_incoming: {p}")}));
                Some("panic")
            }
            Ok(ok) => {
                if ok {
                    if h.hs {
                        self.est[i] = true;
                        if i == 0 {
                            self.last_rx_seq[0] = 0;
                        }
                    } else {
                        self.last_rx_seq[i] = h.seq;
                        self.unacked_rx[i] += 1;
                        let f = bytes[0];
                        if f & 0x01 != 0 {
                            self.in_msg[i] = true;
                        }
                        if f & 0x04 != 0 {
                            self.in_msg[i] = false;
                        }
                    }
                }
                let res = if ok { "ok" } else { "err" };
                if !h.hs {
                    tr.ev(json!({"ev": "Rx", "e": nm(i), "res": res, "seq": h.seq, "ack": h.ack, "t": self.t()}));
                } else if !ok {
                    tr.ev(json!({"ev": "Rx", "e": nm(i), "res": res, "seq": -1, "ack": -1, "t": self.t()}));
                }
                Some(res)
            }
        }
    }
    fn fetch(&mut self, tr: &mut Trace, i: usize) -> bool {
        let mut buf = [0u8; 2048];
        let r = catch(|| poll_once(self.ends[i].recv(&mut buf)));
        match r {
            Err(p) => {
                self.panicked = true;
                tr.ev(json!({"ev": "Panic", "e": nm(i), "what": format!("recv: {p}")}));
                false
            }
            Ok(None) => false,
            Ok(Some(Err(e))) => {
                tr.ev(json!({"ev": "Fetch", "e": nm(i), "id": -1, "err": format!("{:?}", e.code())}));
                false
            }
            Ok(Some(Ok((len, _)))) => {
                // the oldest message of the peer with exactly these bytes that has not come out yet
                let hit = self.submitted.iter_mut().find(|m| m.2 == 1 - i && !m.3 && m.1[..] == buf[..len]);
                let id = match hit {
                    Some(m) => {
                        m.3 = true;
                        m.0 as i64
                    }
                    None => -1,
                };
                tr.ev(json!({"ev": "Fetch", "e": nm(i), "id": id, "len": len}));
                true
            }
        }
    }
    fn send(&mut self, tr: &mut Trace, i: usize, id: u64, n: u64) -> bool {
        self.send_bytes(tr, i, id, msg_bytes(id, n))
    }
    fn send_bytes(&mut self, tr: &mut Trace, i: usize, id: u64, data: Vec<u8>) -> bool {
        match catch(|| poll_once(self.ends[i].send(&data, ADDR))) {
            Err(p) => {
                self.panicked = true;
                tr.ev(json!({"ev": "Panic", "e": nm(i), "what": format!("send: {p}")}));
                false
            }
            Ok(Some(Ok(()))) => {
                self.submitted.push((id, data, i, false));
                tr.ev(json!({"ev": "Submit", "e": nm(i), "id": id}));
                true
            }
            _ => false,
        }
    }
    /// run both ends until nothing moves any more
    fn settle(&mut self, tr: &mut Trace) {
        for _ in 0..200 {
            if self.panicked {
                return;
            }
            let mut moved = false;
            for i in 0..2 {
                let o = self.poll(tr, i);
                moved |= o != "none" && o != "err";
                while self.deliver(tr, i).is_some() {
                    moved = true;
                    if self.panicked {
                        return;
                    }
                }
                while self.fetch(tr, i) {
                    moved = true;
                }
            }
            if !moved {
                break;
            }
        }
    }
    fn hostile_bytes(&self, i: usize, cls: &str) -> (Vec<u8>, bool) {
        let ns = ((self.last_rx_seq[i] + 1) % 256) as u8;
        let la = (self.last_tx_seq[i].rem_euclid(256)) as u8;
        match cls {
            "seqMinus1" => (vec![0x08, la, ns.wrapping_sub(1)], true),
            "seqPlus2" => (vec![0x08, la, ns.wrapping_add(1)], true),
            "ackNeverSent" => (vec![0x08, la.wrapping_add(100), ns], true),
            "overrun" => (vec![0x08, la, ns], true),
            "contWithoutBegin" => (vec![0x06, ns, 1, 2, 3], true),
            "finalShort" => (vec![0x05, ns, 10, 0, 1, 2, 3], true),
            "lenLessThanPayload" => (vec![0x05, ns, 2, 0, 1, 2, 3, 4, 5], true),
            "nonFinalShort" => (vec![0x01, ns, 50, 0, 1, 2, 3, 4, 5], true),
            "noFlags" => (vec![0x00, ns, 1, 2, 3], true),
            "beginAndContinue" => (vec![0x07, ns, 3, 0, 1, 2, 3], true),
            "beginInMiddle" => (vec![0x05, ns, 3, 0, 9, 9, 9], true),
            "dataBeforeHandshake" => (vec![0x05, 0, 3, 0, 1, 2, 3], true),
            "hsRespTinyMtu" => (vec![0x65, 0x6c, 4, 1, 0, 5], true),
            "hsRespZeroWindow" => (vec![0x65, 0x6c, 4, 20, 0, 0], true),
            "truncatedHeader" => (vec![0x05, ns], true),
            c => panic!("unknown hostile class {c}"),
        }
    }
    /// Does the real state of end i satisfy what the class assumes (the model may have drifted)?
    fn applicable(&self, i: usize, cls: &str) -> bool {
        match cls {
            "beginInMiddle" => self.est[i] && self.in_msg[i] && self.unacked_rx[i] < self.wnd as usize,
            "contWithoutBegin" | "finalShort" | "lenLessThanPayload" | "nonFinalShort" => self.est[i] && !self.in_msg[i],
            "overrun" => self.est[i] && self.unacked_rx[i] >= self.wnd as usize,
            "dataBeforeHandshake" => !self.est[i],
            "hsRespTinyMtu" | "hsRespZeroWindow" => i == 0 && !self.est[0],
            _ => self.est[i],
        }
    }
    fn inject(&mut self, tr: &mut Trace, i: usize, cls: &str) {
        if !self.applicable(i, cls) {
            return;
        }
        let (bytes, viol) = self.hostile_bytes(i, cls);
        match self.incoming(i, &bytes) {
            Err(p) => {
                self.panicked = true;
                tr.ev(json!({"ev": "Inject", "e": nm(i), "cls": cls, "viol": viol, "res": "panic"}));
                tr.ev(json!({"ev": "Panic", "e": nm(i), "what": format!("process_incoming (hostile {cls}): {p}")}));
            }
            Ok(ok) => {
                tr.ev(json!({"ev": "Inject", "e": nm(i), "cls": cls, "viol": viol, "res": if ok { "ok" } else { "err" }}));
                if ok {
                    // accepted: keep going and see whether it crashes the node or corrupts what is delivered
                    self.send(tr, 0, 98, 2);
                    self.send(tr, 1, 99, 2);
                    self.settle(tr);
                }
            }
        }
    }
}

pub fn run(args: &[String]) -> i32 {
    std::panic::set_hook(Box::new(|_| {}));
    let beh = arg(args, "--behaviours").expect("--behaviours");
    let out = arg(args, "--out").expect("--out");
    let bulk = arg_u64(args, "--bulk", 300);
    let mut behaviours = read_ndjson(&beh);
    // harness-made schedules the model's bounds do not reach: sequence-number wrap (bulk) and window overrun
    behaviours.push(json!([{"op": "Bulk", "n": bulk}]));
    let seed = arg_u64(args, "--seed", 1);
    for r in 0..arg_u64(args, "--random-runs", 3) {
        behaviours.push(json!([{"op": "Random", "n": arg_u64(args, "--random-steps", 4000), "seed": seed * 100 + r}]));
    }
    behaviours.push(json!([{"op": "PartialAcks", "e": "R", "n": arg_u64(args, "--partial-acks", 400)}]));
    behaviours.push(json!([{"op": "PartialAcks", "e": "I", "n": arg_u64(args, "--partial-acks", 400)}]));
    let big_steps = arg_u64(args, "--big-steps", 3000);
    for r in 0..arg_u64(args, "--big-runs", 4) {
        // GATT MTUs from the minimum to the maximum the handshake can carry (segment sizes 20 .. 244)
        let mtu = [23u64, 24, 27, 40, 64, 100, 128, 185, 200, 247, 512][(r % 11) as usize];
        behaviours.push(json!([{"op": "BigSegments", "mtu": mtu, "n": big_steps, "seed": seed * 1000 + r}]));
    }
    behaviours.push(json!([{"op": "Overrun", "e": "R"}]));
    behaviours.push(json!([{"op": "Overrun", "e": "I"}]));
    let mut tr = Trace::create(&out);
    let (mut steps, mut matched) = (0usize, 0usize);
    let mut drift: Vec<Value> = Vec::new();

    for (bi, b) in behaviours.iter().enumerate() {
        sim::clock_reset();
        tr.ev(json!({"ev": "Reset", "run": bi}));
        let mut w = World::new();
        let mut hostile = false;
        for op in b.as_array().unwrap() {
            if w.panicked {
                break;
            }
            steps += 1;
            let i = ix(op["e"].as_str().unwrap_or("I"));
            let ok = match op["op"].as_str().unwrap() {
                "Send" => w.send(&mut tr, i, op["id"].as_u64().unwrap(), op["n"].as_u64().unwrap()),
                "Poll" => {
                    if op["timer"].as_bool() == Some(true) {
                        sim::advance_us(15_000_000);
                    }
                    w.poll(&mut tr, i) == op["out"].as_str().unwrap()
                }
                "Deliver" => w.deliver(&mut tr, i) == op["res"].as_str(),
                "Fetch" => w.fetch(&mut tr, i),
                "Inject" => {
                    hostile = true;
                    w.inject(&mut tr, i, op["cls"].as_str().unwrap());
                    true
                }
                "Bulk" => {
                    let n = op["n"].as_u64().unwrap();
                    for k in 0..n {
                        w.send(&mut tr, 0, 1000 + k, 1 + k % 3);
                        w.send(&mut tr, 1, 5000 + k, 1 + (k + 1) % 3);
                        w.settle(&mut tr);
                        if k % 37 == 0 {
                            sim::advance_us(16_000_000);
                            w.settle(&mut tr);
                        }
                    }
                    true
                }
                "Random" => {
                    // seeded random scheduling of the same steps, long enough to cross the 8-bit sequence wrap with
                    // segments in flight on both sides of it (partial acknowledgements included)
                    let mut rng = crate::util::Rng::new(op["seed"].as_u64().unwrap());
                    let n = op["n"].as_u64().unwrap();
                    let mut next_id = [100_000u64, 200_000u64];
                    for k in 0..n {
                        if w.panicked {
                            break;
                        }
                        // deliveries and fetches are favoured so that the two send windows rarely exhaust at the same time
                        // (that is a dead end of the protocol itself: nobody can acknowledge any more)
                        match rng.below(20) {
                            0 | 1 => {
                                let i = rng.below(2) as usize;
                                if w.send(&mut tr, i, next_id[i], 1 + rng.below(3)) {
                                    next_id[i] += 1;
                                }
                            }
                            2..=6 => {
                                w.poll(&mut tr, rng.below(2) as usize);
                            }
                            7..=14 => {
                                let i = rng.below(2) as usize;
                                if w.deliver(&mut tr, i).is_none() {
                                    w.deliver(&mut tr, 1 - i);
                                }
                            }
                            _ => {
                                let i = rng.below(2) as usize;
                                if !w.fetch(&mut tr, i) {
                                    w.fetch(&mut tr, 1 - i);
                                }
                            }
                        }
                        if k % 500 == 499 {
                            sim::advance_us(16_000_000);
                            w.settle(&mut tr);
                        }
                    }
                    true
                }
                "PartialAcks" => {
                    // deterministic sweep: a full window in flight, only the first segment delivered and acknowledged
                    // (after the ack timeout), more data queued - repeated across several sequence-number wraps with
                    // shifting alignment
                    let n = op["n"].as_u64().unwrap();
                    w.wnd = 6; // a wider window: several segments in flight while one is acknowledged
                    let s = i; // the sending end under observation
                    let p = 1 - i;
                    let mut id = 300_000u64;
                    w.settle(&mut tr);
                    for k in 0..n {
                        if w.panicked {
                            break;
                        }
                        // near the wrap, pad with one-segment messages so that the window in flight straddles it
                        // (first segment 255 or 254, alternating)
                        let next = (w.last_tx_seq[s] + 1).rem_euclid(256);
                        if (236..254).contains(&next) {
                            let target = if (k / 3) % 2 == 0 { 255 } else { 254 };
                            let mut guard = 0;
                            while (w.last_tx_seq[s] + 1).rem_euclid(256) != target && guard < 40 {
                                w.send(&mut tr, s, id, 1);
                                id += 1;
                                w.settle(&mut tr);
                                guard += 1;
                            }
                        }
                        w.send(&mut tr, s, id, 10 + k % 3);
                        id += 1;
                        for _ in 0..6 {
                            w.poll(&mut tr, s);
                        }
                        w.deliver(&mut tr, p);
                        sim::advance_us(16_000_000);
                        w.poll(&mut tr, p); // the peer's ack timer fired: acknowledges the first segment only
                        while w.chan[s].len() > 0 {
                            w.deliver(&mut tr, s);
                        }
                        for _ in 0..8 {
                            w.poll(&mut tr, s); // with a correct window only part of the rest may go out
                        }
                        w.settle(&mut tr);
                        if k % 7 == 6 {
                            w.send(&mut tr, s, id, 1);
                            id += 1;
                            w.settle(&mut tr);
                        }
                    }
                    true
                }
                "BigSegments" => {
                    // every negotiated segment size and window, every message length: both ends get the GATT MTU of the
                    // schedule, the window is what the two real ends negotiate, messages of 0 .. the maximum length are
                    // streamed in both directions under seeded random scheduling, with stretches in which the application
                    // of one end does not pick anything up (its transport still polls and acknowledges)
                    let mut rng = crate::util::Rng::new(op["seed"].as_u64().unwrap());
                    let n = op["n"].as_u64().unwrap();
                    w.mtu = op["mtu"].as_u64().map(|m| m as u16);
                    w.override_wnd = false;
                    let max = rs_matter::transport::network::MAX_TX_PACKET_SIZE;
                    let mut next_id = [400_000u64, 500_000u64];
                    let mut stalled = [false, false];
                    let streamer = rng.below(2) as usize;
                    for k in 0..n {
                        if w.panicked {
                            break;
                        }
                        if k % 40 == 0 {
                            stalled = [rng.below(3) == 0, rng.below(3) == 0];
                        }
                        match rng.below(20) {
                            0..=3 => {
                                // one end streams large messages, the other one answers with small ones
                                let i = if rng.below(4) == 0 { 1 - streamer } else { streamer };
                                let len = if i == streamer {
                                    match rng.below(6) {
                                        0 => rng.below(4) as usize,
                                        1 => max - rng.below(3) as usize,
                                        2 => rng.below(max as u64 + 1) as usize,
                                        _ => max,
                                    }
                                } else {
                                    rng.below(30) as usize
                                };
                                let id = next_id[i];
                                let data: Vec<u8> = (0..len).map(|j| match j {
                                    0 => id as u8,
                                    1 => (id >> 8) as u8,
                                    2 => (id >> 16) as u8,
                                    _ => (id as usize * 7 + j) as u8 ^ (j >> 8) as u8,
                                }).collect();
                                if w.send_bytes(&mut tr, i, id, data) {
                                    next_id[i] += 1;
                                }
                            }
                            4..=9 => {
                                w.poll(&mut tr, rng.below(2) as usize);
                            }
                            10..=16 => {
                                let i = rng.below(2) as usize;
                                if w.deliver(&mut tr, i).is_none() {
                                    w.deliver(&mut tr, 1 - i);
                                }
                            }
                            _ => {
                                let i = rng.below(2) as usize;
                                if !stalled[i] {
                                    w.fetch(&mut tr, i);
                                }
                            }
                        }
                        if k % 400 == 399 {
                            // the acknowledgement timers of both ends run out (applications still stalled or not)
                            sim::advance_us(16_000_000);
                            for _ in 0..4 {
                                for i in 0..2 {
                                    w.poll(&mut tr, i);
                                    while w.deliver(&mut tr, i).is_some() {}
                                }
                            }
                        }
                    }
                    true
                }
                "Overrun" => {
                    // complete the handshake, then feed stand-alone acks with correct sequence numbers without ever
                    // letting the victim acknowledge: the (W+1)-th one overruns its receive window
                    hostile = true;
                    w.poll(&mut tr, 0);
                    w.deliver(&mut tr, 1);
                    w.poll(&mut tr, 1);
                    w.deliver(&mut tr, 0);
                    for k in 0..(WND as usize + 1) {
                        if w.panicked {
                            break;
                        }
                        let (bytes, _) = w.hostile_bytes(i, "overrun");
                        let viol = k >= WND as usize;
                        match w.incoming(i, &bytes) {
                            Err(p) => {
                                w.panicked = true;
                                tr.ev(json!({"ev": "Inject", "e": nm(i), "cls": "overrun", "viol": viol, "res": "panic"}));
                                tr.ev(json!({"ev": "Panic", "e": nm(i), "what": format!("process_incoming (overrun): {p}")}));
                            }
                            Ok(okk) => {
                                if okk {
                                    w.last_rx_seq[i] = (w.last_rx_seq[i] + 1) % 256;
                                }
                                tr.ev(json!({"ev": "Inject", "e": nm(i), "cls": "overrun", "viol": viol, "res": if okk { "ok" } else { "err" }}));
                            }
                        }
                    }
                    true
                }
                o => panic!("unknown op {o}"),
            };
            if ok {
                matched += 1;
            } else if drift.len() < 5 {
                drift.push(json!({"run": bi, "op": op}));
            }
        }
        if !hostile && !w.panicked {
            // wind down: deliver everything, then let the ack timers run out
            w.settle(&mut tr);
            for _ in 0..3 {
                sim::advance_us(16_000_000);
                w.settle(&mut tr);
                if w.panicked {
                    break;
                }
                tr.ev(json!({"ev": "Tick", "t": w.t()}));
            }
            if !w.panicked {
                tr.ev(json!({"ev": "End"}));
            }
        }
    }
    tr.finish();
    println!("{}", json!({"behaviours": behaviours.len(), "steps": steps, "matched_steps": matched, "drift_samples": drift}));
    0
}
