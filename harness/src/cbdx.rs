//! Beyond the listed properties: the BDX streaming engine (Bdx.tla).  Two real stacks A (initiator) and B (responder)
//! with a planted CASE session; a scenario names, for each end, the real engine (`download` / `upload` /
//! `BdxDownloadResponder` / `BdxUploadResponder`) or a hand-written peer that speaks the protocol message by message -
//! proposing / selecting one drive mode, and optionally deviating once (wrong block counter, unexpected message).
//!   {"kind": "download"|"upload", "len": bytes, "buf": staging bytes of the real writer, "chunk": application chunk,
//!    "offset": start offset, "ini": "real"|"raw", "rsp": "real"|"raw", "drive": "S"|"R" (raw ends only),
//!    "raw_mbs": block size a raw end proposes / selects, "dev": "" | "ctr@k" | "op@k", "lose": [datagram ordinals]}
//! Recorded: every BDX / status-report message on the wire (decoded from the tap), what each application wrote / read
//! (length and a checksum), how each end finished.

use core::cell::{Cell, RefCell};
use core::pin::pin;

use embassy_futures::select::select4;
use serde_json::{json, Value};

use rs_matter::bdx::{BdxDownloadInitiator, BdxDownloadResponder, BdxReader, BdxUploadInitiator, BdxUploadResponder, BdxWriter, Block, BlockQuery, RangeControl, TransferAccept, TransferControl, TransferInit, PROTO_ID_BDX};
use rs_matter::crypto::{test_only_crypto, CanonAeadKey};
use rs_matter::dm::devices::test::{TEST_DEV_ATT, TEST_DEV_COMM, TEST_DEV_DET};
use rs_matter::error::{Error, ErrorCode};
use rs_matter::transport::exchange::{Exchange, MessageMeta};
use rs_matter::transport::network::NoNetwork;
use rs_matter::utils::storage::WriteBuf;
use rs_matter::Matter;

use crate::c09::plant;
use crate::sim::{self, Rx, Tx};
use crate::util::{arg, catch, read_ndjson, Trace};
use crate::world::{drive, Limits, Step, TapDecoder};

const NODE_A: u64 = 100;
const NODE_B: u64 = 200;
const FD: &[u8] = b"image.bin";
// opcodes (Matter core spec 11.22.3.1)
const SEND_INIT: u8 = 0x01;
const SEND_ACCEPT: u8 = 0x02;
const RECEIVE_INIT: u8 = 0x04;
const RECEIVE_ACCEPT: u8 = 0x05;
const BLOCK_QUERY: u8 = 0x10;
const BLOCK: u8 = 0x11;
const BLOCK_EOF: u8 = 0x12;
const BLOCK_ACK: u8 = 0x13;
const BLOCK_ACK_EOF: u8 = 0x14;

fn image(len: usize) -> Vec<u8> {
    (0..len).map(|i| (i % 251) as u8 ^ (i / 251) as u8).collect()
}
fn sum(d: &[u8]) -> u64 {
    d.iter().fold(0xcbf29ce484222325u64, |h, b| (h ^ *b as u64).wrapping_mul(0x100000001b3))
}

async fn read_all(reader: &mut BdxReader<'_>, chunk: usize) -> Result<Vec<u8>, Error> {
    let mut out = Vec::new();
    let mut buf = vec![0u8; chunk.max(1)];
    loop {
        let n = reader.read(&mut buf).await?;
        if n == 0 {
            break;
        }
        out.extend_from_slice(&buf[..n]);
        if out.len() > 1_000_000 {
            return Err(ErrorCode::NoSpace.into());
        }
    }
    Ok(out)
}
async fn write_all(writer: &mut BdxWriter<'_, '_>, mut data: &[u8], chunk: usize) -> Result<(), Error> {
    while !data.is_empty() {
        let k = chunk.max(1).min(data.len());
        let n = writer.write(&data[..k]).await?;
        if n == 0 {
            return Err(ErrorCode::Invalid.into());
        }
        data = &data[n..];
    }
    Ok(())
}

async fn raw_send(ex: &mut Exchange<'_>, op: u8, f: impl Fn(&mut WriteBuf) -> Result<(), Error>) -> Result<(), Error> {
    ex.send_with(|_, wb| {
        f(wb)?;
        Ok(Some(MessageMeta::new(PROTO_ID_BDX, op, true)))
    })
    .await
}
/// next message: (protocol id, opcode, payload)
async fn raw_recv(ex: &mut Exchange<'_>) -> Result<(u16, u8, Vec<u8>), Error> {
    let rx = ex.recv().await?;
    let m = rx.meta();
    Ok((m.proto_id, m.proto_opcode, rx.payload().to_vec()))
}

struct Dev {
    kind: u8, // 0 none, 1 wrong counter, 2 unexpected opcode
    at: u32,
}
fn dev_of(s: &str) -> Dev {
    let mut it = s.split('@');
    let k = match it.next().unwrap_or("") { "ctr" => 1, "op" => 2, _ => 0 };
    Dev { kind: k, at: it.next().and_then(|x| x.parse().ok()).unwrap_or(0) }
}

/// A hand-written sender of `data` in blocks of `mbs`, driving (sender drive) or following BlockQuery messages.
async fn raw_sender(ex: &mut Exchange<'_>, data: &[u8], mbs: usize, driving: bool, dev: &Dev) -> Result<(), Error> {
    let mut ctr = 0u32;
    let mut pos = 0usize;
    loop {
        if !driving {
            let (p, op, pl) = raw_recv(ex).await?;
            if p != PROTO_ID_BDX || op != BLOCK_QUERY || BlockQuery::parse(&pl)?.block_counter != ctr {
                return Err(ErrorCode::InvalidData.into());
            }
        }
        let n = mbs.min(data.len() - pos);
        let last = pos + n == data.len() && n < mbs;
        let (mut c, mut op) = (ctr, if last { BLOCK_EOF } else { BLOCK });
        if dev.kind == 1 && dev.at == ctr { c = ctr.wrapping_add(7); }
        if dev.kind == 2 && dev.at == ctr { op = BLOCK_ACK; }
        let chunk = &data[pos..pos + n];
        raw_send(ex, op, |wb| Block { block_counter: c, data: chunk }.write(wb)).await?;
        pos += n;
        if driving || last {
            let (p, o, pl) = raw_recv(ex).await?;
            let want = if last { BLOCK_ACK_EOF } else { BLOCK_ACK };
            if p != PROTO_ID_BDX || o != want || BlockQuery::parse(&pl)?.block_counter != ctr {
                return Err(ErrorCode::InvalidData.into());
            }
        }
        if last {
            ex.acknowledge().await?;
            return Ok(());
        }
        ctr = ctr.wrapping_add(1);
    }
}
/// A hand-written receiver, driving (BlockQuery) or following (BlockAck).
async fn raw_receiver(ex: &mut Exchange<'_>, driving: bool, dev: &Dev) -> Result<Vec<u8>, Error> {
    let mut ctr = 0u32;
    let mut out = Vec::new();
    loop {
        if driving {
            let (mut c, mut op) = (ctr, BLOCK_QUERY);
            if dev.kind == 1 && dev.at == ctr { c = ctr.wrapping_add(7); }
            if dev.kind == 2 && dev.at == ctr { op = BLOCK; }
            raw_send(ex, op, |wb| BlockQuery { block_counter: c }.write(wb)).await?;
        }
        let (p, op, pl) = raw_recv(ex).await?;
        if p != PROTO_ID_BDX || (op != BLOCK && op != BLOCK_EOF) {
            return Err(ErrorCode::InvalidData.into());
        }
        let b = Block::parse(&pl)?;
        if b.block_counter != ctr {
            return Err(ErrorCode::InvalidData.into());
        }
        out.extend_from_slice(b.data);
        if op == BLOCK_EOF {
            raw_send(ex, BLOCK_ACK_EOF, |wb| BlockQuery { block_counter: ctr }.write(wb)).await?;
            return Ok(out);
        }
        if !driving {
            let (mut c, mut o) = (ctr, BLOCK_ACK);
            if dev.kind == 1 && dev.at == ctr { c = ctr.wrapping_add(7); }
            if dev.kind == 2 && dev.at == ctr { o = BLOCK_QUERY; }
            raw_send(ex, o, |wb| BlockQuery { block_counter: c }.write(wb)).await?;
        }
        ctr = ctr.wrapping_add(1);
    }
}

fn tc(sender: bool, receiver: bool) -> TransferControl {
    TransferControl { version: 0, sender_drive: sender, receiver_drive: receiver, async_mode: false }
}

fn run_one(sc: &Value) -> Vec<Value> {
    sim::clock_reset();
    let net = sim::new_net();
    let a = Matter::new(&TEST_DEV_DET, TEST_DEV_COMM, &TEST_DEV_ATT, 5540);
    let b = Matter::new(&TEST_DEV_DET, TEST_DEV_COMM, &TEST_DEV_ATT, 5540);
    plant(&a, NODE_A, NODE_B, 1, 1, 1);
    plant(&b, NODE_B, NODE_A, 0, 1, 1);
    let crypto = test_only_crypto();
    let events: RefCell<Vec<Value>> = RefCell::new(Vec::new());
    let ev = |mut v: Value| {
        v["seq"] = json!(sim::next_seq());
        events.borrow_mut().push(v)
    };
    let download = sc["kind"] == "download";
    let len = sc["len"].as_u64().unwrap() as usize;
    let offset = sc["offset"].as_u64().unwrap_or(0) as usize;
    let buf_len = sc["buf"].as_u64().unwrap_or(1024) as usize;
    let chunk = sc["chunk"].as_u64().unwrap_or(300) as usize;
    let raw_mbs = sc["raw_mbs"].as_u64().unwrap_or(512) as u16;
    let ini_raw = sc["ini"] == "raw";
    let rsp_raw = sc["rsp"] == "raw";
    let sdrive = sc["drive"] == "S";
    let dev = dev_of(sc["dev"].as_str().unwrap_or(""));
    let file = image(len);
    let tail = file[offset.min(len)..].to_vec();
    let (a_done, b_done) = (Cell::new(false), Cell::new(false));

    // ---- A: the initiator ----
    let app_a = async {
        let r: Result<(), Error> = async {
            let mut ex = Exchange::initiate(&a, &crypto, core::num::NonZeroU8::new(1).unwrap(), NODE_B).await?;
            if !ini_raw {
                if download {
                    let mut reader = ex.download(FD, if offset > 0 { Some(offset as u64) } else { None }).await?;
                    ev(json!({"ev": "Len", "n": "A", "len": reader.len().map(|x| x as i64).unwrap_or(-1)}));
                    let got = read_all(&mut reader, chunk).await?;
                    ev(json!({"ev": "AppRead", "n": "A", "len": got.len(), "sum": sum(&got).to_string()}));
                } else {
                    let mut wbuf = vec![0u8; buf_len];
                    let mut writer = ex.upload(&mut wbuf, FD, if offset > 0 { Some(offset as u64) } else { None }).await?;
                    ev(json!({"ev": "Mbs", "n": "A", "mbs": writer.max_block_size()}));
                    write_all(&mut writer, &tail, chunk).await?;
                    writer.finish().await?;
                    ev(json!({"ev": "AppWrote", "n": "A", "len": tail.len(), "sum": sum(&tail).to_string()}));
                }
            } else {
                // a hand-written initiator that proposes exactly one drive mode
                let init = TransferInit { transfer_control: tc(sdrive, !sdrive), range_control: RangeControl { def_len: false, start_offset: offset > 0, wide_range: false },
                                          max_block_size: raw_mbs, start_offset: offset as u64, length: 0, file_designator: FD, metadata: &[] };
                raw_send(&mut ex, if download { RECEIVE_INIT } else { SEND_INIT }, |wb| init.write(wb)).await?;
                let (p, op, pl) = raw_recv(&mut ex).await?;
                if p != PROTO_ID_BDX || op != (if download { RECEIVE_ACCEPT } else { SEND_ACCEPT }) {
                    ev(json!({"ev": "Refused", "n": "A", "proto": p, "op": op}));
                    return Err(ErrorCode::Invalid.into());
                }
                let acc = TransferAccept::parse(download, &pl)?;
                ev(json!({"ev": "Accept", "n": "A", "sd": acc.transfer_control.sender_drive, "rd": acc.transfer_control.receiver_drive, "mbs": acc.max_block_size}));
                if download {
                    let got = raw_receiver(&mut ex, !sdrive, &dev).await?;
                    ev(json!({"ev": "AppRead", "n": "A", "len": got.len(), "sum": sum(&got).to_string()}));
                } else {
                    raw_sender(&mut ex, &tail, acc.max_block_size as usize, sdrive, &dev).await?;
                    ev(json!({"ev": "AppWrote", "n": "A", "len": tail.len(), "sum": sum(&tail).to_string()}));
                }
            }
            Ok(())
        }
        .await;
        ev(json!({"ev": "AppEnd", "n": "A", "code": r.err().map(|e| format!("{:?}", e.code())).unwrap_or_default(), "t": sim::now_ms()}));
        a_done.set(true);
        core::future::pending::<()>().await
    };
    // ---- B: the responder ----
    let app_b = async {
        let r: Result<(), Error> = async {
            let mut ex = Exchange::accept(&b).await?;
            if !rsp_raw {
                if download {
                    let responder = BdxDownloadResponder::accept(ex).await?;
                    let off = responder.start_offset() as usize;
                    let t = file[off.min(len)..].to_vec();
                    let mut wbuf = vec![0u8; buf_len];
                    let mut writer = responder.reply(&mut wbuf, Some(t.len() as u64)).await?;
                    ev(json!({"ev": "Mbs", "n": "B", "mbs": writer.max_block_size()}));
                    write_all(&mut writer, &t, chunk).await?;
                    writer.finish().await?;
                    ev(json!({"ev": "AppWrote", "n": "B", "len": t.len(), "sum": sum(&t).to_string()}));
                } else {
                    let responder = BdxUploadResponder::accept(ex).await?;
                    ev(json!({"ev": "Offset", "n": "B", "off": responder.start_offset()}));
                    let mut reader = responder.reply().await?;
                    let got = read_all(&mut reader, chunk).await?;
                    ev(json!({"ev": "AppRead", "n": "B", "len": got.len(), "sum": sum(&got).to_string()}));
                }
            } else {
                let (p, op, pl) = raw_recv(&mut ex).await?;
                if p != PROTO_ID_BDX || op != (if download { RECEIVE_INIT } else { SEND_INIT }) {
                    return Err(ErrorCode::Invalid.into());
                }
                let init = TransferInit::parse(&pl)?;
                let off = init.start_offset as usize;
                let mbs = init.max_block_size.min(raw_mbs);
                let t = file[off.min(len)..].to_vec();
                let acc = TransferAccept { receive: download, transfer_control: tc(sdrive, !sdrive), range_control: RangeControl { def_len: download, start_offset: false, wide_range: false },
                                           max_block_size: mbs, length: t.len() as u64, metadata: &[] };
                raw_send(&mut ex, if download { RECEIVE_ACCEPT } else { SEND_ACCEPT }, |wb| acc.write(wb)).await?;
                if download {
                    raw_sender(&mut ex, &t, mbs as usize, sdrive, &dev).await?;
                    ev(json!({"ev": "AppWrote", "n": "B", "len": t.len(), "sum": sum(&t).to_string()}));
                } else {
                    let got = raw_receiver(&mut ex, !sdrive, &dev).await?;
                    ev(json!({"ev": "AppRead", "n": "B", "len": got.len(), "sum": sum(&got).to_string()}));
                }
            }
            Ok(())
        }
        .await;
        ev(json!({"ev": "AppEnd", "n": "B", "code": r.err().map(|e| format!("{:?}", e.code())).unwrap_or_default(), "t": sim::now_ms()}));
        b_done.set(true);
        core::future::pending::<()>().await
    };

    let mut all = pin!(select4(
        a.run(&crypto, Tx(net.clone(), 0), Rx(net.clone(), 0), NoNetwork),
        b.run(&crypto, Tx(net.clone(), 1), Rx(net.clone(), 1), NoNetwork),
        app_a,
        app_b
    ));
    let lose: Vec<u64> = sc["lose"].as_array().map(|a| a.iter().map(|x| x.as_u64().unwrap()).collect()).unwrap_or_default();
    let mut ordinal = 0u64;
    let mut settle = 0usize;
    let end = drive(all.as_mut(), &net, &Limits { max_virtual_ms: 600_000, max_steps: 3_000_000, ..Default::default() }, |net| {
        if !net.borrow().wire.is_empty() {
            ordinal += 1;
            if lose.contains(&ordinal) {
                return Step::Drop(0);
            }
            return Step::Deliver(0);
        }
        if a_done.get() && b_done.get() {
            settle += 1;
            if settle > 3 {
                return Step::Stop;
            }
        }
        Step::NextTimer
    });
    // the wire: every distinct BDX / status message, in the order first sent
    let mut dec = TapDecoder::default();
    dec.keys.insert((0, 1), (CanonAeadKey::new(), NODE_A));
    dec.keys.insert((1, 1), (CanonAeadKey::new(), NODE_B));
    let mut out: Vec<Value> = Vec::new();
    out.push(json!({"ev": "Scenario", "kind": sc["kind"], "len": len, "offset": offset, "tail": tail.len(), "sum": sum(&tail).to_string(), "ini": sc["ini"], "rsp": sc["rsp"], "dev": sc["dev"].as_str().unwrap_or("").split('@').next().unwrap_or(""), "lossy": !lose.is_empty()}));
    let mut seen: std::collections::HashSet<(usize, u32)> = Default::default();
    let mut wire: Vec<(usize, Value)> = Vec::new();
    for d in net.borrow().tap.iter() {
        let t = dec.decode(d);
        let Some(p) = t.proto else { continue };
        if !seen.insert((d.src, t.ctr)) {
            continue; // a retransmission
        }
        if p.proto_id == PROTO_ID_BDX {
            let (ctr, n) = match p.opcode {
                BLOCK | BLOCK_EOF => Block::parse(&p.payload).map(|b| (b.block_counter as i64, b.data.len() as i64)).unwrap_or((-1, -1)),
                BLOCK_QUERY | BLOCK_ACK | BLOCK_ACK_EOF => BlockQuery::parse(&p.payload).map(|b| (b.block_counter as i64, 0)).unwrap_or((-1, -1)),
                _ => (-1, p.payload.len() as i64),
            };
            wire.push((d.seq, json!({"ev": "Wire", "src": if d.src == 0 { "A" } else { "B" }, "op": p.opcode, "ctr": ctr, "n": n})));
        } else if p.proto_id == 0 && p.opcode == 0x40 {
            let code = if p.payload.len() >= 8 { u16::from_le_bytes([p.payload[6], p.payload[7]]) as i64 } else { -1 };
            let pid = if p.payload.len() >= 6 { u32::from_le_bytes([p.payload[2], p.payload[3], p.payload[4], p.payload[5]]) as i64 } else { -1 };
            wire.push((d.seq, json!({"ev": "Wire", "src": if d.src == 0 { "A" } else { "B" }, "op": 0x40, "ctr": pid, "n": code})));
        }
    }
    let mut app: Vec<(usize, Value)> = events.borrow().iter().map(|e| (e["seq"].as_u64().unwrap() as usize, e.clone())).collect();
    app.append(&mut wire);
    app.sort_by_key(|e| e.0);
    out.extend(app.into_iter().map(|e| e.1));
    out.push(json!({"ev": "End", "how": format!("{:?}", end), "a_done": a_done.get(), "b_done": b_done.get()}));
    out
}

pub fn run(args: &[String]) -> i32 {
    let scenarios = read_ndjson(&arg(args, "--behaviours").expect("--behaviours"));
    let mut tr = Trace::create(&arg(args, "--out").expect("--out"));
    for (bi, sc) in scenarios.iter().enumerate() {
        tr.ev(json!({"ev": "Reset", "run": bi}));
        match catch(|| run_one(sc)) {
            Ok(evs) => for e in evs { tr.ev(e); },
            Err(m) => tr.ev(json!({"ev": "End", "how": format!("PANIC {m}"), "a_done": false, "b_done": false})),
        }
    }
    tr.finish();
    println!("{}", json!({"scenarios": scenarios.len()}));
    0
}
