//! Handshake world: one real device (full stack: transport, secure channel, interaction model with the root endpoint,
//! busy responder) and up to three real initiators on the adversarial network, driven by a global script of operations:
//! window open / close, PASE / CASE attempts (complete, abandoned after the k-th device answer, with a garbled message,
//! with a wrong passcode), handler cancellation, waits, probes.  Records what the property layers need: attempt starts and
//! results, the device's session table as it changes (snapshot hook), window state / failure counter / what is
//! advertised, the handshake messages on the wire.  Used by C02 (PASE), C20 (slots) and C01 (CASE).
#![allow(dead_code)]

use core::cell::{Cell, RefCell};
use core::num::NonZeroU8;
use core::pin::pin;
use core::task::{Poll, Waker};
use std::collections::VecDeque;

use embassy_futures::select::{select, select4, Either};
use serde_json::{json, Value};

use rs_matter::cert::gen::VALID_FOREVER;
use rs_matter::cert::MAX_CERT_TLV_AND_ASN1_LEN;
use rs_matter::crypto::{test_only_crypto, CanonAeadKey, CanonPkcSecretKey, Crypto, SecretKey, SigningSecretKey};
use rs_matter::dm::clusters::net_comm::DummyNetworks;
use rs_matter::dm::devices::test::{TEST_DEV_ATT, TEST_DEV_COMM, TEST_DEV_DET};
use rs_matter::dm::endpoints::EthSysHandlerBuilder;
use rs_matter::dm::Node;
use rs_matter::error::Error;
use rs_matter::im::{InteractionModel, InteractionModelState, PROTO_ID_INTERACTION_MODEL};
use rs_matter::onboard::cac::RcacGenerator;
use rs_matter::onboard::noc::NocGenerator;
use rs_matter::persist::DummyKvBlobStore;
use rs_matter::respond::{ChainedExchangeHandler, ExchangeHandler, Responder};
use rs_matter::sc::case::CaseInitiator;
use rs_matter::sc::pase::PaseInitiator;
use rs_matter::sc::SecureChannel;
use rs_matter::transport::exchange::{Exchange, MatterBuffers};
use rs_matter::transport::network::NoNetwork;
use rs_matter::transport::session::{ReservedSession, SessionMode};
use rs_matter::utils::select::Coalesce;
use rs_matter::verif::SessionSnap;
use rs_matter::{root_endpoint, Matter};

use crate::sim::{self, Rx, Tx};
use crate::util::Trace;
use crate::world::{drive, End, Limits, Step, TapDecoder};

const NODE: Node<'static> = Node { endpoints: &[root_endpoint!(eth)] };
pub const DEV_NODE: u64 = 0x2000;
pub const PASSCODE: u32 = 20202021;

/// Wraps an exchange handler so that the script can cancel every handling in progress (the handler future is dropped
/// at whatever await point it is waiting).
pub struct Cancellable<'a, H> {
    pub inner: H,
    pub epoch: &'a Cell<u32>,
    pub wakers: &'a RefCell<Vec<Waker>>,
    pub n_cancelled: &'a Cell<u32>,
}
impl<H: ExchangeHandler> ExchangeHandler for Cancellable<'_, H> {
    async fn handle(&self, exchange: Exchange<'_>) -> Result<(), Error> {
        let start = self.epoch.get();
        let watch = core::future::poll_fn(|cx| {
            if self.epoch.get() != start {
                Poll::Ready(())
            } else {
                self.wakers.borrow_mut().push(cx.waker().clone());
                Poll::Pending
            }
        });
        match select(self.inner.handle(exchange), watch).await {
            Either::First(r) => r,
            Either::Second(_) => {
                self.n_cancelled.set(self.n_cancelled.get() + 1);
                Ok(())
            }
        }
    }
}

/// One fabric shared by the device and the initiators: root key, and the material each node needs.
pub struct FabricKit {
    pub rcac: Vec<u8>,
    pub ipk: [u8; 16],
    /// per node: (node id, canonical secret key bytes holder, noc)
    pub nodes: Vec<(u64, CanonPkcSecretKey, Vec<u8>)>,
}

pub fn make_fabric(node_ids: &[u64]) -> FabricKit {
    make_fabric_ex(&test_only_crypto(), node_ids, 1, [0x44; 16])
}

/// CASE authenticated tags in the NOC of a node (by node id): node 0x1001 carries two
pub fn cats_of(node_id: u64) -> Vec<u32> {
    if node_id == 0x1001 {
        vec![0x0001_0001, 0x0002_0003]
    } else {
        vec![]
    }
}

/// `crypto`: every instance of the test crypto produces the same "random" key sequence - fabrics that must have different
/// roots have to be made from ONE instance.
pub fn make_fabric_ex<C: Crypto>(crypto: C, node_ids: &[u64], fabric_id: u64, ipk: [u8; 16]) -> FabricKit {
    make_fabric_v(crypto, node_ids, fabric_id, ipk, None)
}

/// `special`: this node's NOC gets this validity period instead of "for ever"
pub fn make_fabric_v<C: Crypto>(crypto: C, node_ids: &[u64], fabric_id: u64, ipk: [u8; 16], special: Option<(u64, rs_matter::cert::gen::Validity)>) -> FabricKit {
    let mut rcac_buf = [0u8; MAX_CERT_TLV_AND_ASN1_LEN];
    let mut rcac_gen = RcacGenerator::new(&mut rcac_buf);
    let (rcac_priv, rcac) = rcac_gen.generate(&crypto, fabric_id, VALID_FOREVER).unwrap();
    let rcac_v = rcac.to_vec();
    let mut noc_buf = [0u8; MAX_CERT_TLV_AND_ASN1_LEN];
    let mut noc_gen = NocGenerator::create(rcac_priv.reference(), &rcac_v, &[], &mut noc_buf).unwrap();
    let mut nodes = Vec::new();
    for id in node_ids {
        let sk = crypto.generate_secret_key().unwrap();
        let mut csr_buf = [0u8; 256];
        let csr = sk.csr(&mut csr_buf).unwrap();
        let mut canon = CanonPkcSecretKey::new();
        sk.write_canon(&mut canon).unwrap();
        let validity = match &special {
            Some((n, v)) if n == id => rs_matter::cert::gen::Validity { not_before: v.not_before, not_after: v.not_after },
            _ => VALID_FOREVER,
        };
        let noc = noc_gen.generate(&crypto, csr, *id, &cats_of(*id), validity).unwrap().to_vec();
        nodes.push((*id, canon, noc));
    }
    FabricKit { rcac: rcac_v, ipk, nodes }
}

pub fn install_fabric(m: &Matter<'_>, kit: &FabricKit, which: usize) -> NonZeroU8 {
    let crypto = test_only_crypto();
    let mut ipk = CanonAeadKey::new();
    ipk.load_from_array(&kit.ipk);
    let (id, sk, noc) = &kit.nodes[which];
    m.with_state(|state| state.fabrics.add(&crypto, sk.reference(), &kit.rcac, noc, &[], Some(ipk.reference()), 0xFFF1, *id).unwrap().fab_idx())
}

#[derive(Clone, Debug)]
pub enum Cmd {
    Pase { pass: u32, tag: u32, filter: Filter, start: Value },
    Case { peer: u64, tag: u32, filter: Filter, start: Value },
}

/// Which datagrams the adversary lets through for an initiator's current attempt.  Handshake messages are numbered
/// per direction by first appearance (a retransmission carries the same counter and is the same message).
#[derive(Clone, Debug, Default)]
pub struct Filter {
    /// blackhole everything between the device and this initiator once `cut` distinct device answers were delivered
    pub cut: Option<usize>,
    /// garble the n-th (1-based) handshake message in the given direction (true = initiator -> device), every copy alike
    pub garble: Option<(bool, usize)>,
    /// where to flip: offset into the protocol payload (None = third byte from the end of the datagram) and the xor mask
    pub garble_at: Option<(usize, u8)>,
    /// hold the n-th handshake message in the given direction (every copy) until `ms` after its first appearance
    pub hold: Option<(bool, usize, u64)>,
    pub hold_until: Option<u64>,
    /// lose the first `n` copies of the nth handshake message in the given direction: (to_dev, nth, n)
    pub drop_first: Option<(bool, usize, usize)>,
    pub dropped: usize,
    /// distinct handshake messages seen per direction [to device, from device], by message counter
    pub msgs: [Vec<u32>; 2],
    pub answers_delivered: Vec<u32>,
    pub active: bool,
    /// step-locked mode: the initiator's handshake messages are parked until the script releases them one by one
    pub locked: bool,
    pub parked: Vec<(u32, Vec<u8>)>,
    pub parked_ctrs: Vec<u32>,
    /// this attempt cannot verify (wrong passcode / a garbled message): its third message is a failed proof
    pub bad_proof: bool,
    pub proof_reported: bool,
}

pub const SC_HANDSHAKE_OPCODES: [u8; 9] = [0x20, 0x21, 0x22, 0x23, 0x24, 0x30, 0x31, 0x32, 0x33];

pub fn mode_name(m: u8) -> &'static str {
    match m {
        0 => "plain",
        1 => "pase",
        2 => "case",
        _ => "group",
    }
}

pub struct Scenario<'v> {
    pub ops: &'v [Value],
    /// number of device sessions planted with a live exchange (never evictable) and idle planted sessions
    pub fill_busy: usize,
    pub fill_idle: usize,
    /// of the busy ones, how many are expired sessions (their peer stopped acknowledging) that still carry a live exchange
    pub fill_expired: usize,
    pub with_fabric: bool,
    /// initiator 3 (and the device) are additionally / instead members of a second fabric; initiator 2 belongs to a
    /// fabric the device does not know; initiator 2 has the right certificates but a wrong IPK
    pub second_fabric: bool,
    pub foreign2: bool,
    pub wrong_ipk2: bool,
    /// initiator 2's NOC is outside its validity period: "expired" (ended before the node's last known good time) or
    /// "notyet" (starts in the far future)
    pub validity2: &'static str,
    /// the device's responders (the application side) do not run for the first `stall_ms` of the run: what arrives
    /// meanwhile is only seen by the transport (accept time-outs)
    pub stall_ms: u64,
}

/// Runs one scenario; every observable goes to `tr`.  Returns how the run ended.
pub fn run_scenario(sc: &Scenario<'_>, tr: &mut Trace) -> End {
    sim::clock_reset();
    let net = sim::new_net();
    // the signer of this world is not deterministic: signing the same data again gives other signature bytes
    let crypto = crate::randsig::RandSig::new(test_only_crypto());
    let dev = Matter::new(&TEST_DEV_DET, TEST_DEV_COMM, &TEST_DEV_ATT, 5540);
    let inis = [
        Matter::new(&TEST_DEV_DET, TEST_DEV_COMM, &TEST_DEV_ATT, 5540),
        Matter::new(&TEST_DEV_DET, TEST_DEV_COMM, &TEST_DEV_ATT, 5540),
        Matter::new(&TEST_DEV_DET, TEST_DEV_COMM, &TEST_DEV_ATT, 5540),
    ];
    let mut fab_idx = [None; 3];
    if sc.with_fabric || sc.fill_busy + sc.fill_idle > 0 {
        // the harness builds rs-matter with a last known good time of 800 000 000 s (Matter epoch)
        let special = match sc.validity2 {
            "expired" => Some((0x1002u64, rs_matter::cert::gen::Validity { not_before: 1, not_after: 700_000_000 })),
            "notyet" => Some((0x1002u64, rs_matter::cert::gen::Validity { not_before: 900_000_000, not_after: 0 })),
            _ => None,
        };
        let kit = make_fabric_v(&crypto, &[DEV_NODE, 0x1001, 0x1002, 0x1003], 1, [0x44; 16], special);
        install_fabric(&dev, &kit, 0);
        for (i, m) in inis.iter().enumerate() {
            if i == 1 && sc.foreign2 {
                // a complete fabric of its own, with a device certificate for the same node id - but not the device's root
                let other = make_fabric_ex(&crypto, &[DEV_NODE, 0x1002], 1, [0x44; 16]);
                fab_idx[i] = Some(install_fabric(m, &other, 1));
            } else if i == 1 && sc.wrong_ipk2 {
                let mut k2 = FabricKit { rcac: kit.rcac.clone(), ipk: [0x45; 16], nodes: Vec::new() };
                k2.nodes.push((kit.nodes[2].0, { let mut c = CanonPkcSecretKey::new(); c.load(kit.nodes[2].1.reference()); c }, kit.nodes[2].2.clone()));
                fab_idx[i] = Some(install_fabric(m, &k2, 0));
            } else if i == 1 && sc.validity2 == "forged" {
                // an ordinary member (node 0x1002) signs, with its operational key, a NOC of its own making for the
                // administrator's node id and presents its genuine NOC in the ICAC position
                use rs_matter::tlv::TLVElement;
                let (_, msk, mnoc) = &kit.nodes[2];
                let mkey = crate::c19::key_from_secret(msk);
                let fkey = crate::c19::new_key(&crypto);
                let member_subject: Vec<(u8, u64)> = TLVElement::new(mnoc).structure().unwrap().find_ctx(6).unwrap().list().unwrap().iter()
                    .map(|e| { let e = e.unwrap(); (match e.tag().unwrap() { rs_matter::tlv::TLVTag::Context(t) => t, _ => 0 }, e.u64().unwrap()) }).collect();
                let mut subject = member_subject.clone();
                for a in subject.iter_mut() {
                    if a.0 == 17 {
                        a.1 = 0x1001;
                    }
                }
                let forged = crate::c19::build(&crate::c19::Spec { subject, issuer: member_subject, key: fkey.clone(), signer: mkey.clone(), akid: mkey.kid, nb: 1, na: 0, is_ca: false,
                    path_len: None, ku: crate::c19::KU_DIGSIG, eku: vec![1, 2], crit_ext: false, exts: vec![], bad_sig: false, serial: 9 });
                let mut ipk = CanonAeadKey::new();
                ipk.load_from_array(&kit.ipk);
                fab_idx[i] = Some(m.with_state(|state| state.fabrics.add(&crypto, fkey.secret.reference(), &kit.rcac, &forged, mnoc, Some(ipk.reference()), 0xFFF1, 0x1001).unwrap().fab_idx()));
            } else if i == 2 && sc.second_fabric {
                let kit2 = make_fabric_ex(&crypto, &[DEV_NODE + 7, 0x1003], 2, [0x55; 16]);
                install_fabric(&dev, &kit2, 0);
                fab_idx[i] = Some(install_fabric(m, &kit2, 1));
            } else {
                fab_idx[i] = Some(install_fabric(m, &kit, i + 1));
            }
        }
    }
    // fillers: planted secure sessions towards a node that does not exist (index 3 + ...), some holding a live exchange
    let mut held: Vec<Exchange<'_>> = Vec::new();
    let mut to_expire: Vec<Exchange<'_>> = Vec::new();
    let mut filler_ids: Vec<(u32, bool)> = Vec::new();
    for k in 0..(sc.fill_busy + sc.fill_idle) {
        let mut s = ReservedSession::reserve_now(&dev, &crypto).unwrap();
        // operational sessions of some other controllers (not touched by the PASE clean-up on fail-safe expiry)
        let far = rs_matter::transport::network::Address::Udp(rs_matter::transport::network::SocketAddr::V6(rs_matter::transport::network::SocketAddrV6::new(
            rs_matter::transport::network::Ipv6Addr::new(0xfd00, 0, 0, 0, 0, 0, 0x99, 1 + k as u16), 6000 + k as u16, 0, 0)));
        s.update(DEV_NODE, 0x9000 + k as u64, 900 + k as u16, 900 + k as u16, far, SessionMode::Case { fab_idx: NonZeroU8::new(1).unwrap(), cat_ids: Default::default() }, None, None, None, None).unwrap();
        s.complete();
        drop(s);
        let id = dev.with_state(|st| st.verif_snapshot().sessions.sessions.iter().find(|x| x.local_sess_id == 900 + k as u16).unwrap().id);
        let busy = k < sc.fill_busy;
        if busy {
            held.push(Exchange::initiate_for_session(&dev, &crypto, id).unwrap());
            if k < sc.fill_expired {
                to_expire.push(Exchange::initiate_for_session(&dev, &crypto, id).unwrap());
            }
        }
        filler_ids.push((id, busy));
    }

    let buffers: MatterBuffers = MatterBuffers::new();
    let state: InteractionModelState<DummyNetworks, 3, 1024> = InteractionModelState::new(DummyNetworks);
    state.suppress_start_up_event();
    let kv = dev.kv(DummyKvBlobStore);
    let handler = EthSysHandlerBuilder::new().build(crypto.rand().unwrap());
    let dm = InteractionModel::new(&dev, &crypto, &buffers, (NODE, handler), &kv, &state);
    let epoch = Cell::new(0u32);
    let cancel_wakers = RefCell::new(Vec::<Waker>::new());
    let n_cancelled = Cell::new(0u32);
    let responder = Responder::new(
        "R",
        Cancellable { inner: ChainedExchangeHandler::new(PROTO_ID_INTERACTION_MODEL, &dm, SecureChannel::new(&crypto, &dm)), epoch: &epoch, wakers: &cancel_wakers, n_cancelled: &n_cancelled },
        &dev,
        0,
    );
    let busy_responder = Responder::new_busy(&dev, 500);

    let events: RefCell<Vec<Value>> = RefCell::new(Vec::new());
    let ev = |mut v: Value| {
        v["seq"] = json!(sim::next_seq());
        v["t"] = json!(sim::now_ms());
        events.borrow_mut().push(v)
    };
    let mail: [RefCell<VecDeque<Cmd>>; 3] = Default::default();
    let mail_wakers: [RefCell<Option<Waker>>; 3] = Default::default();
    let running: [Cell<bool>; 3] = Default::default();
    let last_ok: [Cell<bool>; 3] = Default::default();
    let last_code: [RefCell<String>; 3] = Default::default();
    let filters: [RefCell<Filter>; 3] = Default::default();

    let initiator = |i: usize| {
        let (m, mail, mw, running, ev, crypto, filters) = (&inis[i], &mail[i], &mail_wakers[i], &running[i], &ev, &crypto, &filters[i]);
        let (last_ok, last_code) = (&last_ok[i], &last_code[i]);
        let fab = fab_idx[i];
        async move {
            loop {
                let cmd = core::future::poll_fn(|cx| match mail.borrow_mut().pop_front() {
                    Some(c) => Poll::Ready(c),
                    None => {
                        *mw.borrow_mut() = Some(cx.waker().clone());
                        Poll::Pending
                    }
                })
                .await;
                running.set(true);
                // the attempt begins now: its network filter and its description
                let is_probe = match &cmd {
                    Cmd::Pase { start, .. } | Cmd::Case { start, .. } => start["probe"] == true,
                };
                match &cmd {
                    Cmd::Pase { filter, start, .. } | Cmd::Case { filter, start, .. } => {
                        *filters.borrow_mut() = filter.clone();
                        ev(start.clone());
                    }
                }
                let (tag, r): (u32, Result<(), Error>) = match cmd {
                    Cmd::Pase { pass, tag, .. } => (tag, async {
                        let ex = Exchange::initiate_plaintext(m, crypto, sim::addr(0)).await?;
                        PaseInitiator::perform(ex, crypto, pass).await
                    }
                    .await),
                    Cmd::Case { peer, tag, .. } => (tag, async {
                        let ex = Exchange::initiate_plaintext(m, crypto, sim::addr(0)).await?;
                        CaseInitiator::perform(ex, crypto, fab.unwrap(), peer).await
                    }
                    .await),
                };
                last_ok.set(r.is_ok());
                *last_code.borrow_mut() = r.as_ref().err().map(|e| format!("{:?}", e.code())).unwrap_or_default();
                running.set(false);
                filters.borrow_mut().active = false;
                // the initiator's own secure sessions (towards the device) after the attempt
                let mine: Vec<Value> = m.with_state(|st| st.verif_snapshot().sessions.sessions.iter().filter(|x| x.mode == 1 || x.mode == 2).map(|x| {
                    json!({"id": x.id, "mode": mode_name(x.mode), "peer_node": x.peer_nodeid, "fab": x.fab_idx, "local_sid": x.local_sess_id, "peer_sid": x.peer_sess_id,
                           "enc_fp": x.enc_key_fp.to_string(), "dec_fp": x.dec_key_fp.to_string(), "cats": x.cat_ids.to_vec()})
                }).collect());
                let newest = mine.iter().max_by_key(|x| x["id"].as_u64().unwrap_or(0)).cloned();
                if let (true, Some(nw)) = (r.is_ok(), newest) {
                    let mut e = nw.clone();
                    e["ev"] = json!("IniSess");
                    e["i"] = json!(i + 1);
                    e["tag"] = json!(tag);
                    ev(e);
                }
                ev(json!({"ev": "IniEnd", "i": i + 1, "tag": tag, "probe": is_probe, "n_sessions": mine.len(), "ok": r.is_ok(), "code": r.err().map(|e| format!("{:?}", e.code())).unwrap_or_default()}));
            }
            #[allow(unreachable_code)]
            ()
        }
    };

    // sessions whose peer never acknowledges: a reliable send runs out of retransmissions, the session is marked expired,
    // the exchange stays alive
    let expirer = async {
        for ex in to_expire.iter_mut() {
            let _ = ex.send(rs_matter::transport::exchange::MessageMeta::new(0x7777, 1, true), &[1]).await;
        }
        core::future::pending::<Result<(), Error>>().await
    };
    let devside = async {
        let stall = sc.stall_ms;
        let r1 = async { if stall > 0 { embassy_time::Timer::after_millis(stall).await; } responder.run::<4>().await };
        let r2 = async { if stall > 0 { embassy_time::Timer::after_millis(stall).await; } busy_responder.run::<1>().await };
        select(select4(dev.run(&crypto, Tx(net.clone(), 0), Rx(net.clone(), 0), NoNetwork), r1, r2, dm.run()).coalesce(), expirer).coalesce().await
    };
    let i1 = async { select(inis[0].run(&crypto, Tx(net.clone(), 1), Rx(net.clone(), 1), NoNetwork), initiator(0)).await };
    let i2 = async { select(inis[1].run(&crypto, Tx(net.clone(), 2), Rx(net.clone(), 2), NoNetwork), initiator(1)).await };
    let i3 = async { select(inis[2].run(&crypto, Tx(net.clone(), 3), Rx(net.clone(), 3), NoNetwork), initiator(2)).await };
    let mut all = pin!(select4(devside, i1, i2, i3));

    let mut dec = TapDecoder::default();
    let mut tapped = 0usize;
    let mut opi = 0usize;
    let mut prev_sessions: Vec<SessionSnap> = Vec::new();
    let mut prev_state = String::new();
    let mut wait_until: Option<u64> = None;
    let mut settle_deadline: Option<u64> = None;
    let dev_node_for = |i: usize| if i == 3 && sc.second_fabric { DEV_NODE + 7 } else { DEV_NODE };
    let mut tagc = 0u32;
    let mut step_tries = 0usize;
    let mut probe: Option<(usize, usize, u64, usize, usize)> = None;
    let mut probe_kind = "pase";
    let mut garbage_ctr = 7000u32;
    let mut held_q: Vec<(u64, sim::Dgram)> = Vec::new();
    let mut out: Vec<Value> = Vec::new();
    let filler_set: Vec<u32> = filler_ids.iter().map(|x| x.0).collect();

    let end = drive(all.as_mut(), &net, &Limits { max_virtual_ms: 4_000_000, max_steps: 400_000, ..Default::default() }, |net| {
        // ---- observe: wire tap (handshake messages, status reports) ----
        {
            let n = net.borrow();
            while tapped < n.tap.len() {
                let d = &n.tap[tapped];
                tapped += 1;
                let t = dec.decode(d);
                if let Some(p) = &t.proto {
                    if !t.encrypted && p.proto_id == 0 {
                        let status = if p.opcode == 0x40 && p.payload.len() >= 8 { Some((u16::from_le_bytes([p.payload[0], p.payload[1]]), u16::from_le_bytes([p.payload[6], p.payload[7]]))) } else { None };
                        out.push(json!({"ev": "Hs", "src": d.src, "dst": d.dst, "opcode": p.opcode, "ctr": t.ctr, "exch": p.exch_id, "bytes": t.bytes_id, "plen": p.payload.len(), "rel": p.reliable,
                                        "general": status.map(|s| s.0), "code": status.map(|s| s.1), "t": t.t_ms, "seq": d.seq}));
                    }
                }
            }
        }
        // ---- observe: the device's tables ----
        {
            let snap = dev.with_state(|st| st.verif_snapshot());
            let cur: Vec<SessionSnap> = snap.sessions.sessions.iter().filter(|s| !filler_set.contains(&s.id)).cloned().collect();
            for s in cur.iter() {
                let before = prev_sessions.iter().find(|p| p.id == s.id);
                let fresh = match before {
                    None => true,
                    Some(p) => p.mode != s.mode || p.reserved != s.reserved,
                };
                if fresh {
                    out.push(json!({"ev": "DevSess", "what": "added", "id": s.id, "mode": mode_name(s.mode), "reserved": s.reserved, "i": s.peer_addr_port as i64 - 5540,
                                    "peer_node": s.peer_nodeid, "fab": s.fab_idx, "local_sid": s.local_sess_id, "peer_sid": s.peer_sess_id, "cats": s.cat_ids.to_vec(),
                                    "enc_fp": s.enc_key_fp.to_string(), "dec_fp": s.dec_key_fp.to_string(), "seq": sim::next_seq(), "t": sim::now_ms()}));
                }
            }
            for p in prev_sessions.iter() {
                if !cur.iter().any(|s| s.id == p.id) {
                    out.push(json!({"ev": "DevSess", "what": "removed", "id": p.id, "mode": mode_name(p.mode), "reserved": p.reserved, "i": p.peer_addr_port as i64 - 5540, "seq": sim::next_seq(), "t": sim::now_ms()}));
                }
            }
            prev_sessions = cur;
            let mut adv = false;
            let _ = dev.mdns_services(|s| {
                if matches!(s, rs_matter::transport::network::MatterLocalService::Commissionable { .. }) {
                    adv = true;
                }
                Ok(())
            });
            let expired = snap.pase.window_open && sim::now_ms() > snap.pase.window_expiry_ms;
            let stt = format!("{}|{}|{}|{}|{}", snap.pase.window_open, snap.pase.pake_failures, adv, snap.pase.session_timeout.is_some(), expired);
            if stt != prev_state {
                prev_state = stt;
                out.push(json!({"ev": "Win", "open": snap.pase.window_open, "failures": snap.pase.pake_failures, "advertised": adv, "marker": snap.pase.session_timeout.is_some(), "expiry": snap.pase.window_expiry_ms,
                                "past_expiry": expired, "failsafe": snap.failsafe.armed, "seq": sim::next_seq(), "t": sim::now_ms()}));
            }
        }
        {
            let mut all: Vec<Value> = events.borrow_mut().drain(..).chain(out.drain(..)).collect();
            all.sort_by_key(|e| e["seq"].as_u64().unwrap_or(0));
            for e in all {
                tr.ev(e);
            }
        }
        // ---- the adversary: held datagrams that are due, then filters on the wire; everything else is delivered in order ----
        if let Some(pos) = held_q.iter().position(|h| h.0 <= sim::now_ms()) {
            let (_, d) = held_q.remove(pos);
            return Step::Inject { src: d.src, dst: d.dst, data: d.data };
        }
        {
            let front = net.borrow().wire.front().cloned();
            if let Some(d) = front {
                let i = if d.src == 0 { d.dst } else { d.src };
                if (1..=3).contains(&i) {
                    let mut f = filters[i - 1].borrow_mut();
                    let t = dec.decode(&d);
                    let is_hs = t.proto.as_ref().map(|p| !t.encrypted && p.proto_id == 0 && (SC_HANDSHAKE_OPCODES.contains(&p.opcode) || p.opcode == 0x40)).unwrap_or(false);
                    if f.active {
                        if let Some(cut) = f.cut {
                            if f.answers_delivered.len() >= cut && !(d.src == 0 && f.answers_delivered.contains(&t.ctr) && false) {
                                return Step::Drop(0);
                            }
                        }
                        if is_hs {
                            let dir = if d.src == 0 { 1 } else { 0 };
                            if !f.msgs[dir].contains(&t.ctr) {
                                f.msgs[dir].push(t.ctr);
                            }
                            let nth = f.msgs[dir].iter().position(|c| *c == t.ctr).unwrap() + 1;
                            if d.src == 0 && !f.answers_delivered.contains(&t.ctr) {
                                f.answers_delivered.push(t.ctr);
                            }
                            if f.locked && d.src != 0 {
                                // park it (once per message; retransmitted copies are dropped)
                                let mut data = d.data.clone();
                                if let Some((true, n)) = f.garble {
                                    if n == nth {
                                        flip(&mut data, t.proto.as_ref().map(|p| p.payload.len()).unwrap_or(0), f.garble_at);
                                    }
                                }
                                if !f.parked_ctrs.contains(&t.ctr) {
                                    f.parked_ctrs.push(t.ctr);
                                    f.parked.push((t.ctr, data));
                                }
                                net.borrow_mut().wire.pop_front();
                                return Step::Poll;
                            }
                            if let Some((to_dev, n, k)) = f.drop_first {
                                if to_dev == (d.src != 0) && n == nth && f.dropped < k {
                                    f.dropped += 1;
                                    return Step::Drop(0);
                                }
                            }
                            if let Some((to_dev, n, ms)) = f.hold {
                                if to_dev == (d.src != 0) && n == nth {
                                    let until = *f.hold_until.get_or_insert(sim::now_ms() + ms);
                                    if sim::now_ms() < until {
                                        net.borrow_mut().wire.pop_front();
                                        held_q.push((until, d));
                                        return Step::Poll;
                                    }
                                }
                            }
                            if d.src != 0 && nth >= 3 && f.bad_proof && !f.proof_reported && f.msgs[1].len() >= 2 {
                                f.proof_reported = true;
                                tr.ev(json!({"ev": "Proof", "i": i, "t": sim::now_ms()}));
                            }
                            if let Some((to_dev, n)) = f.garble {
                                if to_dev == (d.src != 0) && n == nth {
                                    let mut data = d.data.clone();
                                    flip(&mut data, t.proto.as_ref().map(|p| p.payload.len()).unwrap_or(0), f.garble_at);
                                    net.borrow_mut().wire.pop_front();
                                    return Step::Inject { src: d.src, dst: d.dst, data };
                                }
                            }
                        }
                    }
                }
                return Step::Deliver(0);
            }
        }
        // ---- time: a wait / settle in progress and held datagrams share one clock ----
        let next_held = held_q.iter().map(|h| h.0).min();
        if let Some(until) = wait_until {
            if sim::now_ms() < until {
                let target = next_held.map(|h| h.min(until)).unwrap_or(until);
                return match sim::next_timer_ms() {
                    Some(t) if t <= target => Step::NextTimer,
                    _ => Step::AdvanceMs(target.saturating_sub(sim::now_ms()).max(1)),
                };
            }
            wait_until = None;
        }
        if let Some(dl) = settle_deadline {
            if running.iter().any(|r| r.get()) && sim::now_ms() < dl {
                return match (sim::next_timer_ms(), next_held) {
                    (Some(t), Some(h)) if h < t => Step::AdvanceMs(h.saturating_sub(sim::now_ms()).max(1)),
                    (None, Some(h)) => Step::AdvanceMs(h.saturating_sub(sim::now_ms()).max(1)),
                    _ => Step::NextTimer,
                };
            }
            settle_deadline = None;
        }
        // ---- a probe in progress: a legitimate handshake, retried a few times ----
        if let Some((pi, tries_left, gap, used, busy)) = probe.take() {
            if running[pi - 1].get() {
                probe = Some((pi, tries_left, gap, used, busy));
                return match (sim::next_timer_ms(), next_held) {
                    (Some(t), Some(hh)) if hh < t => Step::AdvanceMs(hh.saturating_sub(sim::now_ms()).max(1)),
                    (None, Some(hh)) => Step::AdvanceMs(hh.saturating_sub(sim::now_ms()).max(1)),
                    (None, None) => Step::AdvanceMs(100),
                    _ => Step::NextTimer,
                };
            }
            let ok = used > 0 && last_ok[pi - 1].get();
            if ok || tries_left == 0 {
                tr.ev(json!({"ev": "ProbeEnd", "i": pi, "ok": ok, "tries": used, "last_code": last_code[pi - 1].borrow().clone(), "t": sim::now_ms()}));
            } else {
                tagc += 1;
                let start = json!({"ev": "Start", "i": pi, "tag": tagc, "kind": probe_kind, "pass_ok": true, "cut": -1, "garbled": false, "complete": true, "probe": true});
                let filter = Filter { active: true, ..Default::default() };
                mail[pi - 1].borrow_mut().push_back(if probe_kind == "pase" { Cmd::Pase { pass: PASSCODE, tag: tagc, filter, start } } else { Cmd::Case { peer: DEV_NODE, tag: tagc, filter, start } });
                running[pi - 1].set(true);
                if let Some(w) = mail_wakers[pi - 1].borrow_mut().take() {
                    w.wake();
                }
                probe = Some((pi, tries_left - 1, gap, used + 1, busy));
                if used > 0 {
                    wait_until = Some(sim::now_ms() + gap);
                }
                return Step::Poll;
            }
        }
        // ---- next scripted operation ----
        if opi >= sc.ops.len() {
            return Step::Stop;
        }
        let op = &sc.ops[opi];
        opi += 1;
        match op["op"].as_str().unwrap() {
            "Open" => {
                let r = dev.open_basic_comm_window(op["timeout"].as_u64().unwrap_or(900) as u16, &crypto, &dm);
                tr.ev(json!({"ev": "Open", "timeout": op["timeout"].as_u64().unwrap_or(900), "ok": r.is_ok(), "t": sim::now_ms()}));
                Step::Poll
            }
            "Close" => {
                let r = dev.close_comm_window(&dm);
                tr.ev(json!({"ev": "Close", "ok": matches!(r, Ok(true)), "t": sim::now_ms()}));
                Step::Poll
            }
            "Pase" | "Case" => {
                let i = op["i"].as_u64().unwrap() as usize;
                tagc += 1;
                let pass_ok = op["pass"].as_str().map(|p| p == "ok").unwrap_or(true);
                let garble = op["garble"].as_array().filter(|g| g.len() >= 2).map(|g| (g[0].as_bool().unwrap(), g[1].as_u64().unwrap() as usize));
                // garbling the final status report does not touch the proof: the device has decided by then
                let garbled = garble.map(|(to_dev, n)| to_dev || n <= 2).unwrap_or(false);
                let garble_at = op["garble"].as_array().filter(|g| g.len() >= 3).map(|g| (g[2].as_u64().unwrap() as usize, g.get(3).and_then(|m| m.as_u64()).unwrap_or(0x41) as u8));
                let filter = Filter { cut: op["cut"].as_u64().map(|x| x as usize), garble, garble_at,
                                      hold: op["hold"].as_array().map(|g| (g[0].as_bool().unwrap(), g[1].as_u64().unwrap() as usize, g[2].as_u64().unwrap())), active: true,
                                      drop_first: op["drop_first"].as_array().map(|g| (g[0].as_bool().unwrap(), g[1].as_u64().unwrap() as usize, g[2].as_u64().unwrap_or(1) as usize)),
                                      locked: op["locked"].as_bool().unwrap_or(false), bad_proof: !pass_ok || garbled, ..Default::default() };
                let is_pase = op["op"] == "Pase";
                let start = json!({"ev": "Start", "i": i, "tag": tagc, "kind": if is_pase { "pase" } else { "case" }, "pass_ok": pass_ok, "cut": op["cut"], "garbled": garbled,
                                   "g_dir": garble.map(|g| if g.0 { "ini" } else { "dev" }).unwrap_or("none"), "g_nth": garble.map(|g| g.1).unwrap_or(0),
                                   "peer_ok": op["peer"].as_u64().map(|p| p == dev_node_for(i)).unwrap_or(true), "member": !((i == 2) && (sc.foreign2 || sc.wrong_ipk2 || !sc.validity2.is_empty())),
                                   "fabric": if i == 3 && sc.second_fabric { 2 } else { 1 }, "held": !op["hold"].is_null(),
                                   "complete": op["cut"].is_null() && op["hold"].is_null() && !op["locked"].as_bool().unwrap_or(false)});
                mail[i - 1].borrow_mut().push_back(if is_pase { Cmd::Pase { pass: if pass_ok { PASSCODE } else { 11223344 }, tag: tagc, filter, start } } else { Cmd::Case { peer: op["peer"].as_u64().unwrap_or(dev_node_for(i)), tag: tagc, filter, start } });
                running[i - 1].set(true);
                if let Some(w) = mail_wakers[i - 1].borrow_mut().take() {
                    w.wake();
                }
                Step::Poll
            }
            "Step" => {
                let i = op["i"].as_u64().unwrap() as usize;
                let next = {
                    let mut f = filters[i - 1].borrow_mut();
                    if f.parked.is_empty() { None } else { Some(f.parked.remove(0)) }
                };
                match next {
                    Some((ctr, data)) => {
                        step_tries = 0;
                        tr.ev(json!({"ev": "Step", "i": i, "ctr": ctr, "t": sim::now_ms()}));
                        {
                            let mut f = filters[i - 1].borrow_mut();
                            let nth = f.msgs[0].iter().position(|c| *c == ctr).map(|p| p + 1).unwrap_or(0);
                            if nth >= 3 && f.bad_proof && !f.proof_reported && f.msgs[1].len() >= 2 {
                                f.proof_reported = true;
                                tr.ev(json!({"ev": "Proof", "i": i, "t": sim::now_ms()}));
                            }
                        }
                        Step::Inject { src: i, dst: 0, data }
                    }
                    None => {
                        // the initiator has not produced its next message (yet): give it a few rounds, then skip the step
                        step_tries += 1;
                        if step_tries < 4 && running[i - 1].get() {
                            opi -= 1;
                            Step::AdvanceMs(1)
                        } else {
                            step_tries = 0;
                            tr.ev(json!({"ev": "StepSkipped", "i": i, "t": sim::now_ms()}));
                            Step::Poll
                        }
                    }
                }
            }
            "Wait" => {
                wait_until = Some(sim::now_ms() + op["ms"].as_u64().unwrap());
                Step::Poll
            }
            "Settle" => {
                settle_deadline = Some(sim::now_ms() + op["max_ms"].as_u64().unwrap_or(120_000));
                Step::Poll
            }
            "Cancel" => {
                epoch.set(epoch.get() + 1);
                for w in cancel_wakers.borrow_mut().drain(..) {
                    w.wake();
                }
                tr.ev(json!({"ev": "Cancel", "t": sim::now_ms()}));
                Step::Poll
            }
            "Probe" => {
                let i = op["i"].as_u64().unwrap_or(3) as usize;
                probe_kind = if op["kind"] == "case" { "case" } else { "pase" };
                probe = Some((i, op["tries"].as_u64().unwrap_or(3) as usize, op["gap_ms"].as_u64().unwrap_or(2000), 0, 0));
                // slots a new handshake could use: free ones and idle (evictable) sessions
                let usable = dev.with_state(|st| {
                    let s = st.verif_snapshot();
                    16usize.saturating_sub(s.sessions.sessions.iter().filter(|x| x.reserved || !x.exchanges.is_empty()).count())
                });
                tr.ev(json!({"ev": "ProbeStart", "i": i, "kind": probe_kind, "usable": usable, "t": sim::now_ms()}));
                Step::Poll
            }
            "Garbage" => {
                // an unsecured datagram from initiator i's address: a first handshake message with a rubbish payload,
                // a status report, or rubbish bytes
                // "rel": false leaves the reliability flag out (the device owes no acknowledgement); kind "late_ack": a
                // stand-alone acknowledgement from the sender of the previous garbage message, for that exchange
                let i = op["i"].as_u64().unwrap() as usize;
                let kind = op["kind"].as_str().unwrap_or("pbkdf");
                let late_ack = kind == "late_ack";
                if !late_ack {
                    garbage_ctr += 1;
                }
                let data = if kind == "random" {
                    (0..40u8).map(|k| k.wrapping_mul(37).wrapping_add(garbage_ctr as u8)).collect()
                } else {
                    let mut hdr = rs_matter::transport::packet::PacketHdr::new();
                    hdr.plain.sess_id = 0;
                    hdr.plain.ctr = if late_ack { garbage_ctr + 100_000 } else { garbage_ctr };
                    hdr.plain.set_src_nodeid(Some(0x7000 + garbage_ctr as u64));
                    hdr.proto.exch_id = garbage_ctr as u16;
                    hdr.proto.proto_id = 0;
                    hdr.proto.proto_opcode = match kind { "pbkdf" => 0x20, "sigma1" => 0x30, "pake1" => 0x22, "sigma3" => 0x32, "late_ack" => 0x10, _ => 0x40 };
                    hdr.proto.set_initiator();
                    if late_ack {
                        hdr.proto.set_ack(Some(1));
                    } else if op["rel"].as_bool().unwrap_or(true) {
                        hdr.proto.set_reliable();
                    }
                    let mut buf = vec![0u8; 256];
                    let mut wb = rs_matter::utils::storage::WriteBuf::new(&mut buf);
                    wb.reserve(rs_matter::transport::packet::PacketHdr::HDR_RESERVE).unwrap();
                    if !late_ack {
                        wb.append(&[0x15, 0x30, 0x01, 0x03, 1, 2, 3, 0x25, 0x02, 0x11, 0x22, 0x18, 0xff]).unwrap();
                    }
                    hdr.encode(test_only_crypto(), None, 0, &mut wb).unwrap();
                    wb.as_slice().to_vec()
                };
                tr.ev(json!({"ev": "Garbage", "i": i, "kind": kind, "t": sim::now_ms()}));
                Step::Inject { src: i, dst: 0, data }
            }
            "Mark" => {
                tr.ev(json!({"ev": "Mark", "what": op["what"], "t": sim::now_ms()}));
                Step::Poll
            }
            o => panic!("hs op {o}"),
        }
    });
    // final picture
    let snap = dev.with_state(|st| st.verif_snapshot());
    let left: Vec<Value> = snap.sessions.sessions.iter().filter(|s| !filler_set.contains(&s.id))
        .map(|s| json!({"mode": mode_name(s.mode), "reserved": s.reserved, "expired": s.expired, "i": s.peer_addr_port as i64 - 5540, "exchanges": s.exchanges.len()})).collect();
    let fillers_alive = filler_ids.iter().filter(|(id, _)| snap.sessions.sessions.iter().any(|s| s.id == *id)).count();
    let busy_fillers_alive = filler_ids.iter().filter(|(id, b)| *b && snap.sessions.sessions.iter().any(|s| s.id == *id)).count();
    let expired_fillers = filler_ids.iter().filter(|(id, _)| snap.sessions.sessions.iter().any(|s| s.id == *id && s.expired)).count();
    for e in events.borrow_mut().drain(..) {
        tr.ev(e);
    }
    tr.ev(json!({"ev": "End", "how": format!("{:?}", end), "left": left, "n_plain": left_count(&left, "plain"), "n_pase": left_count(&left, "pase"), "n_case": left_count(&left, "case"),
                 "n_reserved": left.iter().filter(|l| l["reserved"] == true).count(), "n_exch": left.iter().map(|l| l["exchanges"].as_u64().unwrap()).sum::<u64>(),
                 "marker": snap.pase.session_timeout.map(|(exp, _)| exp > sim::now_ms()).unwrap_or(false),
                 "left_idle": left.iter().all(|l| l["reserved"] == false && l["exchanges"] == 0), "fillers_alive": fillers_alive, "busy_fillers": sc.fill_busy, "busy_fillers_alive": busy_fillers_alive, "expired_fillers": expired_fillers,
                 "cancelled": n_cancelled.get(), "window_open": snap.pase.window_open, "t": sim::now_ms()}));
    drop(held);
    end
}

/// Flip a byte of the protocol payload of an unsecured datagram (`payload_len` bytes at its end).
fn flip(data: &mut [u8], payload_len: usize, at: Option<(usize, u8)>) {
    let k = data.len();
    match at {
        Some((pos, mask)) if payload_len > 0 => {
            let p = k - payload_len + pos.min(payload_len - 1);
            data[p] ^= mask;
        }
        _ => data[k - 3] ^= 0x41,
    }
}

fn left_count(left: &[Value], mode: &str) -> usize {
    left.iter().filter(|l| l["mode"] == mode).count()
}
