//! C13, full stack: a device (real InteractionModel with its reporter task, default responder) whose attributes carry a
//! version number, and a controller that establishes real subscriptions through `ImClient` and receives the reports
//! through rs-matter's own controller-side `ReportDataHandler`.  A schedule is a list of operations:
//!   Sub {s, paths, min, max, keep, change_mid}   subscribe; `change_mid` = [cluster, attr]: that attribute changes
//!                                                 while the priming report is being read (after its first chunk)
//!   Change {cl, a}                                the attribute changes (the handler notifies the data model)
//!   Emit {n, size}                                n events of `size` bytes occur in cluster 101 (Sub {.., "events": true}
//!                                                 subscribes to the events of that cluster, too)
//!   Wait {ms}, Lose {n}                           time passes; the next n datagrams of the device are lost
//!   Quiet                                         longer than every max interval passes undisturbed
//! Recorded: SubReq / Item / Est (establishment), Rep + Item (reports as the controller's handler sees them), Change,
//! Quiet (with the current version of every attribute), End.

use core::cell::{Cell, RefCell};
use core::num::NonZeroU8;
use core::pin::pin;
use std::collections::HashMap;

use embassy_futures::select::{select, select4};
use serde_json::{json, Value};

use rs_matter::acl::{AclEntry, AuthMode};
use rs_matter::crypto::test_only_crypto;
use rs_matter::dm::clusters::net_comm::DummyNetworks;
use rs_matter::dm::devices::test::{TEST_DEV_ATT, TEST_DEV_COMM, TEST_DEV_DET};
use rs_matter::dm::*;
use rs_matter::error::{Error, ErrorCode};
use rs_matter::im::client::{ImClient, SubscribeOutcome};
use rs_matter::im::{AttrPath, AttrResp, GenericPath, IMStatusCode, InteractionModel, InteractionModelState, ReportDataResp};
use rs_matter::persist::DummyKvBlobStore;
use rs_matter::respond::Responder;
use rs_matter::tlv::{OctetStr, TLVTag, TLVWrite};
use rs_matter::transport::exchange::{Exchange, MatterBuffers};
use rs_matter::transport::network::NoNetwork;
use rs_matter::utils::select::Coalesce;
use rs_matter::Matter;

use crate::c03::plant;
use crate::sim::{self, Rx, Tx};
use crate::util::{arg, catch, read_ndjson, Trace};
use crate::world::{drive, Limits, Step};

const CLUSTERS: [u32; 2] = [101, 102];
const ATTRS: [u32; 4] = [0, 1, 2, 3];
/// attribute 3 of every cluster is a list of LIST_N octet strings of LIST_EL bytes (version, index, padding): a report of
/// it alone spans several messages
const LIST_ATTR: u32 = 3;
const LIST_N: usize = 9;
const LIST_EL: usize = 330;
/// padding that makes a priming report of all six attributes span several messages
const PAD: usize = 420;

struct Ver {
    ver: RefCell<HashMap<(u32, u32), u32>>,
    reads: Cell<usize>,
}
impl Handler for Ver {
    fn read(&self, ctx: impl ReadContext, reply: impl ReadReply) -> Result<(), Error> {
        let attr = ctx.attr();
        self.reads.set(self.reads.get() + 1);
        let v = *self.ver.borrow().get(&(attr.cluster_id, attr.attr_id)).ok_or(ErrorCode::AttributeNotFound)?;
        let Some(mut writer) = reply.with_dataver(1)? else { return Ok(()) };
        if attr.attr_id == LIST_ATTR {
            let el = |i: usize| {
                let mut e = v.to_le_bytes().to_vec();
                e.push(i as u8);
                e.resize(LIST_EL, 0xa5);
                e
            };
            let tag = writer.tag().clone();
            return match attr.list_index.clone().map(|n| n.into_option()) {
                None => {
                    {
                        let mut w = writer.writer();
                        w.start_array(&tag)?;
                        for i in 0..LIST_N {
                            w.str(&TLVTag::Anonymous, &el(i))?;
                        }
                        w.end_container()?;
                    }
                    writer.complete()
                }
                Some(None) => {
                    {
                        let mut w = writer.writer();
                        w.start_array(&tag)?;
                        w.end_container()?;
                    }
                    writer.complete()
                }
                Some(Some(i)) => {
                    if i as usize >= LIST_N {
                        return Err(ErrorCode::ConstraintError.into());
                    }
                    writer.set(OctetStr::new(&el(i as usize)))
                }
            };
        }
        let mut val = v.to_le_bytes().to_vec();
        val.resize(4 + PAD, 0x5a);
        writer.set(OctetStr::new(&val))
    }
    fn write(&self, _ctx: impl WriteContext) -> Result<(), Error> {
        Ok(())
    }
    fn invoke(&self, _ctx: impl InvokeContext, _reply: impl InvokeReply) -> Result<(), Error> {
        Ok(())
    }
    fn bump_dataver(&self, _ctx: impl MatchContext) {}
}
impl NonBlockingHandler for Ver {}

struct Nothing;
impl Handler for Nothing {
    fn read(&self, _ctx: impl ReadContext, _reply: impl ReadReply) -> Result<(), Error> {
        Err(ErrorCode::AttributeNotFound.into())
    }
    fn write(&self, _ctx: impl WriteContext) -> Result<(), Error> {
        Ok(())
    }
    fn invoke(&self, _ctx: impl InvokeContext, _reply: impl InvokeReply) -> Result<(), Error> {
        Ok(())
    }
    fn bump_dataver(&self, _ctx: impl MatchContext) {}
}
impl NonBlockingHandler for Nothing {}

/// list values arrive element by element, possibly over several messages: (cluster, attribute) -> versions of the elements so far
type ListAgg = RefCell<HashMap<(u32, u32), Vec<i64>>>;

fn items_of(report: &ReportDataResp<'_>, agg: &ListAgg) -> (Vec<Value>, String) {
    let mut out = Vec::new();
    let mut bad = String::new();
    let el_ver = |s: &[u8]| if s.len() == LIST_EL { u32::from_le_bytes([s[0], s[1], s[2], s[3]]) as i64 } else { -1 };
    if let Some(evs) = &report.event_reports {
        for e in evs.iter() {
            match e {
                Ok(rs_matter::im::EventResp::Data(d)) => out.push(json!({"evno": d.event_number, "len": d.data.str().map(|s| s.len() as i64).unwrap_or(-1)})),
                Ok(rs_matter::im::EventResp::Status(st)) => out.push(json!({"evno": -1, "len": -1, "status": format!("{:?}", st.status.status)})),
                Err(e) => { bad = format!("events: {:?}", e.code()); break; }
            }
        }
    }
    if let Some(reports) = &report.attr_reports {
        for a in reports.iter() {
            match a {
                Ok(AttrResp::Data(d)) if d.path.attr == Some(LIST_ATTR) => {
                    let key = (d.path.cluster.unwrap_or(0), LIST_ATTR);
                    match d.path.list_index.clone().map(|x| x.into_option()) {
                        None => {
                            // the list starts (empty, or whole if it fits one message)
                            let mut v = Vec::new();
                            if let Ok(arr) = d.data.array() {
                                for e in arr.iter() {
                                    v.push(e.ok().and_then(|e| e.str().ok()).map(|s| el_ver(s)).unwrap_or(-1));
                                }
                            }
                            agg.borrow_mut().insert(key, v);
                        }
                        Some(None) => agg.borrow_mut().entry(key).or_default().push(d.data.str().map(|s| el_ver(s)).unwrap_or(-1)),
                        Some(Some(_)) => agg.borrow_mut().entry(key).or_default().push(-1),
                    }
                }
                Ok(AttrResp::Data(d)) => {
                    let v = d.data.str().ok().filter(|s| s.len() >= 4).map(|s| u32::from_le_bytes([s[0], s[1], s[2], s[3]]) as i64).unwrap_or(-1);
                    out.push(json!({"cl": d.path.cluster, "a": d.path.attr, "v": v}));
                }
                Ok(AttrResp::Status(st)) => out.push(json!({"cl": st.path.cluster, "a": st.path.attr, "v": -2, "status": format!("{:?}", st.status.status)})),
                Err(e) => { bad = format!("{:?}", e.code()); break; }
            }
        }
    }
    if !report.more_chunks.unwrap_or(false) {
        // the report is complete: a list value counts if all its elements came, in one version at least (the oldest one)
        for ((cl, a), v) in agg.borrow_mut().drain() {
            let ver = if v.len() == LIST_N && v.iter().all(|x| *x >= 0) { *v.iter().min().unwrap() } else { -3 };
            out.push(json!({"cl": cl, "a": a, "v": ver, "elements": v.len()}));
        }
    }
    (out, bad)
}

struct Reports<'a> {
    events: &'a RefCell<Vec<Value>>,
    agg: ListAgg,
}
impl ReportDataHandler for Reports<'_> {
    async fn handle_report(&self, _ctx: impl ReportContext, report: &ReportDataResp<'_>) -> Result<(), IMStatusCode> {
        let (items, bad) = items_of(report, &self.agg);
        self.events.borrow_mut().push(json!({"ev": "Rep", "id": report.subscription_id, "n": items.len(), "more": report.more_chunks.unwrap_or(false), "malformed": bad, "t": sim::now_ms()}));
        for it in items {
            let mut e = it.clone();
            e["ev"] = json!(if it.get("evno").is_some() { "Event" } else { "Item" });
            e["id"] = json!(report.subscription_id);
            e["t"] = json!(sim::now_ms());
            self.events.borrow_mut().push(e);
        }
        Ok(())
    }
}

fn run_one(ops: &[Value]) -> Vec<Value> {
    sim::clock_reset();
    let net = sim::new_net();
    let dev = Matter::new(&TEST_DEV_DET, TEST_DEV_COMM, &TEST_DEV_ATT, 5540);
    let ctl = Matter::new(&TEST_DEV_DET, TEST_DEV_COMM, &TEST_DEV_ATT, 5540);
    let sid = plant(&ctl, 1, true, false);
    plant(&dev, 1, false, false);
    dev.with_state(|s| {
        let f = s.fabrics.fabric_mut(NonZeroU8::new(1).unwrap()).unwrap();
        f.acl_add(AclEntry::new(None, Privilege::ADMIN, AuthMode::Case)).unwrap();
    });
    let crypto = test_only_crypto();
    let buffers: MatterBuffers = MatterBuffers::new();
    let state: InteractionModelState<DummyNetworks, 4, 16384> = InteractionModelState::new(DummyNetworks);
    state.suppress_start_up_event();
    let ver = Ver { ver: RefCell::new(HashMap::new()), reads: Cell::new(0) };
    for c in CLUSTERS {
        for a in ATTRS {
            ver.ver.borrow_mut().insert((c, a), 0);
        }
    }
    let spec = crate::imw::NodeSpec {
        endpoints: vec![(1, CLUSTERS.iter().map(|c| crate::imw::ClusterSpec { id: *c, attrs: ATTRS.iter().map(|a| crate::imw::AttrSpec { id: *a, access: Access::RV, size: 0, list: if *a == LIST_ATTR { Some(vec![LIST_EL; LIST_N]) } else { None } }).collect(), cmds: vec![] }).collect())],
        events: vec![(1, 101, 0, 0)],
    };
    let node = crate::imw::build_node(&spec);
    let kv = dev.kv(DummyKvBlobStore);
    let dm = InteractionModel::new(&dev, &crypto, &buffers, (node, Async(&ver)), &kv, &state);
    let responder = Responder::new_default(&dm);

    let events: RefCell<Vec<Value>> = RefCell::new(Vec::new());
    let buffers_c: MatterBuffers = MatterBuffers::new();
    let state_c: InteractionModelState<DummyNetworks, 3, 256> = InteractionModelState::new(DummyNetworks);
    state_c.suppress_start_up_event();
    let nothing = Nothing;
    let node_c = crate::imw::build_node(&crate::imw::NodeSpec { endpoints: vec![], events: vec![] });
    let kv_c = ctl.kv(DummyKvBlobStore);
    let reports = Reports { events: &events, agg: RefCell::new(HashMap::new()) };
    let dm_c = InteractionModel::new_with_reports(&ctl, &crypto, &buffers_c, (node_c, Async(&nothing)), &kv_c,
        rs_matter::dm::networks::wireless::NoopWirelessNetCtl::new(rs_matter::dm::clusters::net_comm::NetworkType::Ethernet), &reports, &state_c);
    let responder_c = Responder::new_default(&dm_c);

    let done = Cell::new(false);
    let lose = Cell::new(0usize);
    let lost = Cell::new(0usize);
    let max_max = Cell::new(5u64);
    let ev = |e: Value| events.borrow_mut().push(e);
    let change = |cl: u32, a: u32| {
        let v = {
            let mut m = ver.ver.borrow_mut();
            let x = m.get_mut(&(cl, a)).unwrap();
            *x += 1;
            *x
        };
        ev(json!({"ev": "Change", "cl": cl, "a": a, "v": v, "t": sim::now_ms()}));
        dm.notify_attr_changed(1, cl, a);
    };

    let story = async {
        let r: Result<(), Error> = async {
            for op in ops {
                match op["op"].as_str().unwrap() {
                    "Sub" => {
                        let s = op["s"].as_u64().unwrap();
                        let paths: Vec<AttrPath> = op["paths"].as_array().unwrap().iter().map(|p| {
                            AttrPath::from_gp(&GenericPath::new(Some(1), p[0].as_u64().map(|x| x as u32), p[1].as_u64().map(|x| x as u32)))
                        }).collect();
                        let (min, max) = (op["min"].as_u64().unwrap_or(0) as u16, op["max"].as_u64().unwrap_or(5) as u16);
                        let keep = op["keep"].as_bool().unwrap_or(true);
                        max_max.set(max_max.get().max(max as u64));
                        ev(json!({"ev": "SubReq", "s": s, "paths": op["paths"], "min": min, "max": max, "keep": keep, "events": op["events"] == true, "t": sim::now_ms()}));
                        let r: Result<(), Error> = async {
                            let exchange = Exchange::initiate_for_session(&ctl, &crypto, sid)?;
                            let with_events = op["events"] == true;
                            let evp = [rs_matter::im::EventPath::from_gp(&GenericPath::new(Some(1), Some(101), None))];
                            let mut chunk = exchange.subscribe_with(|b| {
                                let b = b.keep_subs(keep)?.min_int_floor(min)?.max_int_ceil(max)?.attr_requests_from(&paths)?;
                                if with_events { b.event_requests_from(&evp)?.fabric_filtered(false)?.end() } else { b.fabric_filtered(false)?.end() }
                            }).await?;
                            let mut first = true;
                            let agg: ListAgg = RefCell::new(HashMap::new());
                            loop {
                                {
                                    let resp = chunk.response()?;
                                    let (items, bad) = items_of(&resp, &agg);
                                    ev(json!({"ev": "Prime", "s": s, "n": items.len(), "more": resp.more_chunks.unwrap_or(false), "malformed": bad, "t": sim::now_ms()}));
                                    for it in items {
                                        let mut e = it.clone();
                                        e["ev"] = json!(if it.get("evno").is_some() { "PEvent" } else { "PItem" });
                                        e["s"] = json!(s);
                                        e["t"] = json!(sim::now_ms());
                                        ev(e);
                                    }
                                }
                                if first {
                                    first = false;
                                    if let Some(cm) = op["change_mid"].as_array() {
                                        change(cm[0].as_u64().unwrap() as u32, cm[1].as_u64().unwrap() as u32);
                                    }
                                }
                                match chunk.complete().await? {
                                    SubscribeOutcome::NextChunk(c) => chunk = c,
                                    SubscribeOutcome::Established(e) => {
                                        max_max.set(max_max.get().max(e.max_int as u64));
                                        ev(json!({"ev": "Est", "s": s, "id": e.subscription_id, "max": e.max_int, "t": sim::now_ms()}));
                                        break;
                                    }
                                }
                            }
                            Ok(())
                        }
                        .await;
                        if let Err(e) = r {
                            ev(json!({"ev": "SubFailed", "s": s, "code": format!("{:?}", e.code()), "t": sim::now_ms()}));
                        }
                    }
                    "Change" => change(op["cl"].as_u64().unwrap() as u32, op["a"].as_u64().unwrap() as u32),
                    "Emit" => {
                        let size = op["size"].as_u64().unwrap_or(100) as usize;
                        for _ in 0..op["n"].as_u64().unwrap_or(1) {
                            let payload = vec![0x33u8; size];
                            let no = state.events().push(1, 101, 0, rs_matter::im::EventPriority::Info, &kv, |mut w| {
                                use rs_matter::tlv::TLVWrite;
                                w.str(&rs_matter::im::events::EVENT_DATA_TAG, &payload)
                            })?;
                            ev(json!({"ev": "Emit", "no": no, "len": size, "t": sim::now_ms()}));
                        }
                        state.subscriptions().notify_event_emitted(1, 101, 0);
                    }
                    "Wait" => embassy_time::Timer::after_millis(op["ms"].as_u64().unwrap()).await,
                    "Lose" => {
                        lose.set(lose.get() + op["n"].as_u64().unwrap() as usize);
                        ev(json!({"ev": "Lose", "n": op["n"], "t": sim::now_ms()}));
                    }
                    "Quiet" => {
                        lose.set(0);
                        // longer than the longest max interval any publisher granted
                        embassy_time::Timer::after_millis((max_max.get() + 5) * 1000).await;
                        let vers: Vec<Value> = ver.ver.borrow().iter().map(|((c, a), v)| json!({"cl": c, "a": a, "v": v})).collect();
                        let dev_subs: Vec<u32> = state.subscriptions().verif_snapshot().0.iter().map(|x| x.0).collect();
                        ev(json!({"ev": "Quiet", "ver": vers, "dev_subs": dev_subs, "t": sim::now_ms()}));
                    }
                    x => panic!("c13e op {x}"),
                }
            }
            Ok(())
        }
        .await;
        if let Err(e) = r {
            ev(json!({"ev": "StoryError", "code": format!("{:?}", e.code())}));
        }
        done.set(true);
        core::future::pending::<()>().await
    };
    let devside = async { select(responder.run::<3>(), dm.run()).coalesce().await };
    let ctlside = async { select(responder_c.run::<3>(), dm_c.run()).coalesce().await };
    let stacks = async { select(dev.run(&crypto, Tx(net.clone(), 1), Rx(net.clone(), 1), NoNetwork), ctl.run(&crypto, Tx(net.clone(), 0), Rx(net.clone(), 0), NoNetwork)).coalesce().await };
    let mut all = pin!(select4(stacks, devside, ctlside, story));
    let end = drive(all.as_mut(), &net, &Limits { max_virtual_ms: 3_000_000, max_steps: 2_000_000, ..Default::default() }, |net| {
        if done.get() {
            return Step::Stop;
        }
        let head = net.borrow().wire.front().map(|d| d.src);
        if let Some(src) = head {
            if src == 1 && lose.get() > 0 {
                lose.set(lose.get() - 1);
                lost.set(lost.get() + 1);
                return Step::Drop(0);
            }
            return Step::Deliver(0);
        }
        Step::NextTimer
    });
    let mut out: Vec<Value> = events.borrow_mut().drain(..).collect();
    out.push(json!({"ev": "End", "how": format!("{:?}", end), "done": done.get(), "lost": lost.get(), "handler_reads": ver.reads.get()}));
    out
}

pub fn run(args: &[String]) -> i32 {
    let behaviours = read_ndjson(&arg(args, "--behaviours").expect("--behaviours"));
    let mut tr = Trace::create(&arg(args, "--out").expect("--out"));
    for (bi, b) in behaviours.iter().enumerate() {
        tr.ev(json!({"ev": "Reset", "run": bi}));
        let ops = b.as_array().unwrap().clone();
        let r = catch(|| run_one(&ops));
        match r {
            Ok(evs) => for e in evs { tr.ev(e); },
            Err(m) => tr.ev(json!({"ev": "End", "how": format!("PANIC {m}"), "done": false, "lost": 0, "handler_reads": 0})),
        }
    }
    tr.finish();
    println!("{}", json!({"behaviours": behaviours.len()}));
    0
}
