//! C07 / C08 / C11 - the administrative life cycle of a node, full stack.  One restartable device (root endpoint with
//! the real system clusters, InteractionModel, default responder, recording key-value store) and two administrators
//! (real `Matter` stacks with their own root CAs, rs-matter's own `Commissioner` and typed cluster clients) on the
//! simulated network.  A behaviour is a list of operations executed one after the other; after every operation the
//! device's abstract state (fabrics, sessions, resumption records, fail-safe, store) is recorded.

use core::cell::{Cell, RefCell};
use core::num::NonZeroU8;
use core::pin::pin;
use std::collections::HashMap;

use embassy_futures::select::{select, select3, select4, Either};
use embassy_sync::blocking_mutex::raw::NoopRawMutex;
use embassy_sync::signal::Signal;
use serde_json::{json, Value};

use rs_matter::cert::gen::VALID_FOREVER;
use rs_matter::cert::{MAX_CERT_TLV_AND_ASN1_LEN, MAX_CERT_TLV_LEN};
use rs_matter::crypto::{test_only_crypto, CanonAeadKey, CanonPkcSecretKey, Crypto, RngCore, SecretKey, SigningSecretKey};
use rs_matter::dm::clusters::gen_comm::GeneralCommissioningClient;
use rs_matter::dm::clusters::net_comm::DummyNetworks;
use rs_matter::dm::clusters::noc::OperationalCredentialsClient;
use rs_matter::dm::devices::test::{TEST_DEV_ATT, TEST_DEV_COMM, TEST_DEV_DET};
use rs_matter::dm::endpoints::EthSysHandlerBuilder;
use rs_matter::dm::Node;
use rs_matter::error::Error;
use rs_matter::im::client::{ImClient, TxOutcome};
use rs_matter::im::{AttrPath, GenericPath, InteractionModel, InteractionModelState};
use rs_matter::onboard::cac::RcacGenerator;
use rs_matter::onboard::noc::NocGenerator;
use rs_matter::onboard::{CommissionOptions, Commissioner};
use rs_matter::respond::Responder;
use rs_matter::tlv::{FromTLV, OctetStr, TLVElement};
use rs_matter::transport::exchange::{Exchange, MatterBuffers};
use rs_matter::transport::network::mdns::{DottedName, MdnsRemoteService};
use rs_matter::transport::network::{IpAddr, MatterRemoteService, NoNetwork};
use rs_matter::utils::select::Coalesce;
use rs_matter::{root_endpoint, Matter};

use crate::sim::{self, KvOp, KvRef, RecKv, Rx, Tx};
use crate::util::{arg, read_ndjson, Trace};
use crate::world::{drive, Limits, Step};

const NODE: Node<'static> = Node { endpoints: &[root_endpoint!(eth)] };
const DEV_NODE_ID: u64 = 0x2222;
const CTRL_NODE_ID: u64 = 112233;

async fn mdns_stub(matter: &Matter<'_>) -> ! {
    loop {
        let service = matter.transport().wait_mdns_resolve_request().await;
        let mut name = heapless::String::<128>::new();
        service.instance_name(&mut name);
        if let MatterRemoteService::Operational { .. } = &service {
            matter.transport().try_deposit_mdns_resolve(
                &MdnsRemoteService { instance_name: DottedName(name.as_str()), port: Some(5540), addrs: core::iter::once(IpAddr::V6(*sim::sock(0).ip())), txt: core::iter::empty::<(&str, &str)>(), scope_id: 0 },
                &[],
            );
        }
    }
}

fn fnv(b: &[u8]) -> u64 {
    rs_matter::verif::fp(b)
}

/// Read BasicInformation::VendorName over the administrator's operational session (an existing one is reused, else CASE
/// is established - with a resumption record if there is one).
async fn read_vendor<C: Crypto>(m: &Matter<'_>, crypto: &C, fab: NonZeroU8) -> Result<bool, Error> {
    let exchange = Exchange::initiate(m, crypto, fab, DEV_NODE_ID).await?;
    let mut sender = exchange.read_sender().await?;
    let paths = [AttrPath::from_gp(&GenericPath::new(Some(0), Some(0x28), Some(1)))];
    let mut chunk = loop {
        match sender.tx().await? {
            TxOutcome::BuildRequest(b) => sender = b.attr_requests_from(&paths)?.fabric_filtered(false)?.end()?,
            TxOutcome::GotResponse(c) => break c,
        }
    };
    let mut out = String::new();
    loop {
        {
            let resp = chunk.response()?;
            if let Some(reports) = &resp.attr_reports {
                for r in reports.iter() {
                    out += &format!("{:?}", r.map_err(|e| e.code()));
                }
            }
        }
        match chunk.complete().await? {
            Some(n) => chunk = n,
            None => break,
        }
    }
    Ok(out.contains("ACME"))
}

/// The device's abstract state, as plain JSON.
fn device_state(dev: &Matter<'_>, kv: &KvRef, roots: &[u64; 2], inc: &RefCell<Incarnations>) -> Value {
    let snap = dev.with_state(|s| s.verif_snapshot());
    let fabrics: Vec<Value> = dev.with_state(|s| {
        s.fabrics.iter().map(|f| {
            let root_fp = fnv(f.root_ca());
            let own = roots.iter().position(|r| *r == root_fp).map(|p| p + 1).unwrap_or(0);
            json!({"idx": f.fab_idx().get(), "own": own, "node": f.node_id(), "label": f.label(), "acl": f.acl_iter().count(), "root": root_fp.to_string(), "noc": fnv(f.noc()).to_string()})
        }).collect()
    });
    // incarnations: bumped whenever the fabric at an index appears or changes its root
    let mut incs = inc.borrow_mut();
    let mut present: HashMap<u8, String> = HashMap::new();
    for f in fabrics.iter() {
        present.insert(f["idx"].as_u64().unwrap() as u8, f["root"].as_str().unwrap().to_string());
    }
    for idx in 1..=8u8 {
        let cur = present.get(&idx).cloned();
        if incs.last.get(&idx) != cur.as_ref() {
            if cur.is_some() {
                incs.counter += 1;
                let cnt = incs.counter;
                incs.now.insert(idx, cnt);
            } else {
                incs.now.remove(&idx);
            }
            match cur {
                Some(c) => { incs.last.insert(idx, c); }
                None => { incs.last.remove(&idx); }
            }
        }
    }
    let fabrics: Vec<Value> = fabrics.into_iter().map(|mut f| { let i = f["idx"].as_u64().unwrap() as u8; f["inc"] = json!(incs.now.get(&i).copied().unwrap_or(0)); f }).collect();
    let mut sessions = Vec::new();
    let mut live_ids = Vec::new();
    for s in snap.sessions.sessions.iter().filter(|s| s.mode == 1 || s.mode == 2) {
        live_ids.push(s.id);
        let cur_inc = incs.now.get(&s.fab_idx).copied().unwrap_or(0);
        let first_inc = *incs.sess.entry(s.id).or_insert(cur_inc);
        // a PASE session is upgraded to the new fabric by AddNOC: its incarnation is the one at the upgrade
        let first_inc = if s.mode == 1 && first_inc == 0 && s.fab_idx != 0 { let v = incs.now.get(&s.fab_idx).copied().unwrap_or(0); incs.sess.insert(s.id, v); v } else { first_inc };
        sessions.push(json!({"id": s.id, "mode": if s.mode == 1 { "pase" } else { "case" }, "fab": s.fab_idx, "c": s.peer_addr_port as i64 - 5540, "expired": s.expired, "inc": first_inc, "exch": s.exchanges.len()}));
    }
    incs.sess.retain(|id, _| live_ids.contains(id));
    let mut resum = Vec::new();
    let mut keys = Vec::new();
    for r in snap.resumption.iter() {
        let k = (r.fab_idx, r.peer_nodeid, r.resumption_id_fp);
        keys.push(k);
        let cur_inc = incs.now.get(&r.fab_idx).copied().unwrap_or(0);
        let first_inc = *incs.resum.entry(k).or_insert(cur_inc);
        resum.push(json!({"fab": r.fab_idx, "peer": r.peer_nodeid, "inc": first_inc}));
    }
    incs.resum.retain(|k, _| keys.contains(k));
    let store = kv.borrow();
    let kvd: Vec<Value> = store.blobs.iter().map(|(k, v)| json!([k, v.len(), fnv(v).to_string()])).collect();
    json!({"ev": "State", "t": sim::now_ms(), "fabrics": fabrics, "sessions": sessions, "resum": resum,
           "fs": {"armed": snap.failsafe.armed, "fab": snap.failsafe.fab_idx, "flags": snap.failsafe.flags, "root_len": snap.failsafe.root_ca_len, "breadcrumb": snap.failsafe.breadcrumb},
           "window": snap.pase.window_open, "kv": kvd, "kv_ops": store.log.len()})
}

#[derive(Default)]
struct Incarnations {
    counter: u32,
    last: HashMap<u8, String>,
    now: HashMap<u8, u32>,
    sess: HashMap<u32, u32>,
    resum: HashMap<(u8, u64, u64), u32>,
}

fn one_story(ops: &[Value], tr: &mut Trace) -> String {
    sim::clock_reset();
    let net = sim::new_net();
    let crypto = test_only_crypto();
    let ctl = [Matter::new(&TEST_DEV_DET, TEST_DEV_COMM, &TEST_DEV_ATT, 5540), Matter::new(&TEST_DEV_DET, TEST_DEV_COMM, &TEST_DEV_ATT, 5540)];
    let kvs: KvRef = sim::new_kv();
    let events: RefCell<Vec<Value>> = RefCell::new(Vec::new());
    let ev = |v: Value| events.borrow_mut().push(v);
    let restart: Signal<NoopRawMutex, ()> = Signal::new();
    let booted: Signal<NoopRawMutex, bool> = Signal::new();
    let dev_ptr: Cell<*const Matter<'static>> = Cell::new(core::ptr::null());
    let dev_alive = Cell::new(true);
    let im_dead = Cell::new(false);
    let done = Cell::new(false);
    let inc = RefCell::new(Incarnations::default());

    let devside = async {
        loop {
            let dev = Matter::new(&TEST_DEV_DET, TEST_DEV_COMM, &TEST_DEV_ATT, 5540);
            let kv = dev.kv(RecKv(kvs.clone()));
            let started = dev.startup(&kv);
            let buffers: MatterBuffers = MatterBuffers::new();
            let state: InteractionModelState<DummyNetworks, 3, 1024> = InteractionModelState::new(DummyNetworks);
            state.suppress_start_up_event();
            let handler = EthSysHandlerBuilder::new().build(crypto.rand().unwrap());
            let dm = InteractionModel::new(&dev, &crypto, &buffers, (NODE, handler), &kv, &state);
            let dm_started = dm.startup().await;
            let responder = Responder::new_default(&dm);
            dev_ptr.set(&dev as *const Matter<'_> as *const Matter<'static>);
            im_dead.set(false);
            booted.signal(started.is_ok() && dm_started.is_ok());
            let im = async {
                let r = dm.run().await;
                // the interaction model's background task ended: the node no longer serves it
                im_dead.set(true);
                let _ = r;
                core::future::pending::<Result<(), Error>>().await
            };
            // the lazy writer of the resumption cache ends with the store's error (as documented); an application restarts it
            let persist = async {
                loop {
                    let _ = dev.run_persist_resumption(&kv, embassy_time::Duration::from_secs(1)).await;
                    embassy_time::Timer::after_millis(1000).await;
                }
                #[allow(unreachable_code)]
                Ok::<(), Error>(())
            };
            let run = select4(dev.run(&crypto, Tx(net.clone(), 0), Rx(net.clone(), 0), NoNetwork), responder.run::<4>(), im, persist);
            match select(run, restart.wait()).await {
                Either::First(_) => {
                    dev_alive.set(false);
                    dev_ptr.set(core::ptr::null());
                    core::future::pending::<()>().await;
                }
                Either::Second(_) => {
                    dev_ptr.set(core::ptr::null());
                }
            }
        }
    };

    let story = async {
        let r: Result<(), Error> = async {
            booted.wait().await;
            // the administrators use the same conventional node id, or different ones
            let diff_ids = ops.first().map(|o| o["op"] == "Config" && o["ids"] == "diff").unwrap_or(false);
            let ctrl_id = |c: usize| if diff_ids { CTRL_NODE_ID + 17 * c as u64 } else { CTRL_NODE_ID };
            // the two administrators: root CA, own NOC, fabric
            let mut rb0 = [0u8; MAX_CERT_TLV_AND_ASN1_LEN];
            let mut rb1 = [0u8; MAX_CERT_TLV_AND_ASN1_LEN];
            let mut g0 = RcacGenerator::new(&mut rb0);
            let (priv0, rcac0) = g0.generate(&crypto, 1, VALID_FOREVER)?;
            let mut g1 = RcacGenerator::new(&mut rb1);
            let (priv1, rcac1) = g1.generate(&crypto, 2, VALID_FOREVER)?;
            let roots = [fnv(rcac0), fnv(rcac1)];
            // a NOC generator is borrowed for good by a Commissioner: make one whenever one is needed
            macro_rules! with_gen {
                ($ci:expr, $ng:ident, $body:expr) => {{
                    let mut nb = [0u8; MAX_CERT_TLV_AND_ASN1_LEN];
                    let mut $ng = if $ci == 0 { NocGenerator::create(priv0.reference(), rcac0, &[], &mut nb)? } else { NocGenerator::create(priv1.reference(), rcac1, &[], &mut nb)? };
                    $body
                }};
            }
            let mut fabs = [NonZeroU8::new(1).unwrap(); 2];
            let mut ipks = [[0u8; 16]; 2];
            for c in 0..2 {
                let key = crypto.generate_secret_key()?;
                let mut csr_buf = [0u8; 256];
                let csr = key.csr(&mut csr_buf)?;
                let mut canon = CanonPkcSecretKey::new();
                key.write_canon(&mut canon)?;
                let rcac = if c == 0 { rcac0 } else { rcac1 };
                let noc = with_gen!(c, ng, ng.generate(&crypto, csr, ctrl_id(c), &[], VALID_FOREVER)?.to_vec());
                let mut ipk = CanonAeadKey::new();
                crypto.rand()?.fill_bytes(ipk.access_mut());
                ipks[c].copy_from_slice(ipk.access());
                fabs[c] = ctl[c].with_state(|s| s.fabrics.add(&crypto, canon.reference(), rcac, &noc, &[], Some(ipk.reference()), 0xFFF1, ctrl_id(c)).map(|f| f.fab_idx()))?;
            }
            let mut dev_noc: [Option<Vec<u8>>; 2] = [None, None];
            let mut dev_unoc: [Option<Vec<u8>>; 2] = [None, None];
            let ops = if ops.first().map(|o| o["op"] == "Config").unwrap_or(false) { &ops[1..] } else { ops };
            let dev = || -> Option<&Matter<'static>> { let p = dev_ptr.get(); if p.is_null() { None } else { Some(unsafe { &*p }) } };
            let emit_state = |tag: &str| {
                if let Some(d) = dev() {
                    let mut st = device_state(d, &kvs, &roots, &inc);
                    st["after"] = json!(tag);
                    st["im_dead"] = json!(im_dead.get());
                    ev(st);
                }
            };
            emit_state("boot");
            for (oi, op) in ops.iter().enumerate() {
                let name = op["op"].as_str().unwrap();
                let c = op["c"].as_u64().unwrap_or(1) as usize;
                let ci = c.saturating_sub(1).min(1);
                let m = &ctl[ci];
                let fab = fabs[ci];
                let before_case: Vec<u32> = m.with_state(|s| s.verif_snapshot().sessions.sessions.iter().filter(|x| x.mode == 2).map(|x| x.id).collect());
                let mut rec = json!({"ev": "Op", "n": oi, "op": name, "c": c, "t0": sim::now_ms()});
                for k in ["via", "cmd", "idx", "complete", "ms", "fresh", "cut"] {
                    if !op[k].is_null() {
                        rec[k] = op[k].clone();
                    }
                }
                match name {
                    "OpenWindow" => {
                        let r = dev().map(|d| d.open_basic_comm_window(900, &crypto, &()).is_ok()).unwrap_or(false);
                        rec["ok"] = json!(r);
                    }
                    "Commission" => {
                        // make sure a window is open, as the administrator of the other fabric (or the user) would
                        if let Some(d) = dev() {
                            let _ = d.open_basic_comm_window(900, &crypto, &());
                        }
                        // a commissioner starts from scratch: it does not talk over the sessions of an earlier commissioning
                        m.with_state(|s| {
                            let ids: Vec<u32> = s.verif_snapshot().sessions.sessions.iter().map(|x| x.id).collect();
                            for id in ids {
                                s.verif_sessions_mut().remove(id);
                            }
                        });
                        let mut nb = [0u8; MAX_CERT_TLV_AND_ASN1_LEN];
                        let mut cbuf = [0u8; MAX_CERT_TLV_LEN];
                        let mut ng = if ci == 0 { NocGenerator::create(priv0.reference(), rcac0, &[], &mut nb)? } else { NocGenerator::create(priv1.reference(), rcac1, &[], &mut nb)? };
                        let mut commissioner = Commissioner::new(m, &crypto, fab, &mut ng, &mut cbuf);
                        let opts = CommissionOptions { allow_test_attestation: true, ..CommissionOptions::default() };
                        let r = commissioner.commission(sim::addr(0), 20202021, &opts, DEV_NODE_ID, VALID_FOREVER).await;
                        let mut ok = r.is_ok();
                        let mut code = r.as_ref().err().map(|e| format!("{:?}", e.code())).unwrap_or_default();
                        if let (Ok(res), true) = (&r, op["complete"].as_bool().unwrap_or(true)) {
                            rec["fabric_index"] = json!(res.fabric_index);
                            let r2 = commissioner.complete_via_case(res).await;
                            ok = r2.is_ok();
                            code = r2.err().map(|e| format!("{:?}", e.code())).unwrap_or_default();
                        }
                        rec["ok"] = json!(ok);
                        rec["code"] = json!(code);
                    }
                    "Pase" => {
                        if let Some(d) = dev() {
                            let _ = d.open_basic_comm_window(900, &crypto, &());
                        }
                        // an administrator does not try to talk over a PASE session that the device has given up
                        let dev_has = dev().map(|d| d.with_state(|s| s.verif_snapshot().sessions.sessions.iter().any(|x| x.mode == 1 && !x.expired))).unwrap_or(false);
                        if !dev_has {
                            m.with_state(|s| s.verif_sessions_mut().remove_pase(None));
                        }
                        let r = Exchange::initiate_pase(m, &crypto, sim::addr(0), 20202021).await;
                        rec["ok"] = json!(r.is_ok());
                        rec["code"] = json!(r.err().map(|e| format!("{:?}", e.code())).unwrap_or_default());
                    }
                    "Case" => {
                        // one more operational session of this administrator, next to the ones it holds already
                        let r: Result<(), Error> = async {
                            let ex = Exchange::initiate_plaintext(m, &crypto, sim::addr(0)).await?;
                            rs_matter::sc::case::CaseInitiator::perform(ex, &crypto, fab, DEV_NODE_ID).await
                        }
                        .await;
                        rec["ok"] = json!(r.is_ok());
                        rec["code"] = json!(r.err().map(|e| format!("{:?}", e.code())).unwrap_or_default());
                    }
                    "Read" => {
                        // up to three tries: a stale session is only discovered by using it
                        let mut ok = false;
                        let mut code = String::new();
                        let mut tries = 0;
                        let max_tries = if op["fresh"].as_bool().unwrap_or(true) { 3 } else { 1 };
                        while tries < max_tries && !ok {
                            tries += 1;
                            match select(read_vendor(m, &crypto, fab), embassy_time::Timer::after_secs(60)).await {
                                Either::First(Ok(v)) => { ok = v; code = if v { String::new() } else { "NoData".into() }; }
                                Either::First(Err(e)) => code = format!("{:?}", e.code()),
                                Either::Second(_) => code = "HarnessTimeout".into(),
                            }
                        }
                        rec["ok"] = json!(ok);
                        rec["code"] = json!(code);
                        rec["tries"] = json!(tries);
                    }
                    "Cmd" => {
                        let via = op["via"].as_str().unwrap_or("case");
                        let cmd = op["cmd"].as_str().unwrap();
                        let r: Result<String, Error> = async {
                            let exchange = if via == "pase" {
                                // only over a PASE session that exists: establishing one is the `Pase` operation
                                let has = m.with_state(|s| s.verif_snapshot().sessions.sessions.iter().any(|x| x.mode == 1));
                                if !has {
                                    return Ok("NoSession".to_string());
                                }
                                Exchange::initiate_pase(m, &crypto, sim::addr(0), 20202021).await?
                            } else {
                                Exchange::initiate(m, &crypto, fab, DEV_NODE_ID).await?
                            };
                            match cmd {
                                "arm" | "arm0" => {
                                    let secs = if cmd == "arm" { 60 } else { 0 };
                                    let handle = exchange.general_commissioning().arm_fail_safe(0, |req| req.expiry_length_seconds(secs)?.breadcrumb(7)?.end()).await?;
                                    let code = format!("{:?}", handle.response()?.error_code()?);
                                    handle.complete().await?;
                                    Ok(code)
                                }
                                "csr" => {
                                    let nonce = [7u8; 32];
                                    let handle = exchange.operational_credentials().csr_request(0, |req| req.csr_nonce(OctetStr::new(&nonce))?.is_for_update_noc(None)?.end()).await?;
                                    let noc = {
                                        let resp = handle.response()?;
                                        let nocsr = resp.nocsr_elements()?;
                                        let root = TLVElement::new(nocsr.0).structure()?;
                                        let csr = OctetStr::from_tlv(&root.ctx(1)?)?;
                                        with_gen!(ci, ng, ng.generate(&crypto, csr.0, DEV_NODE_ID, &[], VALID_FOREVER)?.to_vec())
                                    };
                                    handle.complete().await?;
                                    dev_noc[ci] = Some(noc);
                                    Ok("OK".into())
                                }
                                "csru" => {
                                    // CSRRequest(isForUpdateNOC = true): the administrator issues a new NOC (same node id, new key)
                                    let nonce = [9u8; 32];
                                    let handle = exchange.operational_credentials().csr_request(0, |req| req.csr_nonce(OctetStr::new(&nonce))?.is_for_update_noc(Some(true))?.end()).await?;
                                    let noc = {
                                        let resp = handle.response()?;
                                        let nocsr = resp.nocsr_elements()?;
                                        let root = TLVElement::new(nocsr.0).structure()?;
                                        let csr = OctetStr::from_tlv(&root.ctx(1)?)?;
                                        with_gen!(ci, ng, ng.generate(&crypto, csr.0, DEV_NODE_ID, &[], VALID_FOREVER)?.to_vec())
                                    };
                                    handle.complete().await?;
                                    dev_unoc[ci] = Some(noc);
                                    Ok("OK".into())
                                }
                                "unoc" => {
                                    let noc = match &dev_unoc[ci] {
                                        Some(n) => n.clone(),
                                        None => {
                                            let key = crypto.generate_secret_key()?;
                                            let mut csr_buf = [0u8; 256];
                                            let csr = key.csr(&mut csr_buf)?;
                                            with_gen!(ci, ng, ng.generate(&crypto, csr, DEV_NODE_ID, &[], VALID_FOREVER)?.to_vec())
                                        }
                                    };
                                    let handle = exchange.operational_credentials().update_noc(0, |req| req.noc_value(OctetStr::new(&noc))?.icac_value(None)?.end()).await?;
                                    let code = format!("{:?}", handle.response()?.status_code()?);
                                    handle.complete().await?;
                                    Ok(code)
                                }
                                "root" => {
                                    let rcac = if ci == 0 { rcac0 } else { rcac1 };
                                    exchange.operational_credentials().add_trusted_root_certificate(0, |req| req.root_ca_certificate(OctetStr::new(rcac))?.end()).await?;
                                    Ok("sent".into())
                                }
                                "noc" => {
                                    let noc = match &dev_noc[ci] {
                                        Some(n) => n.clone(),
                                        None => {
                                            let key = crypto.generate_secret_key()?;
                                            let mut csr_buf = [0u8; 256];
                                            let csr = key.csr(&mut csr_buf)?;
                                            with_gen!(ci, ng, ng.generate(&crypto, csr, DEV_NODE_ID, &[], VALID_FOREVER)?.to_vec())
                                        }
                                    };
                                    let handle = exchange.operational_credentials().add_noc(0, |req| req.noc_value(OctetStr::new(&noc))?.icac_value(None)?.ipk_value(OctetStr::new(&ipks[ci]))?.case_admin_subject(ctrl_id(ci))?.admin_vendor_id(0xFFF1)?.end()).await?;
                                    let code = format!("{:?}", handle.response()?.status_code()?);
                                    handle.complete().await?;
                                    Ok(code)
                                }
                                "revoke" => {
                                    // AdministratorCommissioning::RevokeCommissioning (timed invoke) while a window is open: it closes
                                    // the window and forces the fail-safe to expire
                                    if let Some(d) = dev() {
                                        let _ = d.open_basic_comm_window(900, &crypto, &());
                                    }
                                    use rs_matter::tlv::{TLVTag, TLVWrite};
                                    let mut sender = exchange.invoke_sender(Some(5000)).await?;
                                    let mut chunk = loop {
                                        match sender.tx().await? {
                                            TxOutcome::BuildRequest(builder) => {
                                                sender = builder.suppress_response(false)?.timed_request(true)?.invoke_requests()?.push()?.path(0, 0x3c, 0x02)?
                                                    .data(|w| { w.start_struct(&TLVTag::Context(1))?; w.end_container() })?.end()?.end()?.end()?;
                                            }
                                            TxOutcome::GotResponse(c) => break c,
                                        }
                                    };
                                    let mut code = String::from("sent");
                                    if let Some(resp) = chunk.response()? {
                                        if let Some(irs) = &resp.invoke_responses {
                                            for r in irs.iter() {
                                                if let Ok(rs_matter::im::CmdResp::Status(st)) = r {
                                                    code = format!("{:?}", st.status.status);
                                                }
                                            }
                                        }
                                    }
                                    while let Some(next) = chunk.complete().await? {
                                        chunk = next;
                                    }
                                    Ok(code)
                                }
                                "complete" => {
                                    let handle = exchange.general_commissioning().commissioning_complete(0).await?;
                                    let code = format!("{:?}", handle.response()?.error_code()?);
                                    handle.complete().await?;
                                    Ok(code)
                                }
                                "remove" => {
                                    let idx = op["idx"].as_u64().unwrap_or(1) as u8;
                                    let handle = exchange.operational_credentials().remove_fabric(0, |req| req.fabric_index(idx)?.end()).await?;
                                    let code = format!("{:?}", handle.response()?.status_code()?);
                                    let _ = handle.complete().await;
                                    Ok(code)
                                }
                                "label" => {
                                    let label = format!("L{}c{}", oi, c);
                                    let handle = exchange.operational_credentials().update_fabric_label(0, |req| req.label(&label)?.end()).await?;
                                    let code = format!("{:?}", handle.response()?.status_code()?);
                                    handle.complete().await?;
                                    rec["label"] = json!(label);
                                    Ok(code)
                                }
                                x => Ok(format!("unknown {x}")),
                            }
                        }
                        .await;
                        rec["ok"] = json!(r.is_ok());
                        rec["code"] = json!(match r { Ok(s) => s, Err(e) => format!("ERR {:?}", e.code()) });
                    }
                    "Wait" => {
                        embassy_time::Timer::after_millis(op["ms"].as_u64().unwrap()).await;
                        rec["ok"] = json!(true);
                    }
                    "KvFail" => {
                        // the k-th mutating store operation from now on fails (returns an error, changes nothing);
                        let mut s = kvs.borrow_mut();
                        let at = s.n_mut + op["k"].as_u64().unwrap_or(0) as usize;
                        s.fail_at = Some(at);
                        rec["ok"] = json!(true);
                    }
                    "CorruptResum" => {
                        // damage the persisted resumption cache (an optional cache): flip bytes / truncate
                        let mut s = kvs.borrow_mut();
                        let mut n = 0;
                        for (k, v) in s.blobs.iter_mut() {
                            if *k == 0x10b || v.len() == 76 {
                                for b in v.iter_mut().step_by(3) {
                                    *b ^= 0x5a;
                                }
                                v.truncate(v.len().saturating_sub(op["cut"].as_u64().unwrap_or(0) as usize));
                                n += 1;
                            }
                        }
                        rec["ok"] = json!(n > 0);
                    }
                    "FactoryReset" => {
                        // Matter::factory_reset on the running node, then a power cycle
                        let r = dev().map(|d| d.factory_reset(d.kv(RecKv(kvs.clone()))).is_ok()).unwrap_or(false);
                        rec["reset_ok"] = json!(r);
                        restart.signal(());
                        let ok = booted.wait().await;
                        inc.borrow_mut().sess.clear();
                        rec["ok"] = json!(ok && r);
                    }
                    "Restart" => {
                        // a power cut: optionally the last `cut` store operations never reached the store
                        if let Some(cut) = op["cut"].as_u64() {
                            let mut s = kvs.borrow_mut();
                            let keep = s.log.len().saturating_sub(cut as usize);
                            let blobs = s.prefix(keep);
                            s.blobs = blobs;
                            s.log.truncate(keep);
                        }
                        restart.signal(());
                        let ok = booted.wait().await;
                        inc.borrow_mut().sess.clear();
                        rec["ok"] = json!(ok);
                    }
                    x => panic!("life op {x}"),
                }
                rec["t"] = json!(sim::now_ms());
                let after_case: Vec<u32> = m.with_state(|s| s.verif_snapshot().sessions.sessions.iter().filter(|x| x.mode == 2).map(|x| x.id).collect());
                rec["new_case"] = json!(after_case.iter().any(|id| !before_case.contains(id)));
                rec["dev_alive"] = json!(dev_alive.get());
                ev(rec);
                // let the device settle (lazy writers excluded), then look at it
                embassy_time::Timer::after_millis(5).await;
                emit_state(name);
            }
            Ok(())
        }
        .await;
        if let Err(e) = r {
            ev(json!({"ev": "StoryError", "code": format!("{:?}", e.code())}));
        }
        done.set(true);
        core::future::pending::<()>().await
    };

    let aside = async { select(ctl[0].run(&crypto, Tx(net.clone(), 1), Rx(net.clone(), 1), NoNetwork), mdns_stub(&ctl[0])).await };
    let bside = async { select(ctl[1].run(&crypto, Tx(net.clone(), 2), Rx(net.clone(), 2), NoNetwork), mdns_stub(&ctl[1])).await };
    let mut all = pin!(select4(devside, aside, bside, story));
    let mut storm = 0usize;
    let end = drive(all.as_mut(), &net, &Limits { max_virtual_ms: 6_000_000, max_steps: 3_000_000, ..Default::default() }, |net| {
        for e in events.borrow_mut().drain(..) {
            tr.ev(e);
        }
        if done.get() {
            return Step::Stop;
        }
        if !net.borrow().wire.is_empty() {
            storm += 1;
            return Step::Deliver(0);
        }
        Step::NextTimer
    });
    for e in events.borrow_mut().drain(..) {
        tr.ev(e);
    }
    let _ = (storm, select3::<core::future::Ready<()>, core::future::Ready<()>, core::future::Ready<()>>);
    tr.ev(json!({"ev": "End", "how": format!("{:?}", end), "t": sim::now_ms(), "kv_log": kvs.borrow().log.iter().map(|(t, o)| match o { KvOp::Store(k, v) => json!([t, "store", k, v.len()]), KvOp::Remove(k) => json!([t, "remove", k, 0]) }).collect::<Vec<_>>()}));
    format!("{:?}", end)
}

pub fn run(args: &[String]) -> i32 {
    let behaviours = read_ndjson(&arg(args, "--behaviours").expect("--behaviours"));
    let mut tr = Trace::create(&arg(args, "--out").expect("--out"));
    let mut ends: HashMap<String, usize> = HashMap::new();
    for (bi, b) in behaviours.iter().enumerate() {
        tr.ev(json!({"ev": "Reset", "run": bi}));
        let e = one_story(b.as_array().unwrap(), &mut tr);
        *ends.entry(e).or_default() += 1;
    }
    tr.finish();
    println!("{}", json!({"behaviours": behaviours.len(), "ends": ends}));
    0
}
