//! C19 - certificate chains.  Builds, for every case TLC enumerated from CertChain.tla (chain shape, up to two
//! mutations, clock kind, purpose), the concrete Matter-TLV certificates with real P-256 keys and signatures over the
//! implementation's own X.509 rendering, and asks the real code for its verdict:
//!   purpose "verify": CertRef::verify_chain_start .. add_cert .. finalise
//!   purpose "case":   the CASE chain validation (hook verif_validate_certs) against a real Fabric
//!   purpose "addnoc": FailSafe::{arm, add_trusted_root_cert, add_csr_req, add_noc} on a real Fabrics table

use serde_json::{json, Value};

use rs_matter::attest::trust_store::compute_key_id;
use rs_matter::cert::{CertRef, MAX_CERT_TLV_AND_ASN1_LEN};
use rs_matter::crypto::{
    test_only_crypto, CanonAeadKey, CanonPkcPublicKey, CanonPkcSecretKey, CanonPkcSignature, Crypto, PublicKey, SecretKey,
    SigningSecretKey,
};
use rs_matter::dm::clusters::time_sync::UtcTime;
use rs_matter::fabric::Fabrics;
use rs_matter::failsafe::FailSafe;
use rs_matter::sc::pase::Pase;
use rs_matter::tlv::{TLVElement, TLVTag, TLVWrite};
use rs_matter::transport::session::SessionMode;
use rs_matter::utils::storage::WriteBuf;

use crate::sim;
use crate::util::{arg, catch, read_ndjson, Trace};

const NOW: u64 = 800_000_000; // Matter-epoch seconds
const FAB: u64 = 1;

#[derive(Clone)]
pub struct Key {
    pub secret: CanonPkcSecretKey,
    pub public: CanonPkcPublicKey,
    pub kid: [u8; 20],
}
pub fn new_key<C: Crypto>(c: &C) -> Key {
    let sk = c.generate_secret_key().unwrap();
    let mut secret = CanonPkcSecretKey::new();
    sk.write_canon(&mut secret).unwrap();
    let mut public = CanonPkcPublicKey::new();
    sk.pub_key().unwrap().write_canon(&mut public).unwrap();
    let kid = compute_key_id(c, public.reference()).unwrap();
    Key { secret, public, kid }
}
pub fn key_from_secret(secret: &CanonPkcSecretKey) -> Key {
    let c = test_only_crypto();
    let sk = c.secret_key(secret.reference()).unwrap();
    let mut public = CanonPkcPublicKey::new();
    sk.pub_key().unwrap().write_canon(&mut public).unwrap();
    let kid = compute_key_id(&c, public.reference()).unwrap();
    Key { secret: secret.clone(), public, kid }
}

/// Concrete certificate description (every field individually settable).
#[derive(Clone)]
pub struct Spec {
    pub subject: Vec<(u8, u64)>,
    pub issuer: Vec<(u8, u64)>,
    pub key: Key,
    pub signer: Key,
    pub akid: [u8; 20],
    pub nb: u32,
    pub na: u32,
    pub is_ca: bool,
    pub path_len: Option<u8>,
    pub ku: u16,
    pub eku: Vec<u8>,
    pub crit_ext: bool,
    /// future-extensions elements: each a list of X.509 extensions given by their critical flag (in addition to `crit_ext`)
    pub exts: Vec<Vec<bool>>,
    pub bad_sig: bool,
    pub serial: u8,
}
const DN_NODE: u8 = 17;
const DN_ICA: u8 = 19;
const DN_ROOT: u8 = 20;
const DN_FABRIC: u8 = 21;
pub const KU_DIGSIG: u16 = 0x0001;
const KU_KEYENC: u16 = 0x0004;
const KU_CERTSIGN: u16 = 0x0020;
const KU_CRLSIGN: u16 = 0x0040;

pub fn build(s: &Spec) -> Vec<u8> {
    let mut buf = vec![0u8; MAX_CERT_TLV_AND_ASN1_LEN];
    let tbs_len = {
        let mut tw = WriteBuf::new(&mut buf);
        tw.start_struct(&TLVTag::Anonymous).unwrap();
        tw.str(&TLVTag::Context(1), &[s.serial]).unwrap(); // serial
        tw.u8(&TLVTag::Context(2), 1).unwrap(); // ECDSA-SHA256
        tw.start_list(&TLVTag::Context(3)).unwrap();
        for (t, v) in &s.issuer {
            tw.u64(&TLVTag::Context(*t), *v).unwrap();
        }
        tw.end_container().unwrap();
        tw.u32(&TLVTag::Context(4), s.nb).unwrap();
        tw.u32(&TLVTag::Context(5), s.na).unwrap();
        tw.start_list(&TLVTag::Context(6)).unwrap();
        for (t, v) in &s.subject {
            tw.u64(&TLVTag::Context(*t), *v).unwrap();
        }
        tw.end_container().unwrap();
        tw.u8(&TLVTag::Context(7), 1).unwrap();
        tw.u8(&TLVTag::Context(8), 1).unwrap();
        tw.str(&TLVTag::Context(9), s.key.public.access()).unwrap();
        tw.start_list(&TLVTag::Context(10)).unwrap();
        tw.start_struct(&TLVTag::Context(1)).unwrap();
        tw.bool(&TLVTag::Context(1), s.is_ca).unwrap();
        if let Some(p) = s.path_len {
            tw.u8(&TLVTag::Context(2), p).unwrap();
        }
        tw.end_container().unwrap();
        tw.u16(&TLVTag::Context(2), s.ku).unwrap();
        if !s.eku.is_empty() {
            tw.start_array(&TLVTag::Context(3)).unwrap();
            for e in &s.eku {
                tw.u8(&TLVTag::Anonymous, *e).unwrap();
            }
            tw.end_container().unwrap();
        }
        tw.str(&TLVTag::Context(4), &s.key.kid).unwrap();
        tw.str(&TLVTag::Context(5), &s.akid).unwrap();
        if s.crit_ext {
            // one X.509 Extension { OID 1.2.3.4, critical TRUE, extnValue 00 } carried verbatim
            tw.str(&TLVTag::Context(6), &[0x30, 0x0b, 0x06, 0x03, 0x2a, 0x03, 0x04, 0x01, 0x01, 0xff, 0x04, 0x01, 0x00]).unwrap();
        }
        for (x, el) in s.exts.iter().enumerate() {
            // each element carries its DER Extension structures back to back: OID 1.2.3.(10+x).(y), [critical TRUE,] extnValue 00
            let mut der = Vec::new();
            for (y, crit) in el.iter().enumerate() {
                let mut e = vec![0x06, 0x04, 0x2a, 0x03, 10 + x as u8, y as u8];
                if *crit {
                    e.extend_from_slice(&[0x01, 0x01, 0xff]);
                }
                e.extend_from_slice(&[0x04, 0x01, 0x00]);
                der.push(0x30);
                der.push(e.len() as u8);
                der.extend_from_slice(&e);
            }
            tw.str(&TLVTag::Context(6), &der).unwrap();
        }
        tw.end_container().unwrap();
        tw.end_container().unwrap();
        tw.get_tail()
    };
    let c = test_only_crypto();
    let mut sig = CanonPkcSignature::new();
    {
        let (tlv, asn1) = buf.split_at_mut(tbs_len);
        let cert = CertRef::new(TLVElement::new(tlv));
        let n = cert.as_asn1(asn1).expect("as_asn1");
        c.secret_key(s.signer.secret.reference()).unwrap().sign(&asn1[..n], &mut sig).unwrap();
    }
    if s.bad_sig {
        sig.access_mut()[40] ^= 0x01;
    }
    let pos = tbs_len - 1;
    let tail = {
        let mut tw = WriteBuf::new(&mut buf[pos..]);
        tw.str(&TLVTag::Context(11), sig.access()).unwrap();
        tw.end_container().unwrap();
        tw.get_tail()
    };
    buf.truncate(pos + tail);
    buf
}

struct Keys {
    root: Key,
    ica: Key,
    noc: Key,
    other: Key,
    root2: Key,
}

fn base_root(k: &Key) -> Spec {
    Spec { subject: vec![(DN_ROOT, 1)], issuer: vec![(DN_ROOT, 1)], key: k.clone(), signer: k.clone(), akid: k.kid, nb: 1, na: 0,
           is_ca: true, path_len: None, ku: KU_CERTSIGN | KU_CRLSIGN, eku: vec![], crit_ext: false, exts: vec![], bad_sig: false, serial: 1 }
}
fn base_ica(k: &Key, root: &Key) -> Spec {
    Spec { subject: vec![(DN_ICA, 2)], issuer: vec![(DN_ROOT, 1)], key: k.clone(), signer: root.clone(), akid: root.kid, nb: 1, na: 0,
           is_ca: true, path_len: Some(0), ku: KU_CERTSIGN | KU_CRLSIGN, eku: vec![], crit_ext: false, exts: vec![], bad_sig: false, serial: 1 }
}
fn base_noc(k: &Key, parent: &Spec) -> Spec {
    Spec { subject: vec![(DN_NODE, 7), (DN_FABRIC, FAB)], issuer: parent.subject.clone(), key: k.clone(), signer: parent.key.clone(),
           akid: parent.key.kid, nb: 1, na: 0, is_ca: false, path_len: None, ku: KU_DIGSIG, eku: vec![1, 2], crit_ext: false, exts: vec![], bad_sig: false, serial: 1 }
}

/// The concrete counterpart of CertChain!Apply.
fn apply(ch: Vec<Spec>, m: &str, k: &Keys) -> Vec<Spec> {
    let mut ch = ch;
    let n = ch.len();
    let ica = if n == 3 { 1 } else { 0 };
    let exp = (NOW - 10) as u32;
    let fut = (NOW + 10) as u32;
    match m {
        "none" | "nocKeyNotCsr" | "fabricExists" | "fabricExistsReissuedRoot" => {}
        "nocSigBit" => ch[0].bad_sig = true,
        "icaSigBit" => ch[ica].bad_sig = true,
        "rootSigBit" => ch[n - 1].bad_sig = true,
        "nocIssuerName" => ch[0].issuer = vec![(if n == 3 { DN_ICA } else { DN_ROOT }, 99)],
        "icaIssuerName" => ch[ica].issuer = vec![(DN_ROOT, 99)],
        "nocAkid" => ch[0].akid = k.other.kid,
        "icaAkid" => ch[ica].akid = k.other.kid,
        "nocExpired" => ch[0].na = exp,
        "icaExpired" => ch[ica].na = exp,
        "rootExpired" => ch[n - 1].na = exp,
        "nocNotYet" => ch[0].nb = fut,
        "icaNotYet" => ch[ica].nb = fut,
        "nocIsCA" => ch[0].is_ca = true,
        "nocNoDigSig" => ch[0].ku = KU_KEYENC,
        "nocNoClientAuth" => ch[0].eku = vec![1],
        "nocNoServerAuth" => ch[0].eku = vec![2],
        "icaNotCA" => ch[ica].is_ca = false,
        "icaNoCertSign" => ch[ica].ku = KU_CRLSIGN,
        "rootNotCA" => ch[n - 1].is_ca = false,
        "rootNoCertSign" => ch[n - 1].ku = KU_CRLSIGN,
        "rootPathLen0" => ch[n - 1].path_len = Some(0),
        "icaPathLen1" => ch[ica].path_len = Some(1),
        "nocCritExt" => ch[0].crit_ext = true,
        "icaCritExt" => ch[ica].crit_ext = true,
        "rootCritExt" => ch[n - 1].crit_ext = true,
        "nocBenignExt" => ch[0].exts = vec![vec![false]],
        "icaBenignExt" => ch[ica].exts = vec![vec![false], vec![false]],
        "nocCritExtSecondElement" => ch[0].exts = vec![vec![false], vec![true]],
        "icaCritExtSecondElement" => ch[ica].exts = vec![vec![false], vec![true]],
        "rootCritExtThirdElement" => ch[n - 1].exts = vec![vec![false], vec![false], vec![true]],
        "nocCritExtSecondInElement" => ch[0].exts = vec![vec![false, true]],
        "nocIssuerEmpty" => ch[0].issuer = vec![],
        "nocIssuerExtraAttr" => ch[0].issuer.push((DN_FABRIC, FAB)),
        "icaIssuerEmpty" => ch[ica].issuer = vec![],
        "icaIssuerExtraAttr" => ch[ica].issuer.push((DN_FABRIC, FAB)),
        "rootIssuerEmpty" => ch[n - 1].issuer = vec![],
        "rootIssuerExtraAttr" => ch[n - 1].issuer.push((DN_FABRIC, FAB)),
        "rootSubjectExtraAttr" => ch[n - 1].subject.push((DN_FABRIC, FAB)),
        "nocNoNodeId" => ch[0].subject.retain(|(t, _)| *t != DN_NODE),
        "nocNoFabricId" => ch[0].subject.retain(|(t, _)| *t != DN_FABRIC),
        "nocOtherFabric" => {
            ch[0].subject.retain(|(t, _)| *t != DN_FABRIC);
            ch[0].subject.push((DN_FABRIC, FAB + 1));
        }
        "icaOtherFabric" => {
            // the ICAC names another fabric; the certificates it issued carry that name as their issuer
            let was = ch[ica].subject.clone();
            ch[ica].subject.push((DN_FABRIC, FAB + 1));
            if ch[0].issuer == was {
                ch[0].issuer = ch[ica].subject.clone();
            }
        }
        "rootInIcaSlot" => {
            let r = base_root(&k.root);
            ch = vec![base_noc(&k.noc, &r), r.clone(), r];
        }
        "untrustedRoot" => {
            let r2 = base_root(&k.root2);
            if n == 2 {
                ch = vec![base_noc(&k.noc, &r2), r2];
            } else {
                let i2 = base_ica(&k.ica, &k.root2);
                ch = vec![base_noc(&k.noc, &i2), i2, r2];
            }
        }
        "swapNocIca" => ch.swap(0, 1),
        "nocAsAuthority" => {
            // a genuine NOC of another member (issued by the root) signs a NOC of its own making
            let mut n2 = base_noc(&k.other, &ch[n - 1]);
            n2.subject = vec![(DN_NODE, 8), (DN_FABRIC, FAB)];
            let lf = base_noc(&k.noc, &n2);
            let root = ch[n - 1].clone();
            ch = vec![lf, n2, root];
        }
        "icaRepeated" => {
            let i = ch[1].clone();
            ch[2] = i;
        }
        x => panic!("unknown mutation {x}"),
    }
    // the NOC issuer follows a renamed ICAC subject only in the base construction; mutations are single-aspect
    ch
}

pub fn run(args: &[String]) -> i32 {
    std::panic::set_hook(Box::new(|_| {}));
    let cases = read_ndjson(&arg(args, "--behaviours").expect("--behaviours"));
    let mut tr = Trace::create(&arg(args, "--out").expect("--out"));
    sim::clock_reset();
    let crypto = test_only_crypto();
    let keys = Keys { root: new_key(&crypto), ica: new_key(&crypto), noc: new_key(&crypto), other: new_key(&crypto), root2: new_key(&crypto) };
    let local = new_key(&crypto);
    assert!(keys.root.kid != keys.ica.kid && keys.root.kid != keys.root2.kid);
    let (mut n_acc, mut n_dis) = (0usize, 0usize);
    for (ci, c) in cases.iter().enumerate() {
        let shape = c["shape"].as_u64().unwrap();
        let (m1, m2) = (c["m1"].as_str().unwrap(), c["m2"].as_str().unwrap());
        let purpose = c["purpose"].as_str().unwrap();
        let time = if c["reliable"].as_bool().unwrap() { UtcTime::Reliable(NOW * 1_000_000) } else { UtcTime::LastKnown(NOW * 1_000_000) };
        let res: Result<bool, String> = catch(|| {
            let mut buf = vec![0u8; MAX_CERT_TLV_AND_ASN1_LEN];
            // for AddNOC the leaf key is the one the device generated for this CSR
            let mut fs = FailSafe::new();
            let mut pase = Pase::new();
            let mut fabrics = Fabrics::new();
            let mode = SessionMode::Pase { fab_idx: 0 };
            let mut k = Keys { root: keys.root.clone(), ica: keys.ica.clone(), noc: keys.noc.clone(), other: keys.other.clone(), root2: keys.root2.clone() };
            if purpose == "addnoc" {
                fs.arm(60, 0, &mode, &mut pase).unwrap();
            }
            let root = base_root(&k.root);
            let build_chain = |k: &Keys| {
                let base = if shape == 2 {
                    vec![base_noc(&k.noc, &root), root.clone()]
                } else {
                    let i = base_ica(&k.ica, &k.root);
                    vec![base_noc(&k.noc, &i), i, root.clone()]
                };
                apply(apply(base, m1, k), m2, k)
            };
            match purpose {
                "verify" => {
                    let ch = build_chain(&k);
                    let certs: Vec<Vec<u8>> = ch.iter().map(build).collect();
                    let refs: Vec<CertRef> = certs.iter().map(|b| CertRef::new(TLVElement::new(b))).collect();
                    let mut v = refs[0].verify_chain_start(&crypto, time);
                    for r in refs.iter().skip(1) {
                        v = match v.add_cert(r, &mut buf) {
                            Ok(v) => v,
                            Err(_) => return false,
                        };
                    }
                    v.finalise(&mut buf).is_ok()
                }
                "case" => {
                    let ch = build_chain(&k);
                    let certs: Vec<Vec<u8>> = ch.iter().map(build).collect();
                    // the local fabric trusts the root it was commissioned with: the (possibly mutated) root of the
                    // chain when it carries the trusted key, the genuine root otherwise
                    let trusted_root = if ch[ch.len() - 1].key.kid == k.root.kid {
                        certs[certs.len() - 1].clone()
                    } else {
                        build(&root)
                    };
                    let local_noc = build(&Spec { subject: vec![(DN_NODE, 1), (DN_FABRIC, FAB)], ..base_noc(&local, &root) });
                    let mut ipk = CanonAeadKey::new();
                    ipk.access_mut().copy_from_slice(&[7u8; 16]);
                    let fabric = fabrics
                        .add(&crypto, local.secret.reference(), &trusted_root, &local_noc, &[], Some(ipk.reference()), 0xfff1, 112233)
                        .expect("local fabric");
                    let noc = CertRef::new(TLVElement::new(&certs[0]));
                    // CASE carries NOC and optional ICAC; the root is the fabric's
                    let icac = if certs.len() == 3 { Some(CertRef::new(TLVElement::new(&certs[1]))) } else { None };
                    rs_matter::sc::case::verif_validate_certs(&crypto, time, fabric, &noc, icac.as_ref(), &mut buf).is_ok()
                }
                "addnoc" => {
                    // root first, then CSR (its key is the NOC key), then AddNOC
                    let secret = {
                        let r = fs.add_csr_req(&crypto, &mode).expect("csr");
                        let mut s = CanonPkcSecretKey::new();
                        s.load(r);
                        s
                    };
                    k.noc = key_from_secret(&secret);
                    if m1 == "nocKeyNotCsr" || m2 == "nocKeyNotCsr" {
                        k.noc = k.other.clone();
                        k.other = new_key(&crypto);
                    }
                    let ch = build_chain(&k);
                    let certs: Vec<Vec<u8>> = ch.iter().map(build).collect();
                    let reissued = m1 == "fabricExistsReissuedRoot" || m2 == "fabricExistsReissuedRoot";
                    if m1 == "fabricExists" || m2 == "fabricExists" || reissued {
                        let local_noc = build(&Spec { subject: vec![(DN_NODE, 1), (DN_FABRIC, FAB)], ..base_noc(&local, &root) });
                        let mut ipk = CanonAeadKey::new();
                        ipk.access_mut().copy_from_slice(&[7u8; 16]);
                        let existing_root = if reissued { Spec { serial: 2, ..root.clone() } } else { root.clone() };
                        fabrics.add(&crypto, local.secret.reference(), &build(&existing_root), &local_noc, &[], Some(ipk.reference()), 0xfff1, 112233).unwrap();
                    }
                    if fs.add_trusted_root_cert(&crypto, time, &mode, &certs[certs.len() - 1], &mut buf).is_err() {
                        return false;
                    }
                    let icac = if certs.len() == 3 { Some(certs[1].as_slice()) } else { None };
                    fs.add_noc(&crypto, time, &mut fabrics, &mode, 0xfff1, icac, &certs[0], &[7u8; 16], 112233, &mut buf, || {}).is_ok()
                }
                p => panic!("purpose {p}"),
            }
        });
        let (real, panicked) = match res {
            Ok(b) => (b, false),
            Err(_) => (false, true),
        };
        if real {
            n_acc += 1;
        }
        if Some(real) != c["valid"].as_bool() || panicked {
            n_dis += 1;
        }
        tr.ev(json!({"ev": "Verdict", "i": ci, "accepted": real, "panicked": panicked, "ref_valid": c["valid"]}));
    }
    tr.finish();
    println!("{}", json!({"cases": cases.len(), "real_accepted": n_acc, "disagreements": n_dis}));
    let _ = Value::Null;
    0
}
