//! Small helpers: ndjson trace writer, behaviour reader, panic capture.
#![allow(dead_code)]

use serde_json::Value;
use std::fs::File;
use std::io::{BufRead, BufReader, BufWriter, Write};

pub struct Trace {
    out: BufWriter<File>,
    pub n_events: usize,
}

impl Trace {
    pub fn create(path: &str) -> Self {
        Trace { out: BufWriter::new(File::create(path).expect("create trace")), n_events: 0 }
    }
    pub fn ev(&mut self, mut v: Value) {
        // the TLA+ Json module has no null: write -1 instead
        fn denull(v: &mut Value) {
            match v {
                Value::Null => *v = Value::from(-1),
                Value::Array(a) => a.iter_mut().for_each(denull),
                Value::Object(m) => m.values_mut().for_each(denull),
                _ => {}
            }
        }
        denull(&mut v);
        serde_json::to_writer(&mut self.out, &v).unwrap();
        self.out.write_all(b"\n").unwrap();
        self.n_events += 1;
    }
    pub fn flush(&mut self) {
        self.out.flush().unwrap();
    }
    pub fn finish(mut self) {
        self.out.flush().unwrap();
    }
}

/// Read an ndjson file: one JSON value per non-empty line.
pub fn read_ndjson(path: &str) -> Vec<Value> {
    let f = BufReader::new(File::open(path).unwrap_or_else(|e| panic!("open {path}: {e}")));
    f.lines()
        .map(|l| l.unwrap())
        .filter(|l| !l.trim().is_empty())
        .map(|l| serde_json::from_str(&l).unwrap_or_else(|e| panic!("bad json line: {e}: {l}")))
        .collect()
}

/// Named command line argument `--name value`.
pub fn arg(args: &[String], name: &str) -> Option<String> {
    args.iter().position(|a| a == name).and_then(|i| args.get(i + 1)).cloned()
}
pub fn arg_or(args: &[String], name: &str, default: &str) -> String {
    arg(args, name).unwrap_or_else(|| default.to_string())
}
pub fn arg_u64(args: &[String], name: &str, default: u64) -> u64 {
    arg(args, name).map(|s| s.parse().expect("numeric argument")).unwrap_or(default)
}

/// Run `f`, turning a panic in the code under test into `Err(message)` - a panic is data.
pub fn catch<R>(f: impl FnOnce() -> R) -> Result<R, String> {
    let r = std::panic::catch_unwind(std::panic::AssertUnwindSafe(f));
    r.map_err(|e| {
        if let Some(s) = e.downcast_ref::<&str>() {
            s.to_string()
        } else if let Some(s) = e.downcast_ref::<String>() {
            s.clone()
        } else {
            "panic".to_string()
        }
    })
}

/// Small deterministic PRNG (xorshift64*), seeded from VERIF_SEED.
pub struct Rng(pub u64);
impl Rng {
    pub fn new(seed: u64) -> Self {
        Rng(seed.wrapping_mul(0x9E37_79B9_7F4A_7C15) ^ 0xD1B5_4A32_D192_ED03)
    }
    pub fn next(&mut self) -> u64 {
        let mut x = self.0;
        x ^= x >> 12;
        x ^= x << 25;
        x ^= x >> 27;
        self.0 = x;
        x.wrapping_mul(0x2545_F491_4F6C_DD1D)
    }
    pub fn below(&mut self, n: u64) -> u64 {
        if n == 0 {
            0
        } else {
            self.next() % n
        }
    }
    pub fn pick<'a, T>(&mut self, v: &'a [T]) -> &'a T {
        &v[self.below(v.len() as u64) as usize]
    }
}

/// Watchdog for code under test that never returns from a poll (a synchronous livelock cannot be bounded from inside the
/// driver): the driver calls `beat(note)` whenever it gets control; when nothing beats for `secs` seconds of wall time the
/// watchdog writes `{"note": .., "secs": ..}` to `<out>.hang` and ends the process with exit code 3.
static BEAT: std::sync::atomic::AtomicU64 = std::sync::atomic::AtomicU64::new(0);
static NOTE: std::sync::Mutex<String> = std::sync::Mutex::new(String::new());
pub fn beat(note: &str) {
    BEAT.fetch_add(1, std::sync::atomic::Ordering::Relaxed);
    let mut n = NOTE.lock().unwrap();
    if n.as_str() != note {
        *n = note.to_string();
    }
}
pub fn watchdog(out: &str, secs: u64) {
    let path = format!("{out}.hang");
    let _ = std::fs::remove_file(&path);
    std::thread::spawn(move || {
        let (mut last, mut still) = (u64::MAX, 0u64);
        loop {
            std::thread::sleep(std::time::Duration::from_secs(1));
            let b = BEAT.load(std::sync::atomic::Ordering::Relaxed);
            if b == last {
                still += 1;
            } else {
                last = b;
                still = 0;
            }
            if still >= secs {
                let note = NOTE.lock().map(|n| n.clone()).unwrap_or_default();
                let _ = std::fs::write(&path, serde_json::json!({"note": note, "secs": secs}).to_string());
                std::process::exit(3);
            }
        }
    });
}
