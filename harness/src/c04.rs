//! C04 - receive windows.  Replays TLC-generated behaviours (MCDedup/GenDedup) on the real objects
//! and records the observed (counter, verdict) trace for validation against DedupProp.
//!
//!  kind "sec":   a real CASE session of a real `Matter` (created through `ReservedSession`), counters fed
//!                through `Session::post_recv` (hook `verif_post_recv`): verdict = not `Duplicate`.
//!  kind "plain": a real unsecured session created by `Sessions::add`, same path.
//!  kind "grp":   the real `GroupCtrStore`; the evicted sender is read off the table (hook `verif_entries`).

use core::num::NonZeroU8;

use serde_json::{json, Value};

use rs_matter::crypto::test_only_crypto;
use rs_matter::dm::devices::test::{TEST_DEV_ATT, TEST_DEV_COMM, TEST_DEV_DET};
use rs_matter::error::ErrorCode;
use rs_matter::transport::packet::PacketHdr;
use rs_matter::transport::session::{ReservedSession, SessionMode};
use rs_matter::transport::verif_dedup::GroupCtrStore;
use rs_matter::Matter;

use crate::sim;
use crate::util::{arg, read_ndjson, Trace};

fn ctr_of(v: &Value) -> u32 {
    let h = v[0].as_u64().unwrap() as u32;
    let l = v[1].as_u64().unwrap() as u32;
    (h << 16) | l
}

pub fn run(args: &[String]) -> i32 {
    let beh = arg(args, "--behaviours").expect("--behaviours");
    let out = arg(args, "--out").expect("--out");
    let behaviours = read_ndjson(&beh);
    let mut trace = Trace::create(&out);
    let mut steps = 0usize;
    let mut matched = 0usize;
    let mut drift: Vec<Value> = Vec::new();

    for (bi, b) in behaviours.iter().enumerate() {
        let stepsv = b.as_array().expect("behaviour = array of steps");
        if stepsv.is_empty() {
            continue;
        }
        trace.ev(json!({"ev": "Reset", "run": bi}));
        sim::clock_reset();
        let kind = stepsv[0]["kind"].as_str().unwrap().to_string();
        match kind.as_str() {
            "sec" | "plain" => {
                let m = Matter::new(&TEST_DEV_DET, TEST_DEV_COMM, &TEST_DEV_ATT, 5540);
                let sid = if kind == "sec" {
                    m.with_state(|s| {
                        s.fabrics.add_with_post_init(|_| Ok(())).unwrap();
                    });
                    let mut sess = ReservedSession::reserve_now(&m, test_only_crypto()).unwrap();
                    sess.update(
                        200,
                        100,
                        1,
                        1,
                        sim::addr(1),
                        SessionMode::Case { fab_idx: NonZeroU8::new(1).unwrap(), cat_ids: Default::default() },
                        None,
                        None,
                        None,
                        None,
                    )
                    .unwrap();
                    sess.complete();
                    m.with_state(|s| s.verif_sessions().iter().next().unwrap().id())
                } else {
                    m.with_state(|s| {
                        s.verif_sessions_mut().add(1, false, sim::addr(1), None, &TEST_DEV_DET).unwrap().id()
                    })
                };
                for st in stepsv {
                    let c = ctr_of(&st["c"]);
                    let mut hdr = PacketHdr::new();
                    hdr.plain.ctr = c;
                    let r = m.with_state(|s| s.verif_sessions_mut().get(sid).unwrap().verif_post_recv(&hdr));
                    let v = match r {
                        Err(e) if e.code() == ErrorCode::Duplicate => false,
                        Err(e) if e.code() == ErrorCode::NoExchange => true,
                        other => panic!("unexpected post_recv result {:?}", other.map_err(|e| e.code())),
                    };
                    steps += 1;
                    if Some(v) == st["v"].as_bool() {
                        matched += 1;
                    } else if drift.len() < 5 {
                        drift.push(json!({"run": bi, "step": st, "real_v": v}));
                    }
                    trace.ev(json!({"ev": "Recv", "kind": kind, "peer": 0, "h": c >> 16, "lo": c & 0xffff, "v": v, "evicted": -1}));
                }
            }
            "grp" => {
                let mut store = GroupCtrStore::new();
                for st in stepsv {
                    let c = ctr_of(&st["c"]);
                    let peer = st["peer"].as_u64().unwrap();
                    // fabric index 1 + (peer / 100), node id = peer: peers map one-to-one onto (fabric, node) pairs
                    let before: Vec<u64> = store.verif_entries().iter().map(|e| e.src_nodeid).collect();
                    let v = store.post_recv(1, peer, c);
                    let after: Vec<u64> = store.verif_entries().iter().map(|e| e.src_nodeid).collect();
                    let evicted: i64 = before.iter().find(|p| !after.contains(p)).map(|p| *p as i64).unwrap_or(-1);
                    steps += 1;
                    if Some(v) == st["v"].as_bool() && Some(evicted) == st["evicted"].as_i64() {
                        matched += 1;
                    } else if drift.len() < 5 {
                        drift.push(json!({"run": bi, "step": st, "real_v": v, "real_evicted": evicted}));
                    }
                    trace.ev(json!({"ev": "Recv", "kind": "grp", "peer": peer, "h": c >> 16, "lo": c & 0xffff, "v": v, "evicted": evicted}));
                }
            }
            k => panic!("unknown kind {k}"),
        }
    }
    trace.finish();
    println!("{}", json!({"behaviours": behaviours.len(), "steps": steps, "matched_steps": matched, "drift_samples": drift}));
    0
}
